//! harness family c20: output is a deterministic function of input.
//!
//! The family re-executes ITSELF (`std::env::current_exe()`) as N fresh child processes (Rust's `RandomState`
//! differs per process, so every `HashMap`/`HashSet` iterates in another order) on the same generated inputs
//! and the same (shimmed) clock.  Every process computes, per case and per operation, a digest of the bytes
//! the operation produced.  Oracle: for every (case, operation) all N child digests and the two digests
//! computed inside the parent process are identical.  Model tie: the `Records` renderers, the `chunks`
//! object of `FileImage::to_json` and `create_dasm_map` are compared with `Model.Determinism` (the iteration
//! order the parent process happened to see is passed to the model).
//! Appended case kinds (`idx >= 64` quick / `>= 320` thorough): tool-object SESSIONS (one Minifier / Tokenizer / Renumberer /
//! Disassembler object used for several inputs; outputs are part of the digest and are compared with fresh objects, oracle
//! `object-reuse`), random-access text files with more than 65536 records (`records-large-*`), and READER cases: images with
//! stamps at boundary dates are written once by the parent and then only read (`read-*`) -- by the parent under five
//! clocks in turn (oracle `clock-independence`) and by extra children started under other clocks and time zones
//! (oracle `environment-independence`), which also evaluate every other case that writes no stamp.
use crate::util::*;
use a2kit::fs::{cpm, dos3x, fat, pascal, prodos, DiskFS, FileImage, Records, TextConversion};
use a2kit::img::{self, names, DiskImage};
use a2kit::lang::merlin::ProcessorType;
use std::collections::{BTreeMap, HashMap};

const CHILD_ENV: &str = "A2V_C20_CHILD";
const KINDS: usize = 16;

/// identity converter: the bytes of the UTF-8 text (the model's converter is the identity as well)
struct Ident;
impl TextConversion for Ident {
    fn new(_line_terminator: Vec<u8>) -> Self { Ident }
    fn from_utf8(&self, txt: &str) -> Option<Vec<u8>> { Some(txt.as_bytes().to_vec()) }
    fn to_utf8(&self, src: &[u8]) -> Option<String> { Some(String::from_utf8_lossy(src).to_string()) }
}

/// (operation name, bytes produced); the digest of the bytes is what processes compare
type Obs = Vec<(String, Vec<u8>)>;

fn ob(obs: &mut Obs, name: &str, bytes: Vec<u8>) { obs.push((name.to_string(), bytes)); }
fn ob_res<T, E>(obs: &mut Obs, name: &str, r: Result<T, E>, f: impl FnOnce(T) -> Vec<u8>) {
    match r { Ok(v) => ob(obs, name, f(v)), Err(_) => ob(obs, name, b"<err>".to_vec()) }
}

// ------------------------------------------------------------------------------------------------ generators

fn gen_text(rng: &mut Rng, lines: usize, maxlen: usize) -> String {
    const CH: &[u8] = b"ABCDEFGHIJKLMNOPQRSTUVWXYZabcdefghijklmnopqrstuvwxyz0123456789 ,.;:!?+-*/=()\"\\";
    let mut s = String::new();
    for i in 0..lines {
        let n = rng.range(1, maxlen.max(1));
        for _ in 0..n { s.push(*rng.pick(CH) as char); }
        if i + 1 < lines || rng.chance(50) { s.push('\n'); }
    }
    s
}

struct RecCase { rec_len: usize, chunk_len: usize, require_first: bool, clear: bool, init: Vec<(usize, Vec<u8>)>, recs: Vec<(usize, String)>, overlong: bool }

fn gen_records(rng: &mut Rng, overlong: bool) -> RecCase {
    let rec_len = rng.range(6, 40);
    let chunk_len = *rng.pick(&[16usize, 32, 64, 256]);
    let n = rng.range(6, 10);
    let mut keys: Vec<usize> = Vec::new();
    while keys.len() < n { let k = rng.below(24); if !keys.contains(&k) { keys.push(k); } }
    let mut recs = Vec::new();
    for (i, k) in keys.iter().enumerate() {
        let lines = rng.range(1, 3);
        let mut txt = gen_text(rng, lines, (rec_len / lines).saturating_sub(1).max(1));
        while txt.len() > rec_len { txt.pop(); }
        if overlong && (i < 2) {
            // runs over the following record(s); the code only warns
            txt = gen_text(rng, 1, 1);
            while txt.len() < rec_len * 2 + 3 { txt.push((b'a' + (txt.len() % 26) as u8) as char); }
        }
        recs.push((*k, txt));
    }
    if overlong {
        // make sure the over-long records have neighbours to run into
        let k0 = recs[0].0;
        if !recs.iter().any(|(k, _)| *k == k0 + 1) { recs.push((k0 + 1, "NEXT".to_string())); }
    }
    let mut init = Vec::new();
    let clear = rng.chance(50);
    if rng.chance(60) {
        for c in 0..rng.range(1, 3) { init.push((c * 2, rng.bytes(chunk_len))); }
    }
    RecCase { rec_len, chunk_len, require_first: rng.chance(50), clear, init, recs, overlong }
}

fn blank_fimg(chunk_len: usize, init: &[(usize, Vec<u8>)]) -> FileImage {
    let mut chunks = HashMap::new();
    for (k, v) in init { chunks.insert(*k, v.clone()); }
    FileImage { fimg_version: FileImage::fimg_version(), file_system: "prodos".to_string(), chunk_len, eof: vec![0; 4], fs_type: vec![4],
        aux: vec![0, 0], access: vec![0xc3], accessed: vec![], created: vec![0; 4], modified: vec![0; 4], version: vec![0], min_version: vec![0],
        full_path: "RECS".to_string(), chunks }
}

fn mk_records(rc: &RecCase) -> Records {
    let mut r = Records::new(rc.rec_len);
    for (k, t) in &rc.recs { r.add_record(*k, t); }
    r
}

fn entries_str(es: &[(usize, Vec<u8>)]) -> String {
    if es.is_empty() { return "-".to_string(); }
    es.iter().map(|(k, v)| format!("{}:{}", k, hx(v))).collect::<Vec<String>>().join(";")
}

fn canon_fimg(f: &FileImage) -> String {
    let mut es: Vec<(usize, Vec<u8>)> = f.chunks.iter().map(|(k, v)| (*k, v.clone())).collect();
    es.sort();
    format!("eof={} {}", f.get_eof(), entries_str(&es))
}

// ------------------------------------------------------------------------------------------------ disks

#[derive(Clone, Copy, Debug, PartialEq)]
enum Fs { Dos33, Dos32, Prodos, Pascal, Cpm, Fat }

fn mk_disk(fs: Fs, variant: usize) -> Result<(Box<dyn DiskFS>, String), String> {
    let e = |x: Box<dyn std::error::Error>| x.to_string();
    match fs {
        Fs::Dos33 => {
            let (img, nm): (Box<dyn DiskImage>, &str) = match variant % 3 {
                0 => (Box::new(img::dsk_do::DO::create(35, 16)), "do"),
                1 => (Box::new(img::woz2::Woz2::create(254, names::A2_DOS33_KIND)), "woz2"),
                _ => (Box::new(img::nib::Nib::create(254, names::A2_DOS33_KIND)), "nib"),
            };
            let mut d = dos3x::Disk::from_img(img).map_err(e)?;
            d.init33(254, false).map_err(e)?;
            Ok((Box::new(d), format!("dos33/{}", nm)))
        }
        Fs::Dos32 => {
            let (img, nm): (Box<dyn DiskImage>, &str) = match variant % 2 {
                0 => (Box::new(img::dsk_d13::D13::create(35)), "d13"),
                _ => (Box::new(img::woz1::Woz1::create(254, names::A2_DOS32_KIND)), "woz1"),
            };
            let mut d = dos3x::Disk::from_img(img).map_err(e)?;
            d.init32(254, false).map_err(e)?;
            Ok((Box::new(d), format!("dos32/{}", nm)))
        }
        Fs::Prodos => {
            let (img, nm, floppy): (Box<dyn DiskImage>, &str, bool) = match variant % 4 {
                0 => (Box::new(img::dsk_po::PO::create(280)), "po", false),
                1 => (img::dot2mg::Dot2mg::create(254, names::A2_DOS33_KIND, None).map_err(e)?, "2mg", true),
                2 => (Box::new(img::woz2::Woz2::create(254, names::A2_DOS33_KIND)), "woz2", true),
                _ => (Box::new(img::dsk_do::DO::create(35, 16)), "do", false),
            };
            let mut d = prodos::Disk::from_img(img).map_err(e)?;
            d.format("NEW.DISK", floppy, None).map_err(e)?;
            Ok((Box::new(d), format!("prodos/{}", nm)))
        }
        Fs::Pascal => {
            let (img, nm): (Box<dyn DiskImage>, &str) = match variant % 2 {
                0 => (Box::new(img::dsk_do::DO::create(35, 16)), "do"),
                _ => (Box::new(img::dsk_po::PO::create(280)), "po"),
            };
            let mut d = pascal::Disk::from_img(img).map_err(e)?;
            d.format("BLANK", 0xee, None).map_err(e)?;
            Ok((Box::new(d), format!("pascal/{}", nm)))
        }
        Fs::Cpm => {
            let (img, kind, vers, nm): (Box<dyn DiskImage>, img::DiskKind, [u8; 3], &str) = match variant % 4 {
                0 => (Box::new(img::dsk_do::DO::create(35, 16)), names::A2_DOS33_KIND, [2, 2, 3], "do"),
                1 => (Box::new(img::imd::Imd::create(names::OSBORNE1_DD_KIND)), names::OSBORNE1_DD_KIND, [2, 2, 3], "imd-osb"),
                2 => (Box::new(img::td0::Td0::create(names::KAYPROII_KIND)), names::KAYPROII_KIND, [2, 2, 3], "td0-kayii"),
                _ => (Box::new(img::imd::Imd::create(names::IBM_CPM1_KIND)), names::IBM_CPM1_KIND, [3, 1, 0], "imd-cpm3"),
            };
            let mut d = cpm::Disk::from_img(img, a2kit::bios::dpb::DiskParameterBlock::create(&kind), vers).map_err(e)?;
            let time = if vers[0] >= 3 { Some(chrono::Local::now().naive_local()) } else { None };
            d.format(if vers[0] >= 3 { "LABEL" } else { "" }, time).map_err(e)?;
            Ok((Box::new(d), format!("cpm/{}", nm)))
        }
        Fs::Fat => {
            let (kind, which, nm) = match variant % 3 {
                0 => (img::DiskKind::D525(names::IBM_SSDD_9), 0, "img-180k"),
                1 => (img::DiskKind::D525(names::IBM_DSDD_9), 1, "imd-360k"),
                _ => (img::DiskKind::D35(names::IBM_1440), 0, "img-1440k"),
            };
            let img: Box<dyn DiskImage> = if which == 0 { Box::new(img::dsk_img::Img::create(kind)) } else { Box::new(img::imd::Imd::create(kind)) };
            let boot = a2kit::bios::bpb::BootSector::create(&kind).map_err(e)?;
            let mut d = fat::Disk::from_img(img, Some(boot)).map_err(e)?;
            d.format("NEWDISK", None).map_err(e)?;
            Ok((Box::new(d), format!("fat/{}", nm)))
        }
    }
}

fn fname(fs: Fs, i: usize, dir: &str) -> String {
    let base = match fs {
        Fs::Dos33 | Fs::Dos32 => format!("FILE{}", i),
        Fs::Prodos => format!("FILE{}", i),
        Fs::Pascal => format!("F{}.TEXT", i),
        Fs::Cpm => format!("FILE{}.TXT", i),
        Fs::Fat => format!("FILE{}.TXT", i),
    };
    if dir.is_empty() { base } else { format!("{}/{}", dir, base) }
}

/// an operation history on a fresh volume, then every observation C20 lists
// ------------------------------------------------------------------------------------------------ reads are pure
//
// Image objects keep incidental state between calls (the head position / bit pointer of nibble images, the current track
// of IMD / TD0, caches).  A read-only output must be a function of the image alone: every such output is computed (a) on
// a FRESH object opened from the image bytes and (b) on an object opened from the same bytes after a random sequence of
// OTHER read-only operations; the two must be identical (oracle `prior-reads`, sig `c20/<op>/depends-on-prior-reads`).

fn image_ext(label: &str) -> &'static str {
    let c = label.rsplit('/').next().unwrap_or("");
    if c.starts_with("woz") { "woz" } else if c == "nib" { "nib" } else if c == "d13" { "d13" } else if c == "po" { "po" } else if c == "2mg" { "2mg" }
    else if c.starts_with("imd") { "imd" } else if c.starts_with("td0") { "td0" } else if c.starts_with("img") { "img" } else { "do" }
}

/// image-level read-only operations (no file system involved); None = not an image-level operation
fn img_op(img: &mut Box<dyn DiskImage>, op: &str) -> Option<Vec<u8>> {
    let (name, arg) = match op.find(':') { Some(p) => (&op[..p], &op[p + 1..]), None => (op, "") };
    let num = |a: &str| a.parse::<usize>().unwrap_or(0);
    Some(match name {
        "geometry" => res_bytes(img.export_geometry(None)),
        "metadata" => img.get_metadata(None).into_bytes(),
        "to-bytes" => img.to_bytes(),
        "track-nibbles" => match img.get_track_nibbles(num(arg), 0) { Ok(v) => v, Err(e) => format!("<err {}>", e).into_bytes() },
        "track-buf" => match img.get_track_buf(num(arg), 0) { Ok(v) => v, Err(e) => format!("<err {}>", e).into_bytes() },
        // the fields of `TrackSolution` are private: only whether the track was solved (its content is in `geometry`)
        "track-solution" => match img.get_track_solution(num(arg)) { Ok(Some(_)) => b"<solved>".to_vec(), Ok(None) => b"<none>".to_vec(), Err(e) => format!("<err {}>", e).into_bytes() },
        _ => return None,
    })
}

/// one read-only operation on an open disk; `op` = name[:argument]
fn read_op(disk: &mut Box<dyn DiskFS>, op: &str, root: &str) -> Vec<u8> {
    if let Some(v) = img_op(disk.get_img(), op) { return v; }
    let (name, arg) = match op.find(':') { Some(p) => (&op[..p], &op[p + 1..]), None => (op, "") };
    match name {
        "catalog" => match disk.catalog_to_vec(if arg.is_empty() { root } else { arg }) { Ok(v) => v.join("\n").into_bytes(), Err(e) => format!("<err {}>", e).into_bytes() },
        "tree" => res_bytes(disk.tree(true, None)),
        "stat" => match disk.stat() { Ok(s) => s.to_json(None).into_bytes(), Err(e) => format!("<err {}>", e).into_bytes() },
        "glob" => match disk.glob("*", false) { Ok(v) => v.join("\n").into_bytes(), Err(e) => format!("<err {}>", e).into_bytes() },
        "get" => match disk.get(arg) { Ok(f) => f.to_json(None).into_bytes(), Err(e) => format!("<err {}>", e).into_bytes() },
        _ => b"<unknown-op>".to_vec(),
    }
}

fn prior_reads_check(rng: &mut Rng, idx: usize, label: &str, bytes: &Vec<u8>, files: &[String], dirs: &[String], root: &str, obs: &mut Obs, reuse: &mut Reuse) {
    let ext = image_ext(label);
    let open = || a2kit::create_fs_from_bytestream(bytes, Some(ext)).ok();
    if open().is_none() { ob(obs, "prior-reads-verdict", b"<not-reopened>".to_vec()); return; }
    let mut ops: Vec<String> = ["geometry", "metadata", "catalog", "tree", "stat", "glob", "to-bytes", "track-nibbles:0", "track-nibbles:1", "track-buf:0", "track-solution:0", "track-solution:2"]
        .iter().map(|s| s.to_string()).collect();
    for d in dirs.iter().skip(1).take(2) { ops.push(format!("catalog:{}", d)); }
    let mut fl: Vec<String> = files.to_vec();
    for k in (1..fl.len()).rev() { let j = rng.below(k + 1); fl.swap(k, j); }
    for f in fl.iter().take(4) { ops.push(format!("get:{}", f)); }
    let mut failed: Vec<String> = Vec::new();
    for x in ops.clone().iter() {
        let mut fresh = match open() { Some(d) => d, None => continue };
        let a = read_op(&mut fresh, x, root);
        let mut used = match open() { Some(d) => d, None => continue };
        let mut prior: Vec<String> = Vec::new();
        for _ in 0..rng.range(2, 5) {
            let p = ops[rng.below(ops.len())].clone();
            // the expensive exports are used as prior operations now and then only
            if p == *x || ((p == "geometry" || p == "to-bytes") && !rng.chance(25)) { continue; }
            let _ = read_op(&mut used, &p, root);
            prior.push(p);
        }
        // always at least one real sector read (a file, or the catalog): that is what leaves the head somewhere
        if !prior.iter().any(|p| p.starts_with("get:") || p.starts_with("catalog")) {
            let p = match fl.get(rng.below(fl.len().max(1))) { Some(f) if !x.starts_with("get:") => format!("get:{}", f), _ => "catalog".to_string() };
            let _ = read_op(&mut used, &p, root);
            prior.push(p);
        }
        let b = read_op(&mut used, x, root);
        let class = x.split(':').next().unwrap_or(x);
        // image-level outputs also against the bare image object (no file system opened on it: opening one already reads
        // sectors, and some file systems touch the image again in `get_img()`, which would mask the head position)
        let bare = a2kit::create_img_from_bytestream(bytes, Some(ext)).ok().and_then(|mut im| img_op(&mut im, x));
        if let Some(a0) = &bare {
            let same0 = *a0 == a;
            if !same0 { failed.push(format!("{}@fs-open", x)); }
            let fd = a0.iter().zip(a.iter()).position(|(p, q)| p != q).unwrap_or(a0.len().min(a.len()));
            reuse.push((format!("c20/{}/depends-on-prior-reads", class), same0,
                format!("idx={} op={} image={} ({} bytes) prior-reads=[opening the file system on the image] bare-image-len={} after-open-len={} first-difference-at={}", idx, x, label, bytes.len(), a0.len(), a.len(), fd)));
        }
        let same = a == b;
        if !same { failed.push(x.clone()); }
        let first_diff = a.iter().zip(b.iter()).position(|(p, q)| p != q).unwrap_or(a.len().min(b.len()));
        reuse.push((format!("c20/{}/depends-on-prior-reads", class), same,
            format!("idx={} op={} image={} ({} bytes) prior-reads=[{}] fresh-len={} after-reads-len={} first-difference-at={}", idx, x, label, bytes.len(), prior.join(", "), a.len(), b.len(), first_diff)));
    }
    ob(obs, "prior-reads-verdict", failed.join(",").into_bytes());
}

fn disk_case(rng: &mut Rng, fs: Fs, variant: usize, obs: &mut Obs, reuse: &mut Reuse, idx: usize) -> String {
    let (mut disk, label) = match mk_disk(fs, variant) { Ok(x) => x, Err(e) => { ob(obs, "mkdisk", format!("err {}", e).into_bytes()); return format!("{:?}/{} mk-failed", fs, variant); } };
    let mut desc = label.clone();
    let hier = fs == Fs::Prodos || fs == Fs::Fat;
    let mut dirs: Vec<String> = vec!["".to_string()];
    if hier {
        for d in ["SUB1", "SUB2", "SUB3", "SUB1/DEEP", "SUB1/DEEP2"] { if disk.create(d).is_ok() { dirs.push(d.to_string()); } }
    }
    // CP/M: at least six different user areas hold files (the `users` list of stat, catalogs per user)
    let mut users: Vec<usize> = Vec::new();
    if fs == Fs::Cpm {
        let n = rng.range(6, 9);
        while users.len() < n { let u = rng.below(16); if !users.contains(&u) { users.push(u); } }
    }
    // every directory (every rendered list) gets at least six entries
    let mut plan: Vec<String> = Vec::new();
    let mut i = 0;
    for d in &dirs {
        let per_dir = if hier { 6 } else { rng.range(8, 11) };
        for _ in 0..per_dir {
            let base = fname(fs, i, d);
            plan.push(if fs == Fs::Cpm { format!("{}:{}", users[i % users.len()], base) } else { base });
            i += 1;
        }
    }
    // shuffle the creation order so that directory order is not creation order by construction
    for k in (1..plan.len()).rev() { let j = rng.below(k + 1); plan.swap(k, j); }
    let mut live: Vec<String> = Vec::new();
    for (i, path) in plan.iter().enumerate() {
        let len = if hier { *rng.pick(&[1usize, 100, 300, 700]) } else { *rng.pick(&[1usize, 100, 300, 700, 1500, 3000]) };
        let ok = match rng.below(3) {
            0 if fs != Fs::Pascal => disk.bsave(path, &rng.bytes(len), if fs == Fs::Cpm || fs == Fs::Fat { None } else { Some(0x2000 + i) }, None).is_ok(),
            1 => { let t = gen_text(rng, 1 + len / 40, 38).replace('\\', "/").replace('"', "'"); disk.write_text(path, &t).is_ok() }
            _ => { let mut f = match disk.new_fimg(None, true, path) { Ok(f) => f, Err(_) => continue }; f.pack_raw(&rng.bytes(len)).is_ok() && disk.put(&f).is_ok() }
        };
        desc += &format!(" put:{}:{}", path, ok);
        if ok { live.push(path.clone()); }
    }
    // random access text goes through Records::update_fimg
    if fs == Fs::Dos33 || fs == Fs::Prodos {
        let rc = gen_records(rng, false);
        let recs = mk_records(&rc);
        let ok = disk.write_records("RECS", &recs).is_ok();
        desc += &format!(" write_records:{}", ok);
        if ok { live.push("RECS".to_string()); }
    }
    // a few structural operations
    if live.len() > 3 {
        let victim = live.remove(rng.below(live.len()));
        desc += &format!(" del:{}:{}", victim, disk.delete(&victim).is_ok());
        let r = live[rng.below(live.len())].clone();
        let newname = match fs { Fs::Pascal => "RENAMED.TEXT", Fs::Cpm | Fs::Fat => "RENAMED.TXT", _ => "RENAMED" };
        let newname = match (fs, r.find(':')) { (Fs::Cpm, Some(p)) => format!("{}{}", &r[..p + 1], newname), _ => newname.to_string() };
        let newname = newname.as_str();
        if disk.rename(&r, newname).is_ok() {
            let parent = match r.rfind('/') { Some(p) => r[..p + 1].to_string(), None => "".to_string() };
            live.retain(|x| *x != r);
            live.push(format!("{}{}", parent, newname));
            desc += &format!(" ren:{}", r);
        }
        let l = live[rng.below(live.len())].clone();
        desc += &format!(" lock:{}:{}", l, disk.lock(&l).is_ok());
    }
    // observations
    let root = if hier { "/" } else { "" };
    ob_res(obs, "catalog", disk.catalog_to_vec(root), |v| v.join("\n").into_bytes());
    for d in dirs.iter().skip(1) { ob_res(obs, "catalog", disk.catalog_to_vec(d), |v| v.join("\n").into_bytes()); }
    ob_res(obs, "tree", disk.tree(true, None), |s| s.into_bytes());
    ob_res(obs, "tree", disk.tree(false, Some(2)), |s| s.into_bytes());
    ob_res(obs, "stat", disk.stat(), |s| s.to_json(None).into_bytes());
    ob_res(obs, "glob", disk.glob("*", false), |v| v.join("\n").into_bytes());
    ob_res(obs, "glob", disk.glob("**/*E*", true), |v| v.join("\n").into_bytes());
    live.sort();
    for p in &live {
        match disk.get(p) {
            Ok(f) => {
                ob(obs, "get-fimg-json", f.to_json(None).into_bytes());
                ob(obs, "get-fimg-json", f.to_json(Some(2)).into_bytes());
                ob_res(obs, "get-raw", f.unpack_raw(true), |v| v);
                if p.ends_with("RECS") { ob_res(obs, "get-unpack-rec-str", f.unpack_rec_str(None, None), |s| s.into_bytes()); }
            }
            Err(_) => ob(obs, "get-fimg-json", b"<err>".to_vec()),
        }
    }
    // several metadata keys (those the container does not know are refused; the outcome is part of the observation)
    let kp = |a: &str, b: &str, c: &str| vec![a.to_string(), b.to_string(), c.to_string()];
    let mut meta_res = String::new();
    for (k, v) in [(kp("woz2", "meta", "title"), "Determinism"), (kp("woz2", "meta", "publisher"), "a2v"), (kp("woz2", "meta", "developer"), "c20"),
        (kp("woz2", "meta", "language"), "English"), (kp("woz2", "meta", "requires_ram"), "64K"), (kp("woz2", "meta", "notes"), "six keys"),
        (kp("woz2", "meta", "side"), "Disk 1, Side A"), (kp("woz2", "info", "creator"), "a2v c20"), (kp("woz1", "info", "creator"), "a2v c20"),
        (kp("2mg", "header", "comment"), "c20 comment"), (vec!["2mg".to_string(), "comment".to_string()], "c20 comment"),
        (vec!["imd".to_string(), "comment".to_string()], "c20 comment"), (vec!["td0".to_string(), "comment".to_string()], "c20 comment")] {
        meta_res += if disk.get_img().put_metadata(&k, &json::JsonValue::String(v.to_string())).is_ok() { "1" } else { "0" };
    }
    ob(obs, "metadata", meta_res.into_bytes());
    ob_res(obs, "geometry", disk.get_img().export_geometry(None), |s| s.into_bytes());
    ob(obs, "metadata", disk.get_img().get_metadata(None).into_bytes());
    ob(obs, "metadata", disk.get_img().get_metadata(Some(2)).into_bytes());
    let bytes = disk.get_img().to_bytes();
    ob(obs, "img-bytes", bytes.clone());
    prior_reads_check(rng, idx, &label, &bytes, &live, &dirs, root, obs, reuse);
    desc
}

// ------------------------------------------------------------------------------------------------ languages

fn gen_applesoft(rng: &mut Rng) -> String {
    let stmts = ["PRINT \"HELLO\"", "A = A + 1", "GOSUB 100", "FOR I = 1 TO 10: NEXT I", "IF A > 3 THEN GOTO 10", "HOME", "DIM X(10),Y$(4)",
        "INPUT \"NAME\";N$", "REM a comment", "POKE 49168,0", "X = PEEK(49152)", "DEF FN SQ(X) = X*X", "PRINT FN SQ(3);A$;LONGNAME", "HTAB 5: VTAB 6", "DATA 1,2,\"three\"", "READ A,B,C$", "CALL -936"];
    let mut s = String::new();
    for i in 0..rng.range(6, 14) { s += &format!("{} {}\n", 10 * (i + 1), rng.pick(&stmts)); }
    s
}
fn gen_integer(rng: &mut Rng) -> String {
    let stmts = ["PRINT \"HELLO\"", "A = A + 1", "GOSUB 100", "FOR I = 1 TO 10: NEXT I", "IF A > 3 THEN GOTO 10", "DIM X(10),Y$(4)", "INPUT N$", "REM a comment",
        "POKE 49168,0", "X = PEEK(49152)", "CALL -936", "TAB 5: VTAB 6", "END"];
    let mut s = String::new();
    for i in 0..rng.range(6, 14) { s += &format!("{} {}\n", 10 * (i + 1), rng.pick(&stmts)); }
    s
}
fn gen_merlin(rng: &mut Rng) -> String {
    let lines = ["START    LDA   #$00", "         STA   $C010", "LOOP     INX", "         BNE   LOOP", "         JSR   $FDED", "         JMP   START", "* comment line",
        "VAL      EQU   $300", "         LDA   VAL,X", "         RTS", ":LOCAL   DEC", "         BEQ   :LOCAL", "]VAR     =     5", "         DFB   $01,$02,VAL", "         ASC   'HELLO'", "MAC1     MAC", "         <<<"];
    let mut s = String::new();
    for _ in 0..rng.range(6, 14) { s += *rng.pick(&lines[..]); s.push('\n'); }
    s
}

fn lang_case(rng: &mut Rng, obs: &mut Obs) -> String {
    let a = gen_applesoft(rng);
    let mut at = a2kit::lang::applesoft::tokenizer::Tokenizer::new();
    match at.tokenize(&a, 2049) {
        Ok(t) => { ob_res(obs, "applesoft-detokenize", at.detokenize(&t), |s| s.into_bytes()); ob(obs, "applesoft-tokenize", t); }
        Err(_) => ob(obs, "applesoft-tokenize", b"<err>".to_vec()),
    }
    let i = gen_integer(rng);
    let mut it = a2kit::lang::integer::tokenizer::Tokenizer::new();
    match it.tokenize(i.clone()) {
        Ok(t) => { ob_res(obs, "integer-detokenize", it.detokenize(&t), |s| s.into_bytes()); ob(obs, "integer-tokenize", t); }
        Err(_) => ob(obs, "integer-tokenize", b"<err>".to_vec()),
    }
    let m = gen_merlin(rng);
    let mut mt = a2kit::lang::merlin::tokenizer::Tokenizer::new();
    match mt.tokenize(m.clone()) {
        Ok(t) => { ob_res(obs, "merlin-detokenize", mt.detokenize(&t), |s| s.into_bytes()); ob(obs, "merlin-tokenize", t); }
        Err(_) => ob(obs, "merlin-tokenize", b"<err>".to_vec()),
    }
    // disassembly: random bytes plus a few of the doubly claimed opcodes (jml/jmp $5C, jsl/jsr $22)
    let ncode = rng.range(40, 120);
    let mut code = rng.bytes(ncode);
    for k in 0..4 { let p = rng.below(code.len() - 4); code[p] = if k % 2 == 0 { 0x5c } else { 0x22 }; }
    for (proc, nm) in [(ProcessorType::_6502, "6502"), (ProcessorType::_65c02, "65c02"), (ProcessorType::_65c816, "65c816")] {
        for labeling in ["all", "some", "none"] {
            let mut d = a2kit::lang::merlin::disassembly::Disassembler::new();
            d.set_program_counter(Some(0x300));
            let mut img = vec![0u8; 0x300];
            img.extend_from_slice(&code);
            let r = d.disassemble(&img, a2kit::lang::merlin::disassembly::DasmRange::Range([0x300, 0x300 + code.len()]), proc.clone(), labeling);
            ob_res(obs, &format!("disassemble-{}", nm), r, |s| s.into_bytes());
        }
    }
    let mut d = a2kit::lang::merlin::disassembly::Disassembler::new();
    ob(obs, "disassemble-data", d.disassemble_as_data(&code).into_bytes());
    format!("lang applesoft={}B integer={}B merlin={}B code={}", a.len(), i.len(), m.len(), hx(&code))
}

fn records_case(rng: &mut Rng, overlong: bool, obs: &mut Obs) -> (String, RecCase) {
    let rc = gen_records(rng, overlong);
    let recs = mk_records(&rc);
    ob(obs, "records-to-json", recs.to_json(None).into_bytes());
    ob(obs, "records-to-json", recs.to_json(Some(2)).into_bytes());
    ob(obs, "records-display", recs.to_string().into_bytes());
    let mut f = blank_fimg(rc.chunk_len, &rc.init);
    let r = recs.update_fimg(&mut f, rc.require_first, Ident, rc.clear);
    ob(obs, "records-update-fimg", match r { Ok(()) => canon_fimg(&f).into_bytes(), Err(_) => b"<err>".to_vec() });
    // the same through a packer and onto a disk: bytes of the modified image
    if let Ok((mut disk, _)) = mk_disk(if overlong { Fs::Prodos } else { Fs::Dos33 }, 0) {
        let w = disk.write_records("RECS", &recs).is_ok();
        ob(obs, "records-image-bytes", if w { disk.get_img().to_bytes() } else { b"<err>".to_vec() });
        if w {
            ob_res(obs, "records-image-read-back", disk.read_records("RECS", Some(rc.rec_len)), |r| {
                let mut es: Vec<(usize, String)> = r.map.iter().map(|(k, v)| (*k, v.clone())).collect();
                es.sort();
                format!("{:?}", es).into_bytes()
            });
        }
    }
    // round trip of the JSON through from_json
    ob_res(obs, "records-from-json", Records::from_json(&recs.to_json(None)), |r| {
        let mut es: Vec<(usize, String)> = r.map.iter().map(|(k, v)| (*k, v.clone())).collect();
        es.sort();
        format!("{:?}", es).into_bytes()
    });
    (format!("records rec_len={} chunk_len={} require_first={} clear={} overlong={} keys={:?}", rc.rec_len, rc.chunk_len, rc.require_first, rc.clear,
        rc.overlong, rc.recs.iter().map(|x| x.0).collect::<Vec<usize>>()), rc)
}

// ------------------------------------------------------------------------------------------------ tool objects
//
// "In the same process or a new one": the tool objects (Minifier, Tokenizers, Renumberer, Disassembler) are long-lived
// in the language servers, and any library user may keep one.  A session case runs a sequence of calls on ONE object
// of each kind; the outputs go into the per-process digest (op `*-session`), and in the parent every output is also
// compared with what a FRESH object gives for the same input (oracle `object-reuse`, sig `c20/<tool>/object-reuse`).

/// (signature, pass, replayable detail) of the object-reuse comparisons of one case
type Reuse = Vec<(String, bool, String)>;

/// Applesoft programs for the minifier sessions: REM-only lines (deleted at level >= 2, references to them are
/// redirected), branches, and line numbers drawn from one small pool per session, so that a line number that was a
/// deleted REM line in one program is an ordinary branch target in the next
fn gen_minify_prog(rng: &mut Rng, pool_start: usize) -> String {
    let step = *rng.pick(&[5usize, 10, 10, 20]);
    let n = rng.range(3, 8);
    let nums: Vec<usize> = (0..n).map(|i| pool_start + i * step).collect();
    let mut s = String::new();
    for (i, num) in nums.iter().enumerate() {
        let t = *rng.pick(&nums);
        let u = *rng.pick(&nums);
        let body = if i + 1 < n && rng.chance(35) { format!("REM {}", rng.pick(&["TITLE", "SUBROUTINE", "MAIN LOOP", "X"])) } else {
            match rng.below(9) {
                0 => "PRINT \"HELLO\"".to_string(), 1 => format!("GOTO {}", t), 2 => format!("GOSUB {}", t), 3 => format!("IF X < 10 THEN {}", t),
                4 => format!("ON X GOTO {},{}", t, u), 5 => "X = X + 1".to_string(), 6 => format!("IF A$ = \"Q\" THEN GOTO {}", t), 7 => "INPUT A$".to_string(), _ => "RETURN".to_string() }
        };
        s += &format!("{} {}\n", num, body);
    }
    s
}

fn res_bytes<E: std::fmt::Display>(r: Result<String, E>) -> Vec<u8> { match r { Ok(s) => s.into_bytes(), Err(e) => format!("<err {}>", e).into_bytes() } }
fn res_vec<E>(r: Result<Vec<u8>, E>) -> Vec<u8> { match r { Ok(s) => s, Err(_) => b"<err>".to_vec() } }

fn session_case(rng: &mut Rng, idx: usize, obs: &mut Obs, reuse: &mut Reuse) -> String {
    use a2kit::lang::applesoft::minifier::Minifier;
    use a2kit::lang::linenum::Renumber;
    let show = |b: &[u8]| String::from_utf8_lossy(b).to_string();
    // ---- minifier: 2-6 programs, levels 1-3, shared line-number pool
    let pool = *rng.pick(&[10usize, 10, 20, 100]);
    let mut m = Minifier::new();
    let mut hist: Vec<String> = Vec::new();
    for c in 0..rng.range(2, 6) {
        let start = if rng.chance(80) { pool } else { pool + 5 };
        let prog = gen_minify_prog(rng, start);
        let level = rng.range(1, 3);
        m.set_level(level);
        let out = res_bytes(m.minify(&prog));
        let mut f = Minifier::new();
        f.set_level(level);
        let fresh = res_bytes(f.minify(&prog));
        reuse.push(("c20/minifier/object-reuse".to_string(), out == fresh, format!("idx={} op=minifier-session call={} level={} prog={:?} reused={:?} fresh={:?} earlier-calls=[{}]", idx, c, level, prog, show(&out), show(&fresh), hist.join(" ; "))));
        ob(obs, "minifier-session", out);
        hist.push(format!("L{} {:?}", level, prog));
    }
    // ---- Integer BASIC tokenizer: accepted programs and programs rejected on a late line
    let mut it = a2kit::lang::integer::tokenizer::Tokenizer::new();
    let mut hist: Vec<String> = Vec::new();
    for c in 0..rng.range(2, 5) {
        let mut p = gen_integer(rng);
        if rng.chance(45) {
            let mut lines: Vec<String> = p.lines().map(|l| l.to_string()).collect();
            let k = rng.range(1, lines.len());
            lines.insert(k, if rng.chance(50) { format!("{} A={}", 5 + 10 * k, rng.range(32768, 65000)) } else { format!("{} PRINT \"{}\"", 5 + 10 * k, "X".repeat(rng.range(126, 150))) });
            p = lines.join("\n") + "\n";
        }
        let out = res_vec(it.tokenize(p.clone()));
        let fresh = res_vec(a2kit::lang::integer::tokenizer::Tokenizer::new().tokenize(p.clone()));
        reuse.push(("c20/integer-tokenizer/object-reuse".to_string(), out == fresh, format!("idx={} op=integer-tokenizer-session call={} prog={:?} reused={} fresh={} earlier-calls=[{}]", idx, c, p, hx(&out), hx(&fresh), hist.join(" ; "))));
        ob(obs, "integer-tokenizer-session", out);
        hist.push(format!("{:?}", p));
    }
    // ---- Applesoft tokenizer: accepted programs and programs rejected on a late line (line number above 65535)
    let mut at = a2kit::lang::applesoft::tokenizer::Tokenizer::new();
    let mut hist: Vec<String> = Vec::new();
    for c in 0..rng.range(2, 5) {
        let mut p = gen_applesoft(rng);
        if rng.chance(45) {
            let mut lines: Vec<String> = p.lines().map(|l| l.to_string()).collect();
            let k = rng.range(1, lines.len());
            lines.insert(k, format!("{} PRINT", rng.range(65536, 99999)));
            p = lines.join("\n") + "\n";
        }
        let addr = *rng.pick(&[2049u16, 2049, 0x4000, 0x6000]);
        let out = res_vec(at.tokenize(&p, addr));
        let fresh = res_vec(a2kit::lang::applesoft::tokenizer::Tokenizer::new().tokenize(&p, addr));
        reuse.push(("c20/applesoft-tokenizer/object-reuse".to_string(), out == fresh, format!("idx={} op=applesoft-tokenizer-session call={} addr={} prog={:?} reused={} fresh={} earlier-calls=[{}]", idx, c, addr, p, hx(&out), hx(&fresh), hist.join(" ; "))));
        ob(obs, "applesoft-tokenizer-session", out);
        hist.push(format!("{:?}", p));
    }
    // ---- Applesoft renumberer
    let mut rn = a2kit::lang::applesoft::renumber::Renumberer::new();
    let mut hist: Vec<String> = Vec::new();
    for c in 0..rng.range(2, 4) {
        let p = gen_minify_prog(rng, pool);
        let (beg, end, first, step) = (rng.below(40), 1000 + rng.below(100), *rng.pick(&[1usize, 100, 1000]), *rng.pick(&[1usize, 7, 10]));
        let out = res_bytes(rn.renumber(&p, beg, end, first, step));
        let fresh = res_bytes(a2kit::lang::applesoft::renumber::Renumberer::new().renumber(&p, beg, end, first, step));
        reuse.push(("c20/renumberer/object-reuse".to_string(), out == fresh, format!("idx={} op=renumberer-session call={} args={},{},{},{} prog={:?} reused={:?} fresh={:?} earlier-calls=[{}]", idx, c, beg, end, first, step, p, show(&out), show(&fresh), hist.join(" ; "))));
        // the map the renumberer gathers is part of what it offers (LSP); its order is a BTreeMap's
        if let Ok(d) = rn.gather_defs(&p, 0) { ob(obs, "renumberer-session", format!("{:?}", d.keys().collect::<Vec<_>>()).into_bytes()); }
        ob(obs, "renumberer-session", out);
        hist.push(format!("{:?}", p));
    }
    // ---- disassembler: several images and processors through one object
    let mut d = a2kit::lang::merlin::disassembly::Disassembler::new();
    d.set_program_counter(Some(0x300));
    for c in 0..rng.range(2, 4) {
        let n = rng.range(20, 60);
        let code = rng.bytes(n);
        let proc = match rng.below(3) { 0 => ProcessorType::_6502, 1 => ProcessorType::_65c02, _ => ProcessorType::_65c816 };
        let labeling = *rng.pick(&["all", "some", "none"]);
        let mut img = vec![0u8; 0x300];
        img.extend_from_slice(&code);
        let rng_ = a2kit::lang::merlin::disassembly::DasmRange::Range([0x300, 0x300 + code.len()]);
        let out = res_bytes(d.disassemble(&img, rng_, proc.clone(), labeling));
        let mut f = a2kit::lang::merlin::disassembly::Disassembler::new();
        f.set_program_counter(Some(0x300));
        let fresh = res_bytes(f.disassemble(&img, a2kit::lang::merlin::disassembly::DasmRange::Range([0x300, 0x300 + code.len()]), proc, labeling));
        reuse.push(("c20/disassembler/object-reuse".to_string(), out == fresh, format!("idx={} op=disassembler-session call={} labeling={} code={}", idx, c, labeling, hx(&code))));
        ob(obs, "disassembler-session", out);
    }
    "tool-session minifier integer-tokenizer applesoft-tokenizer renumberer disassembler".to_string()
}

/// random-access text with MORE than 65536 non-empty records (legal: a ProDOS file holds 16 MiB, the record length may be
/// 2): the records derived from the file image must not depend on the order in which the chunk map is walked
fn big_records_case(rng: &mut Rng, variant: usize, obs: &mut Obs) -> String {
    let (rec_len, chunks) = match variant % 3 { 0 => (2usize, 258 + rng.below(6)), 1 => (3, 386 + rng.below(6)), _ => (4, 514 + rng.below(6)) };
    let mut data = vec![0u8; 512 * chunks];
    for b in data.iter_mut() { *b = b'A' + (rng.next() % 26) as u8; }
    let mut fimg = match a2kit::fs::prodos::new_fimg(512, false, "BIG.RANDOM") { Ok(f) => f, Err(_) => { ob(obs, "records-large-from-fimg", b"<no-fimg>".to_vec()); return "records-large new_fimg failed".to_string(); } };
    fimg.desequence(&data);
    fimg.fs_type = vec![0x04];
    fimg.aux = vec![rec_len as u8, 0];
    // rebuild the image from its JSON: the chunks then live in a new HashMap (new hash keys), as in another process
    let fimg = match FileImage::from_json(&fimg.to_json(None)) { Ok(f) => f, Err(_) => fimg };
    let mut count = 0usize;
    ob_res(obs, "records-large-from-fimg", Records::from_fimg(&fimg, rec_len, Ident), |r| {
        let mut es: Vec<(usize, String)> = r.map.iter().map(|(k, v)| (*k, v.clone())).collect();
        es.sort();
        count = es.len();
        let mut out = Vec::with_capacity(es.len() * 8);
        for (k, v) in es { out.extend_from_slice(&(k as u32).to_le_bytes()); out.extend_from_slice(v.as_bytes()); out.push(0); }
        out
    });
    ob_res(obs, "records-large-unpack-rec-str", fimg.unpack_rec_str(Some(rec_len), None), |s| s.into_bytes());
    format!("records-large rec_len={} chunk_len=512 chunks={} bytes={} records-found={} (all bytes are letters: every record is non-empty)", rec_len, chunks, data.len(), count)
}

// ------------------------------------------------------------------------------------------------ the clock must not matter
//
// Reading an EXISTING image (catalog, tree with metadata, stat, glob, get -> JSON / raw, geometry, metadata) has to give
// the same bytes whatever the wall clock and time zone of the reading machine are; only operations that by design stamp
// the current time (put / create / format / save of a modified image) may depend on them.  The parent builds a few
// images whose entries carry stamps at boundary dates (the clock shim re-reads A2KIT_VERIF_TIME on every call, so the
// parent steps the clock while it writes the files), saves them to a scratch directory, and every process -- the parent
// under five different clocks in turn, the ordinary children, and children started with other clocks and time zones --
// re-opens the saved files and runs the read-only operations (`read-*`).

const IMGDIR_ENV: &str = "A2V_C20_IMGDIR";
const READER_IMAGES: usize = 4;

fn unix_of(y: i32, m: u32, d: u32, hh: u32, mm: u32) -> i64 {
    chrono::NaiveDate::from_ymd_opt(y, m, d).and_then(|x| x.and_hms_opt(hh, mm, 0)).map(|x| x.and_utc().timestamp()).unwrap_or(946684800)
}
fn set_clock(secs: i64) { std::env::set_var("A2KIT_VERIF_TIME", secs.to_string()); }

/// dates the stamps of the reader images are taken from: both sides of every pivot a decoder could use (1978/79 SOS,
/// 1980 FAT epoch, 99/00), the years around the time this was written, and years up to 2078 that a sliding window
/// ("not after today") would treat differently on different days
fn stamp_dates() -> Vec<i64> {
    vec![unix_of(1979, 1, 1, 0, 5), unix_of(1980, 1, 1, 12, 30), unix_of(1985, 7, 4, 9, 0), unix_of(1999, 12, 31, 23, 59), unix_of(2000, 1, 1, 0, 0),
         unix_of(2025, 9, 30, 12, 30), unix_of(2026, 9, 30, 12, 30), unix_of(2026, 10, 1, 0, 10), unix_of(2027, 6, 15, 12, 30), unix_of(2030, 2, 28, 8, 15),
         unix_of(2040, 12, 31, 12, 30), unix_of(2050, 6, 15, 12, 30), unix_of(2065, 3, 9, 18, 45), unix_of(2078, 12, 31, 23, 58), unix_of(2079, 1, 1, 0, 1), unix_of(2099, 12, 31, 12, 0)]
}

/// clocks under which the existing images are READ (parent, in turn; children get one each)
fn reading_clocks() -> Vec<i64> {
    vec![unix_of(1980, 1, 1, 0, 0), unix_of(2000, 1, 1, 0, 0), unix_of(2026, 9, 30, 12, 0), unix_of(2079, 12, 31, 23, 0), unix_of(2100, 1, 1, 0, 0)]
}

/// parent only: build the reader images (stepping the pinned clock) and save them; returns a description per image
fn build_reader_images(seed: u64, dir: &std::path::Path) -> Vec<String> {
    let keep = std::env::var("A2KIT_VERIF_TIME").ok();
    let mut rng = Rng::new(seed).fork(0xC10C);
    let dates = stamp_dates();
    let mut descs = Vec::new();
    for j in 0..READER_IMAGES {
        set_clock(unix_of(1984, 1, 24, 10, 0));
        let (fs, ext) = match j { 0 => (Fs::Prodos, "po"), 1 => (Fs::Pascal, "po"), 2 => (Fs::Fat, "img"), _ => (Fs::Cpm, "imd") };
        let made = match fs {
            Fs::Prodos => mk_disk(Fs::Prodos, 0), Fs::Pascal => mk_disk(Fs::Pascal, 1), Fs::Fat => mk_disk(Fs::Fat, 2), _ => mk_disk(Fs::Cpm, 3) };
        let (mut disk, label) = match made { Ok(x) => x, Err(e) => { descs.push(format!("reader-image {} mk-failed {}", j, e)); continue; } };
        let hier = fs == Fs::Prodos || fs == Fs::Fat;
        if hier { set_clock(dates[rng.below(dates.len())]); let _ = disk.create("SUB1"); }
        let mut d = format!("reader-image {} stamps:", label);
        let mut order: Vec<usize> = (0..dates.len()).collect();
        for k in (1..order.len()).rev() { let i = rng.below(k + 1); order.swap(k, i); }
        for (i, di) in order.iter().enumerate() {
            set_clock(dates[*di]);
            let path = fname(fs, i, if hier && i % 4 == 3 { "SUB1" } else { "" });
            let ok = match i % 3 {
                0 if fs != Fs::Pascal => disk.bsave(&path, &rng.bytes(40 + i), if fs == Fs::Fat || fs == Fs::Cpm { None } else { Some(0x2000) }, None).is_ok(),
                _ => disk.write_text(&path, "STAMPED\nFILE\n").is_ok(),
            };
            let when = chrono::DateTime::from_timestamp(dates[*di], 0).map(|t| t.format("%Y-%m-%dT%H:%M").to_string()).unwrap_or_default();
            d += &format!(" {}@{}:{}", path, when, ok as u8);
        }
        let bytes = disk.get_img().to_bytes();
        let _ = std::fs::write(dir.join(format!("img{}.{}", j, ext)), bytes);
        descs.push(d);
    }
    match keep { Some(v) => std::env::set_var("A2KIT_VERIF_TIME", v), None => std::env::remove_var("A2KIT_VERIF_TIME") }
    descs
}

/// every process: open saved image `j` and run the read-only operations
fn reader_case(j: usize, obs: &mut Obs) -> String {
    let dir = match std::env::var(IMGDIR_ENV) { Ok(d) => d, Err(_) => { ob(obs, "read-open", b"<no-image-dir>".to_vec()); return "reader no-image-dir".to_string(); } };
    let prefix = format!("img{}.", j);
    let path = std::fs::read_dir(&dir).ok().and_then(|rd| rd.filter_map(|e| e.ok()).map(|e| e.path()).find(|p| p.file_name().and_then(|n| n.to_str()).map_or(false, |n| n.starts_with(&prefix))));
    let path = match path { Some(p) => p, None => { ob(obs, "read-open", b"<no-image>".to_vec()); return format!("reader {} no-image", j); } };
    let mut disk = match a2kit::create_fs_from_file(&path.to_string_lossy()) { Ok(d) => d, Err(e) => { ob(obs, "read-open", format!("<err {}>", e).into_bytes()); return format!("reader {} open-failed", j); } };
    ob(obs, "read-open", b"ok".to_vec());
    let fs_name = disk.stat().map(|s| s.fs_name.clone()).unwrap_or_default();
    let hier = fs_name.contains("prodos") || fs_name.contains("fat");
    ob_res(obs, "read-catalog", disk.catalog_to_vec(if hier { "/" } else { "" }), |v| v.join("\n").into_bytes());
    if hier { ob_res(obs, "read-catalog", disk.catalog_to_vec("SUB1"), |v| v.join("\n").into_bytes()); }
    ob_res(obs, "read-tree-meta", disk.tree(true, None), |s| s.into_bytes());
    ob_res(obs, "read-tree-meta", disk.tree(true, Some(2)), |s| s.into_bytes());
    ob_res(obs, "read-tree", disk.tree(false, None), |s| s.into_bytes());
    ob_res(obs, "read-stat", disk.stat(), |s| s.to_json(None).into_bytes());
    let names = disk.glob("**/*", false).or_else(|_| disk.glob("*", false)).unwrap_or_default();
    ob(obs, "read-glob", names.join("\n").into_bytes());
    let mut files = 0;
    for p in names.iter() {
        if let Ok(f) = disk.get(p) {
            files += 1;
            ob(obs, "read-get-fimg-json", f.to_json(None).into_bytes());
            ob_res(obs, "read-get-raw", f.unpack_raw(true), |v| v);
        }
    }
    ob_res(obs, "read-geometry", disk.get_img().export_geometry(None), |s| s.into_bytes());
    ob(obs, "read-metadata", disk.get_img().get_metadata(None).into_bytes());
    format!("reader image={} fs={} files-read={}", path.file_name().and_then(|n| n.to_str()).unwrap_or("?"), fs_name, files)
}

/// operations whose result may not depend on clock or time zone (everything that does not write a stamp)
fn clock_free_op(op: &str) -> bool {
    op.starts_with("read-") || op.ends_with("-session") || op.starts_with("records-large") || op.starts_with("disassemble")
        || op.ends_with("-tokenize") || op.ends_with("-detokenize")
        || ["records-to-json", "records-display", "records-update-fimg", "records-from-json"].contains(&op)
}

/// case layout: regular kinds, then (appended) tool sessions, large record sets, reader images
#[derive(Clone, Copy)]
struct Plan { n: usize, ns: usize, nb: usize, nr: usize }
impl Plan {
    fn of(ctx: &Ctx) -> Plan { Plan { n: case_count(ctx), ns: session_count(ctx), nb: big_count(ctx), nr: READER_IMAGES } }
    fn total(&self) -> usize { self.n + self.ns + self.nb + self.nr }
    fn reader_base(&self) -> usize { self.n + self.ns + self.nb }
    /// cases a process under a foreign clock / time zone evaluates: those that write no stamp
    fn clock_free_case(&self, idx: usize) -> bool { idx >= self.n || [0usize, 1, 7, 8, 15].contains(&(idx % KINDS)) }
}

/// everything one case observes; identical code in parent and children
fn run_case(seed: u64, idx: usize, plan: Plan) -> (String, Obs, Option<RecCase>, Reuse) {
    let (n_regular, n_sessions) = (plan.n, plan.ns);
    let mut rng = Rng::new(seed).fork(idx as u64);
    let mut obs: Obs = Vec::new();
    let mut reuse: Reuse = Vec::new();
    if idx >= plan.reader_base() {
        let desc = reader_case(idx - plan.reader_base(), &mut obs);
        return (desc, obs, None, reuse);
    }
    if idx >= n_regular {
        // appended kinds (earlier case numbers stay put): tool-object sessions, then the large record sets
        let k = idx - n_regular;
        let desc = if k < n_sessions { session_case(&mut rng, idx, &mut obs, &mut reuse) } else { big_records_case(&mut rng, k - n_sessions, &mut obs) };
        return (desc, obs, None, reuse);
    }
    let kind = idx % KINDS;
    let variant = idx / KINDS;
    let mut rc = None;
    let desc = match kind {
        0 | 8 => { let (d, r) = records_case(&mut rng, false, &mut obs); rc = Some(r); d }
        1 => { let (d, r) = records_case(&mut rng, true, &mut obs); rc = Some(r); d }
        2 => disk_case(&mut rng, Fs::Dos33, variant * 3, &mut obs, &mut reuse, idx),
        3 => disk_case(&mut rng, Fs::Prodos, variant * 4, &mut obs, &mut reuse, idx),
        4 => disk_case(&mut rng, Fs::Pascal, variant, &mut obs, &mut reuse, idx),
        5 => disk_case(&mut rng, Fs::Cpm, variant * 4, &mut obs, &mut reuse, idx),
        6 => disk_case(&mut rng, Fs::Fat, variant * 3, &mut obs, &mut reuse, idx),
        7 | 15 => lang_case(&mut rng, &mut obs),
        9 => disk_case(&mut rng, Fs::Cpm, variant * 4 + 1 + variant % 3, &mut obs, &mut reuse, idx),
        10 => disk_case(&mut rng, Fs::Fat, variant * 3 + 1 + variant % 2, &mut obs, &mut reuse, idx),
        11 => disk_case(&mut rng, Fs::Prodos, variant * 4 + 1 + variant % 3, &mut obs, &mut reuse, idx),
        12 => disk_case(&mut rng, Fs::Dos33, variant * 3 + 1 + variant % 2, &mut obs, &mut reuse, idx),
        13 => disk_case(&mut rng, Fs::Dos32, variant, &mut obs, &mut reuse, idx),
        _ => disk_case(&mut rng, Fs::Cpm, 3, &mut obs, &mut reuse, idx),
    };
    (desc, obs, rc, reuse)
}

/// digests per operation name (several observations of one operation are folded into one digest)
fn digests(obs: &Obs) -> BTreeMap<String, u64> {
    let mut m: BTreeMap<String, Vec<u8>> = BTreeMap::new();
    for (name, bytes) in obs {
        let e = m.entry(name.clone()).or_default();
        e.extend_from_slice(&(bytes.len() as u64).to_le_bytes());
        e.extend_from_slice(bytes);
    }
    m.into_iter().map(|(k, v)| (k, fnv(&v))).collect()
}

fn case_count(ctx: &Ctx) -> usize { ctx.n(64, 320) }
/// appended after the regular cases: tool-object sessions and large record sets
fn session_count(ctx: &Ctx) -> usize { ctx.n(12, 120) }
fn big_count(ctx: &Ctx) -> usize { ctx.n(2, 3) }

fn child(ctx: &mut Ctx) {
    let plan = Plan::of(ctx);
    // a child started under a foreign clock / time zone evaluates only the cases that write no stamp
    let vary = std::env::var(CHILD_ENV).map(|v| v == "vary").unwrap_or(false);
    let mut out = String::new();
    for idx in 0..plan.total() {
        if !ctx.out.wants(idx) { continue; }
        if vary && !plan.clock_free_case(idx) { continue; }
        let seed = ctx.seed;
        match guarded(move || run_case(seed, idx, plan)) {
            Ok((_, obs, _, _)) => for (op, d) in digests(&obs) { out += &format!("X\t{}\t{}\t{:016x}\n", idx, op, d); },
            Err(p) => out += &format!("X\t{}\tpanic\t{:016x}\n", idx, fnv(panic_site(&p).as_bytes())),
        }
    }
    print!("{}", out);
}

fn sig_for(op: &str) -> String {
    format!("c20/{}/order-varies", op)
}

pub fn run(ctx: &mut Ctx) {
    if std::env::var("A2V_C20_PROBE").is_ok() {
        // debugging aid: head dependence of track dumps / geometry on a DOS 3.3 WOZ2 image
        let (mut disk, label) = mk_disk(Fs::Dos33, 1).unwrap();
        for i in 0..5 { let _ = disk.bsave(&format!("F{}", i), &vec![i as u8; 700 * (i + 1)], Some(0x2000), None); }
        let bytes = disk.get_img().to_bytes();
        for prior in [vec![], vec!["catalog"], vec!["get:F3"], vec!["get:F1", "get:F4"]] {
            let mut d = a2kit::create_fs_from_bytestream(&bytes, Some(image_ext(&label))).unwrap();
            for p in prior.iter() { let r = read_op(&mut d, p, ""); eprintln!("   {} -> {} bytes", p, r.len()); }
            let n = read_op(&mut d, "track-nibbles:0", "");
            let g = read_op(&mut d, "geometry", "");
            eprintln!("{} prior={:?} nibbles[0..24]={} geometry-digest={:016x}", label, prior, hx(&n[..24.min(n.len())]), fnv(&g));
        }
        return;
    }
    if std::env::var(CHILD_ENV).is_ok() { child(ctx); return; }
    let plan = Plan::of(ctx);
    let nproc = ctx.n(8, 64);
    // ---- images with boundary-date stamps, written once (here) and only READ afterwards, by every process
    let imgdir = std::env::temp_dir().join(format!("a2v-c20-{}", std::process::id()));
    let _ = std::fs::create_dir_all(&imgdir);
    let seed0 = ctx.seed;
    let img_descs = guarded(|| build_reader_images(seed0, &imgdir)).unwrap_or_default();
    std::env::set_var(IMGDIR_ENV, &imgdir);
    // ---- parent: every case twice in this process
    let mut parent: BTreeMap<(usize, String), u64> = BTreeMap::new();
    let mut descs: BTreeMap<usize, String> = BTreeMap::new();
    for idx in 0..plan.total() {
        if !ctx.out.wants(idx) { continue; }
        let seed = ctx.seed;
        let r1 = guarded(move || run_case(seed, idx, plan));
        let r2 = guarded(move || run_case(seed, idx, plan));
        match (r1, r2) {
            (Ok((desc, obs1, rc, reuse)), Ok((_, obs2, _, _))) => {
                for (sig, pass, detail) in &reuse { ctx.out.oracle(*pass, if sig.ends_with("depends-on-prior-reads") { "prior-reads" } else { "object-reuse" }, sig, detail); }
                if !reuse.is_empty() { ctx.out.count_n("object-reuse-comparisons", reuse.len() as u64); }
                let d1 = digests(&obs1);
                let d2 = digests(&obs2);
                for (op, d) in &d1 {
                    let same = d2.get(op) == Some(d);
                    ctx.out.oracle(same, "same-process-repeat", &format!("c20/{}/repeat-differs", op), &format!("idx={} op={} {}", idx, op, desc));
                    parent.insert((idx, op.clone()), *d);
                    ctx.out.count(&format!("op:{}", op));
                }
                let mut canon: Vec<u8> = Vec::new();
                for (op, b) in &obs1 { canon.extend_from_slice(op.as_bytes()); canon.extend_from_slice(&fnv(b).to_le_bytes()); }
                ctx.out.case(&canon, obs1.len() >= 3);
                ctx.out.count(&format!("kind:{}", desc.split(|c| c == ' ').next().unwrap_or("?")));
                ctx.out.sample(&format!("idx={} {}", idx, desc));
                let desc = if idx >= plan.reader_base() { format!("{} | {}", desc, img_descs.get(idx - plan.reader_base()).cloned().unwrap_or_default()) } else { desc };
                descs.insert(idx, desc);
                if let Some(rc) = rc { tie_records(ctx, idx, &rc); }
            }
            (Err(p), _) | (_, Err(p)) => {
                // a crash is C12's business; here it only means the case cannot be compared
                ctx.out.count("panicked-case");
                parent.insert((idx, "panic".to_string()), fnv(panic_site(&p).as_bytes()));
                descs.insert(idx, format!("panic {}", panic_site(&p)));
            }
        }
    }
    if ctx.out.wants(0) { tie_dasm_map(ctx); tie_chunks_json(ctx); }
    // ---- the same process under other clocks: reading the saved images must give the same bytes
    {
        let keep = std::env::var("A2KIT_VERIF_TIME").ok();
        for j in 0..plan.nr {
            let idx = plan.reader_base() + j;
            if !ctx.out.wants(idx) { continue; }
            for clk in reading_clocks() {
                set_clock(clk);
                let r = guarded(move || { let mut o: Obs = Vec::new(); reader_case(j, &mut o); o });
                if let Ok(o) = r {
                    for (op, d) in digests(&o) {
                        let same = parent.get(&(idx, op.clone())) == Some(&d);
                        ctx.out.oracle(same, "clock-independence", &format!("c20/{}/depends-on-clock", op),
                            &format!("idx={} op={} reading-clock={} vs the pinned clock; {}", idx, op,
                                chrono::DateTime::from_timestamp(clk, 0).map(|t| t.format("%Y-%m-%d").to_string()).unwrap_or_default(), descs.get(&idx).cloned().unwrap_or_default()));
                    }
                    ctx.out.count("clock-sweep-evaluations");
                }
            }
        }
        match keep { Some(v) => std::env::set_var("A2KIT_VERIF_TIME", v), None => std::env::remove_var("A2KIT_VERIF_TIME") }
    }
    // ---- children: fresh processes, fresh hash seeds; the last ones under OTHER clocks and time zones (they evaluate
    //      only the cases that write no stamp)
    let exe = match std::env::current_exe() { Ok(e) => e, Err(_) => { ctx.out.oracle(false, "spawn", "c20/harness/no-current-exe", "idx=0"); return; } };
    let args: Vec<String> = std::env::args().collect();
    let mut results: Vec<BTreeMap<(usize, String), u64>> = Vec::new();
    let mut pending: Vec<std::process::Child> = Vec::new();
    let mut launched = 0;
    let batch = 16;
    // (clock, TZ) of the environment-varied children: POSIX TZ strings, `AAA-14` = UTC+14, `AAA12` = UTC-12
    let clocks = reading_clocks();
    let zones = ["UTC", "AAA-14", "AAA12"];
    let mut envs: Vec<(i64, &str)> = Vec::new();
    if ctx.tier_thorough { for c in &clocks { for z in zones.iter() { envs.push((*c, *z)); } } }
    else { for (k, c) in clocks.iter().enumerate() { envs.push((*c, zones[k % 3])); } envs.push((clocks[2], "AAA-14")); envs.push((clocks[2], "AAA12")); }
    let total = nproc + envs.len();
    let mut child_env: Vec<String> = Vec::new();
    while launched < total || !pending.is_empty() {
        while launched < total && pending.len() < batch {
            let mut cmd = std::process::Command::new(&exe);
            cmd.arg("c20").arg(&args[2]).arg(&args[3]).arg("-");
            if let Some(k) = ctx.out.only { cmd.arg("--only").arg(k.to_string()); }
            if launched < nproc {
                cmd.env(CHILD_ENV, "1");
                child_env.push(String::new());
            } else {
                let (clk, tz) = envs[launched - nproc];
                cmd.env(CHILD_ENV, "vary").env("A2KIT_VERIF_TIME", clk.to_string()).env("TZ", tz);
                child_env.push(format!("clock={} TZ={}", chrono::DateTime::from_timestamp(clk, 0).map(|t| t.format("%Y-%m-%d").to_string()).unwrap_or_default(), tz));
            }
            cmd.stdout(std::process::Stdio::piped()).stderr(std::process::Stdio::null());
            match cmd.spawn() { Ok(c) => pending.push(c), Err(_) => { ctx.out.oracle(false, "spawn", "c20/harness/spawn-failed", "idx=0"); return; } }
            launched += 1;
        }
        let c = pending.remove(0);
        match c.wait_with_output() {
            Ok(o) => {
                let mut m = BTreeMap::new();
                for line in String::from_utf8_lossy(&o.stdout).lines() {
                    let p: Vec<&str> = line.split('\t').collect();
                    if p.len() == 4 && p[0] == "X" { if let (Ok(i), Ok(d)) = (p[1].parse::<usize>(), u64::from_str_radix(p[3], 16)) { m.insert((i, p[2].to_string()), d); } }
                }
                if !o.status.success() { ctx.out.oracle(false, "child-exit", "c20/harness/child-died", &format!("idx=0 status={:?}", o.status.code())); }
                results.push(m);
            }
            Err(_) => ctx.out.oracle(false, "child-exit", "c20/harness/child-wait-failed", "idx=0"),
        }
    }
    ctx.out.count_n("child-processes", results.len() as u64);
    ctx.out.count_n("child-processes-other-clock-or-tz", results.len().saturating_sub(nproc) as u64);
    // ---- oracle: per (case, operation) all processes with the parent's environment agree
    for ((idx, op), d) in &parent {
        let mut distinct: Vec<u64> = vec![*d];
        let mut missing = 0;
        for r in results.iter().take(nproc) {
            match r.get(&(*idx, op.clone())) { Some(x) => if !distinct.contains(x) { distinct.push(*x); }, None => missing += 1 }
        }
        let pass = distinct.len() == 1 && missing == 0;
        let desc = descs.get(idx).cloned().unwrap_or_default();
        ctx.out.oracle(pass, "fresh-process-repeat", &sig_for(op),
            &format!("idx={} op={} distinct_outputs={} of {} processes missing={} {}", idx, op, distinct.len(), nproc.min(results.len()) + 1, missing, desc));
        if !pass { ctx.out.count(&format!("varies:{}", op)); }
        // ---- and the processes under other clocks / time zones agree on everything that writes no stamp
        if !(plan.clock_free_case(*idx) && clock_free_op(op)) { continue; }
        let mut differing: Vec<String> = Vec::new();
        let mut missing = 0;
        for (k, r) in results.iter().enumerate().skip(nproc) {
            match r.get(&(*idx, op.clone())) { Some(x) => if x != d { differing.push(child_env.get(k).cloned().unwrap_or_default()); }, None => missing += 1 }
        }
        let pass = differing.is_empty() && missing == 0;
        ctx.out.oracle(pass, "environment-independence", &format!("c20/{}/depends-on-clock-or-tz", op),
            &format!("idx={} op={} differs-under=[{}] missing={} {}", idx, op, differing.join("; "), missing, desc));
    }
    let _ = std::fs::remove_dir_all(&imgdir);
}

// ------------------------------------------------------------------------------------------------ model tie

/// the model is given the iteration order this process sees (`Records.map` is public) and must reproduce the
/// bytes exactly; with the repaired code (translator flag) the model ignores the order and sorts
fn tie_records(ctx: &mut Ctx, _idx: usize, rc: &RecCase) {
    let recs = mk_records(rc);
    let pi: Vec<(usize, Vec<u8>)> = recs.map.iter().map(|(k, v)| (*k, v.as_bytes().to_vec())).collect();
    let es = entries_str(&pi);
    ctx.out.q(&format!("c20 to-json {} {}", rc.rec_len, es), &hx(recs.to_json(None).as_bytes()));
    ctx.out.q(&format!("c20 display {}", es), &hx(recs.to_string().as_bytes()));
    let mut f = blank_fimg(rc.chunk_len, &rc.init);
    let ans = match recs.update_fimg(&mut f, rc.require_first, Ident, rc.clear) { Ok(()) => canon_fimg(&f), Err(_) => "refused".to_string() };
    let mut init = rc.init.clone();
    init.sort();
    ctx.out.q(&format!("c20 update-fimg {} {} {} {} {} {}", rc.rec_len, rc.chunk_len, rc.require_first as u8, rc.clear as u8, entries_str(&init), es), &ans);
    ctx.out.count("tie:records");
}

fn tie_dasm_map(ctx: &mut Ctx) {
    let book = a2kit::lang::merlin::handbook::operations::OperationHandbook::new();
    let map = book.create_dasm_map();
    let names: Vec<String> = (0..256usize).map(|c| match map.get(&(c as u8)) { Some(op) => op.mnemonic.clone(), None => "?".to_string() }).collect();
    ctx.out.q("c20 dasm-map", &names.join(","));
    ctx.out.count("tie:dasm-map");
}

fn tie_chunks_json(ctx: &mut Ctx) {
    let mut rng = Rng::new(ctx.seed).fork(0xC20);
    for _ in 0..ctx.n(4, 16) {
        let mut init = Vec::new();
        let mut keys: Vec<usize> = Vec::new();
        while keys.len() < 7 { let k = rng.below(30); if !keys.contains(&k) { keys.push(k); } }
        for k in keys { let n = rng.range(0, 12); init.push((k, rng.bytes(n))); }
        let f = blank_fimg(16, &init);
        let js = f.to_json(None);
        let pi: Vec<(usize, Vec<u8>)> = f.chunks.iter().map(|(k, v)| (*k, v.clone())).collect();
        match js.find("\"chunks\":") {
            Some(p) => ctx.out.q(&format!("c20 chunks-json {}", entries_str(&pi)), &hx(js[p + 9..js.len() - 1].as_bytes())),
            None => ctx.out.q(&format!("c20 chunks-json {}", entries_str(&pi)), "no-chunks-member"),
        }
        ctx.out.count("tie:chunks-json");
    }
}
