//! File-system family (properties C01-C06, C19): histories of operations on real `DiskFS` objects,
//! a reference map maintained by the harness (direct oracles), and per-step refinement checking
//! against the Lean-side independent readers + abstract volume spec (driver family `fs`).
use crate::util::*;
use a2kit::bios::{bpb, dpb};
use a2kit::fs::{cpm, dos3x, fat, pascal, prodos, DiskFS, FileImage};
use a2kit::img::{self, names, DiskImage, DiskKind};
use std::collections::{BTreeMap, BTreeSet};
use std::io::{BufRead, BufReader, Write};
use std::process::{Child, ChildStdin, ChildStdout, Command, Stdio};

#[derive(Clone, Copy, PartialEq, Eq, Debug)]
pub enum Focus { C01, C02, C03, C04, C05, C06, C19 }
impl Focus {
    pub fn id(&self) -> &'static str {
        match self { Focus::C01 => "c01", Focus::C02 => "c02", Focus::C03 => "c03", Focus::C04 => "c04", Focus::C05 => "c05", Focus::C06 => "c06", Focus::C19 => "c19" }
    }
}

#[derive(Clone, Copy, PartialEq, Eq, Debug)]
pub enum Fs { Dos33, Dos32, Prodos, Pascal, Cpm2, Cpm3, Fat }
impl Fs {
    fn id(&self) -> &'static str {
        match self { Fs::Dos33 => "dos33", Fs::Dos32 => "dos32", Fs::Prodos => "prodos", Fs::Pascal => "pascal", Fs::Cpm2 => "cpm2", Fs::Cpm3 => "cpm3", Fs::Fat => "fat" }
    }
    fn has_dirs(&self) -> bool { matches!(self, Fs::Prodos | Fs::Fat) }
    fn has_holes(&self) -> bool { matches!(self, Fs::Dos33 | Fs::Dos32 | Fs::Prodos | Fs::Cpm2 | Fs::Cpm3) }
    fn has_lock(&self) -> bool { !matches!(self, Fs::Pascal) }
    fn is_cpm(&self) -> bool { matches!(self, Fs::Cpm2 | Fs::Cpm3) }
    fn is_dos(&self) -> bool { matches!(self, Fs::Dos33 | Fs::Dos32) }
}

/// a volume configuration: file system + container + disk kind
#[derive(Clone)]
pub struct VolCfg { pub fs: Fs, pub container: &'static str, pub kind: DiskKind, pub kind_name: &'static str, pub flat: bool }

/// block counts of the `a2-hd-<n>` configurations of the scripted scenarios: a bitmap of exactly one full block (4096),
/// of two blocks (4600), of exactly two full blocks (8192)
pub const BIG_PO_BLOCKS: [u16; 3] = [4096, 4600, 8192];

fn mk_img(container: &str, kind: DiskKind) -> Option<Box<dyn DiskImage>> {
    Some(match (container, kind) {
        ("d13", names::A2_DOS32_KIND) => Box::new(img::dsk_d13::D13::create(35)),
        ("do", names::A2_DOS33_KIND) => Box::new(img::dsk_do::DO::create(35, 16)),
        ("po", names::A2_DOS33_KIND) => Box::new(img::dsk_po::PO::create(280)),
        ("po", names::A2_400_KIND) => Box::new(img::dsk_po::PO::create(800)),
        ("po", names::A2_800_KIND) => Box::new(img::dsk_po::PO::create(1600)),
        ("po", names::A2_HD_MAX) => Box::new(img::dsk_po::PO::create(65535)),
        // hard-disk sized volumes just large enough for a volume bitmap of two blocks (more than 4096 blocks)
        ("po", k) if BIG_PO_BLOCKS.iter().any(|n| img::dsk_po::PO::create(*n).kind() == k) => Box::new(img::dsk_po::PO::create(*BIG_PO_BLOCKS.iter().find(|n| img::dsk_po::PO::create(**n).kind() == k).unwrap())),
        ("woz1", k) => Box::new(img::woz1::Woz1::create(254, k)),
        ("woz2", k) => Box::new(img::woz2::Woz2::create(254, k)),
        ("nib", k) => Box::new(img::nib::Nib::create(254, k)),
        ("2mg-do", k) => img::dot2mg::Dot2mg::create(254, k, Some(&"do".to_string())).ok()?,
        ("2mg-po", k) => img::dot2mg::Dot2mg::create(254, k, Some(&"po".to_string())).ok()?,
        ("2mg-nib", k) => img::dot2mg::Dot2mg::create(254, k, Some(&"nib".to_string())).ok()?,
        ("imd", k) => Box::new(img::imd::Imd::create(k)),
        ("td0", k) => Box::new(img::td0::Td0::create(k)),
        ("img", k) => Box::new(img::dsk_img::Img::create(k)),
        _ => return None,
    })
}

/// the volume of a history: the concrete a2kit object (so that it can be formatted again), or - after a reload from
/// bytes - the boxed trait object.  Derefs to `dyn DiskFS`.
pub enum Vol { Dos(dos3x::Disk), Prodos(prodos::Disk), Pascal(pascal::Disk), Cpm(cpm::Disk), Fat(fat::Disk), Dyn(Box<dyn DiskFS>) }
impl std::ops::Deref for Vol {
    type Target = dyn DiskFS;
    fn deref(&self) -> &(dyn DiskFS + 'static) { match self { Vol::Dos(d) => d, Vol::Prodos(d) => d, Vol::Pascal(d) => d, Vol::Cpm(d) => d, Vol::Fat(d) => d, Vol::Dyn(d) => d.as_ref() } }
}
impl std::ops::DerefMut for Vol {
    fn deref_mut(&mut self) -> &mut (dyn DiskFS + 'static) { match self { Vol::Dos(d) => d, Vol::Prodos(d) => d, Vol::Pascal(d) => d, Vol::Cpm(d) => d, Vol::Fat(d) => d, Vol::Dyn(d) => d.as_mut() } }
}
impl Vol {
    /// format the same object again, with the parameters `make_vol` uses (None: a re-loaded object, no concrete type)
    pub fn reformat(&mut self, cfg: &VolCfg) -> Option<Result<(), String>> {
        let e = |e: Box<dyn std::error::Error>| e.to_string();
        Some(match self {
            Vol::Dos(d) => if cfg.fs == Fs::Dos32 { d.init32(254, false).map_err(e) } else { d.init33(254, false).map_err(e) },
            Vol::Prodos(d) => { let floppy = matches!(cfg.kind, DiskKind::D35(_) | DiskKind::D525(_) | DiskKind::D8(_)); d.format("VERIF", floppy, None).map_err(e) }
            Vol::Pascal(d) => d.format("VERIF", 0xee, None).map_err(e),
            Vol::Cpm(d) => if cfg.fs == Fs::Cpm3 { let t = chrono::NaiveDate::from_ymd_opt(2000, 1, 1).unwrap().and_hms_opt(0, 0, 0).unwrap(); d.format("VERIF", Some(t)).map_err(e) } else { d.format("", None).map_err(e) },
            Vol::Fat(d) => d.format("VERIF", None).map_err(e),
            Vol::Dyn(_) => return None,
        })
    }
}

pub fn make_vol(cfg: &VolCfg) -> Result<Vol, String> {
    let img = mk_img(cfg.container, cfg.kind).ok_or("no such container/kind")?;
    let e = |e: Box<dyn std::error::Error>| e.to_string();
    let mut v = match cfg.fs {
        Fs::Dos33 | Fs::Dos32 => Vol::Dos(dos3x::Disk::from_img(img).map_err(e)?),
        Fs::Prodos => Vol::Prodos(prodos::Disk::from_img(img).map_err(e)?),
        Fs::Pascal => Vol::Pascal(pascal::Disk::from_img(img).map_err(e)?),
        Fs::Cpm2 => Vol::Cpm(cpm::Disk::from_img(img, dpb::DiskParameterBlock::create(&cfg.kind), [2, 2, 3]).map_err(e)?),
        Fs::Cpm3 => Vol::Cpm(cpm::Disk::from_img(img, dpb::DiskParameterBlock::create(&cfg.kind), [3, 1, 0]).map_err(e)?),
        Fs::Fat => { let boot = bpb::BootSector::create(&cfg.kind).map_err(e)?; Vol::Fat(fat::Disk::from_img(img, Some(boot)).map_err(e)?) }
    };
    v.reformat(cfg).unwrap()?;
    Ok(v)
}

pub fn make_volume(cfg: &VolCfg) -> Result<Box<dyn DiskFS>, String> {
    let img = mk_img(cfg.container, cfg.kind).ok_or("no such container/kind")?;
    let e = |e: Box<dyn std::error::Error>| e.to_string();
    match cfg.fs {
        Fs::Dos33 => { let mut d = dos3x::Disk::from_img(img).map_err(e)?; d.init33(254, false).map_err(e)?; Ok(Box::new(d)) }
        Fs::Dos32 => { let mut d = dos3x::Disk::from_img(img).map_err(e)?; d.init32(254, false).map_err(e)?; Ok(Box::new(d)) }
        Fs::Prodos => {
            let floppy = matches!(cfg.kind, DiskKind::D35(_) | DiskKind::D525(_) | DiskKind::D8(_));
            let mut d = prodos::Disk::from_img(img).map_err(e)?; d.format("VERIF", floppy, None).map_err(e)?; Ok(Box::new(d))
        }
        Fs::Pascal => { let mut d = pascal::Disk::from_img(img).map_err(e)?; d.format("VERIF", 0xee, None).map_err(e)?; Ok(Box::new(d)) }
        Fs::Cpm2 => { let mut d = cpm::Disk::from_img(img, dpb::DiskParameterBlock::create(&cfg.kind), [2, 2, 3]).map_err(e)?; d.format("", None).map_err(e)?; Ok(Box::new(d)) }
        Fs::Cpm3 => {
            let t = chrono::NaiveDate::from_ymd_opt(2000, 1, 1).unwrap().and_hms_opt(0, 0, 0).unwrap();
            let mut d = cpm::Disk::from_img(img, dpb::DiskParameterBlock::create(&cfg.kind), [3, 1, 0]).map_err(e)?; d.format("VERIF", Some(t)).map_err(e)?; Ok(Box::new(d))
        }
        Fs::Fat => {
            let boot = bpb::BootSector::create(&cfg.kind).map_err(e)?;
            let mut d = fat::Disk::from_img(img, Some(boot)).map_err(e)?; d.format("VERIF", None).map_err(e)?; Ok(Box::new(d))
        }
    }
}

pub fn all_cfgs(thorough: bool) -> Vec<VolCfg> {
    let mut v = Vec::new();
    let mut add = |fs, container, kind, kind_name, flat| v.push(VolCfg { fs, container, kind, kind_name, flat });
    add(Fs::Dos33, "do", names::A2_DOS33_KIND, "a2-525-16", true);
    add(Fs::Dos32, "d13", names::A2_DOS32_KIND, "a2-525-13", true);
    add(Fs::Prodos, "po", names::A2_DOS33_KIND, "a2-525-16", true);
    add(Fs::Prodos, "po", names::A2_800_KIND, "a2-35-800", true);
    add(Fs::Pascal, "po", names::A2_DOS33_KIND, "a2-525-16", true);
    add(Fs::Cpm2, "do", names::A2_DOS33_KIND, "a2-525-16", false);
    add(Fs::Cpm2, "imd", names::OSBORNE1_DD_KIND, "osborne-dd", false);
    add(Fs::Cpm3, "imd", names::AMSTRAD_SS_KIND, "amstrad-ss", false);
    add(Fs::Cpm2, "imd", names::KAYPRO4_KIND, "kaypro4", false);
    add(Fs::Fat, "img", DiskKind::D525(names::IBM_SSDD_9), "ibm-ssdd-9", true);
    add(Fs::Fat, "img", DiskKind::D525(names::IBM_DSDD_9), "ibm-dsdd-9", true);
    add(Fs::Fat, "img", DiskKind::D35(names::IBM_720), "ibm-720", true);
    // non-flat containers: direct oracles only (no Lean reader tie)
    add(Fs::Dos33, "woz2", names::A2_DOS33_KIND, "a2-525-16", false);
    add(Fs::Prodos, "do", names::A2_DOS33_KIND, "a2-525-16", false);
    add(Fs::Pascal, "do", names::A2_DOS33_KIND, "a2-525-16", false);
    add(Fs::Fat, "imd", DiskKind::D525(names::IBM_DSDD_9), "ibm-dsdd-9", false);
    if thorough {
        add(Fs::Dos33, "nib", names::A2_DOS33_KIND, "a2-525-16", false);
        add(Fs::Dos33, "woz1", names::A2_DOS33_KIND, "a2-525-16", false);
        add(Fs::Dos32, "woz2", names::A2_DOS32_KIND, "a2-525-13", false);
        add(Fs::Dos32, "nib", names::A2_DOS32_KIND, "a2-525-13", false);
        add(Fs::Prodos, "po", names::A2_400_KIND, "a2-35-400", true);
        add(Fs::Prodos, "po", names::A2_HD_MAX, "a2-hd-max", false);
        add(Fs::Prodos, "woz2", names::A2_800_KIND, "a2-35-800", false);
        add(Fs::Prodos, "2mg-po", names::A2_800_KIND, "a2-35-800", false);
        add(Fs::Prodos, "2mg-do", names::A2_DOS33_KIND, "a2-525-16", false);
        add(Fs::Pascal, "woz2", names::A2_DOS33_KIND, "a2-525-16", false);
        add(Fs::Cpm2, "td0", names::OSBORNE1_SD_KIND, "osborne-sd", false);
        add(Fs::Cpm2, "imd", names::KAYPROII_KIND, "kayproii", false);
        add(Fs::Cpm2, "imd", names::IBM_CPM1_KIND, "ibm-cpm1", false);
        add(Fs::Cpm2, "imd", names::NABU_CPM_KIND, "nabu", false);
        add(Fs::Cpm2, "imd", names::TRS80_M2_CPM_KIND, "trs80-m2", false);
        add(Fs::Cpm3, "td0", names::AMSTRAD_SS_KIND, "amstrad-ss", false);
        add(Fs::Fat, "img", DiskKind::D525(names::IBM_SSDD_8), "ibm-ssdd-8", true);
        add(Fs::Fat, "img", DiskKind::D525(names::IBM_DSDD_8), "ibm-dsdd-8", true);
        add(Fs::Fat, "img", DiskKind::D525(names::IBM_SSQD), "ibm-ssqd", true);
        add(Fs::Fat, "img", DiskKind::D525(names::IBM_DSQD), "ibm-dsqd", true);
        add(Fs::Fat, "img", DiskKind::D525(names::IBM_DSHD), "ibm-dshd", true);
        add(Fs::Fat, "img", DiskKind::D35(names::IBM_1440), "ibm-1440", true);
        add(Fs::Fat, "img", DiskKind::D35(names::IBM_2880), "ibm-2880", true);
        add(Fs::Fat, "td0", DiskKind::D35(names::IBM_720), "ibm-720", false);
    }
    v
}

// ------------------------------------------------------------------------------------------
// synchronous client of the Lean driver
pub struct Drv { child: Child, sin: ChildStdin, sout: BufReader<ChildStdout>, pub requests: u64 }
impl Drv {
    pub fn spawn() -> Option<Drv> {
        let path = std::env::var("A2DRV").unwrap_or("/verif/lean/.lake/build/bin/a2drv".to_string());
        let mut cmd = Command::new(path);
        cmd.stdin(Stdio::piped()).stdout(Stdio::piped());
        die_with_parent(&mut cmd);
        let mut child = cmd.spawn().ok()?;
        let sin = child.stdin.take()?;
        let sout = BufReader::new(child.stdout.take()?);
        Some(Drv { child, sin, sout, requests: 0 })
    }
    pub fn ask(&mut self, req: &str) -> String {
        self.requests += 1;
        if let Ok(p) = std::env::var("A2V_LOG_REQ") { use std::io::Write as W2; if let Ok(mut f) = std::fs::OpenOptions::new().create(true).append(true).open(p) { let _ = writeln!(f, "{}", req); } }
        if writeln!(self.sin, "{}", req).is_err() { return "driver-dead".to_string(); }
        let _ = self.sin.flush();
        let mut line = String::new();
        match self.sout.read_line(&mut line) { Ok(0) | Err(_) => "driver-dead".to_string(), Ok(_) => line.trim_end().to_string() }
    }
}
impl Drop for Drv { fn drop(&mut self) { let _ = self.child.kill(); let _ = self.child.wait(); } }

// ------------------------------------------------------------------------------------------
// reference state

#[derive(Clone)]
pub struct RefFile { chunks: BTreeMap<usize, Vec<u8>>, eof: usize, ftype: Vec<u8>, aux: Vec<u8>, access: Vec<u8>, locked: bool }

/// generic record of the operation just executed, for the concrete-model ties in fs_<x>.rs
#[derive(Clone)]
pub struct OpRecord {
    /// put | delete | rename | lock | unlock | retype | mkdir | protect | unprotect
    pub kind: &'static str,
    /// path exactly as passed to the a2kit API, and its canonical form
    pub spelled: String,
    pub cpath: String,
    /// rename: new name as passed; retype: type string; protect: flags "r w d"
    pub arg2: String,
    /// retype: sub type / aux string
    pub arg3: String,
    /// put: the file image fields as passed
    pub fs_type: Vec<u8>, pub aux: Vec<u8>, pub access: Vec<u8>, pub created: Vec<u8>, pub modified: Vec<u8>, pub eof: usize,
    pub chunks: BTreeMap<usize, Vec<u8>>,
    /// Ok, or the error text of the real code ("PANIC" for a panic)
    pub result: Result<(), String>,
}
impl OpRecord {
    fn new<T>(kind: &'static str, spelled: &str, cpath: &str, arg2: &str, arg3: &str, res: &Result<Result<T, String>, String>) -> OpRecord {
        OpRecord { kind, spelled: spelled.to_string(), cpath: cpath.to_string(), arg2: arg2.to_string(), arg3: arg3.to_string(), fs_type: vec![], aux: vec![], access: vec![], created: vec![], modified: vec![], eof: 0, chunks: BTreeMap::new(),
            result: match res { Ok(Ok(_)) => Ok(()), Ok(Err(e)) => Err(e.clone()), Err(_) => Err("PANIC".to_string()) } }
    }
    fn with_fimg(mut self, f: &FileImage) -> OpRecord {
        self.fs_type = f.fs_type.clone(); self.aux = f.aux.clone(); self.access = f.access.clone(); self.created = f.created.clone(); self.modified = f.modified.clone(); self.eof = f.get_eof();
        self.chunks = f.chunks.iter().map(|(k, v)| (*k, v.clone())).collect();
        self
    }
}

pub struct World {
    pub cfg: VolCfg,
    pub disk: Vol,
    pub files: BTreeMap<String, RefFile>,
    pub dirs: BTreeSet<String>,
    pub chunk_len: usize,
    pub hist: Vec<String>,
    /// the Lean-side description of the last operation (driver request `fs step …`)
    lean_op: Option<String>,
    pub last_op: Option<OpRecord>,
    /// Pascal on a flat PO image: the request for the concrete model (driver family `fsp`) describing the last
    /// operation, and — for queries — the answer the real code gave (None: a mutating operation, answer must be `ok`)
    pas_op: Option<(String, Option<String>)>,
    /// operations to execute before any generated one (last element first)
    forced: Vec<Op>,
    /// DOS 3.x on a flat DO / D13 image: the same for the concrete DOS model (driver family `fsd`)
    dos_op: Option<(String, Option<String>)>,
    /// directories that are locked (read-only) at the moment
    pub locked_dirs: BTreeSet<String>,
    /// the independent reader's (free count, nothing leaks) after the previous step
    last_reading: Option<(usize, bool)>,
    /// a refused operation changed the free map: from here on only the count is compared (C04 speaks of successful histories)
    leak_tainted: bool,
}

fn canon_path(fs: Fs, p: &str) -> String {
    match fs {
        Fs::Dos33 | Fs::Dos32 => p.to_string(),
        Fs::Prodos | Fs::Fat => p.trim_start_matches('/').to_uppercase(),
        Fs::Pascal => p.to_uppercase(),
        Fs::Cpm2 | Fs::Cpm3 => {
            let up = p.to_uppercase();
            let (user, name) = match up.split_once(':') { Some((u, n)) => (u.to_string(), n.to_string()), None => ("0".to_string(), up) };
            let name = if name.contains('.') { name } else { format!("{}.", name) };
            if user == "0" { name } else { format!("{}:{}", user, name) }
        }
    }
}

fn err_class(e: &str) -> &'static str {
    let l = e.to_lowercase();
    if l.contains("directory full") || l.contains("directory is full") || l.contains("no room in directory") { "dirfull" }
    else if l.contains("full") || l.contains("no room") || l.contains("insufficient space") || l.contains("no space") || l.contains("disk space") { "full" }
    else if l.contains("duplicate") || l.contains("exists") { "dup" }
    else if l.contains("lock") || l.contains("protect") || l.contains("read only") || l.contains("read-only") || l.contains("access") { "locked" }
    else if l.contains("not found") || l.contains("no file") { "nofile" }
    else { "other" }
}

impl World {
    pub fn fs(&self) -> Fs { self.cfg.fs }

    pub fn free(&mut self) -> Result<usize, String> { guarded(|| self.disk.stat().map(|s| s.free_blocks).map_err(|e| e.to_string())).and_then(|r| r) }

    /// tree(false) -> set of file paths and set of directory paths
    fn listing(&mut self) -> Result<(BTreeSet<String>, BTreeSet<String>), String> {
        let js = guarded(|| self.disk.tree(false, None).map_err(|e| e.to_string()))??;
        let root = json::parse(&js).map_err(|e| e.to_string())?;
        let mut files = BTreeSet::new();
        let mut dirs = BTreeSet::new();
        fn walk(node: &json::JsonValue, prefix: &str, files: &mut BTreeSet<String>, dirs: &mut BTreeSet<String>) {
            for (k, v) in node["files"].entries() {
                let p = if prefix.is_empty() { k.to_string() } else { format!("{}/{}", prefix, k) };
                if v.has_key("files") { dirs.insert(p.clone()); walk(v, &p, files, dirs); } else { files.insert(p); }
            }
        }
        walk(&root, "", &mut files, &mut dirs);
        if self.fs().is_cpm() {
            // user areas are rendered as one directory node per user number
            let files2: BTreeSet<String> = files.iter().map(|p| match p.split_once('/') { Some((u, n)) => format!("{}:{}", u, n), None => p.clone() }).collect();
            return Ok((files2, BTreeSet::new()));
        }
        Ok((files, dirs))
    }

    pub fn get(&mut self, path: &str) -> Result<Result<FileImage, String>, String> {
        guarded(|| self.disk.get(path).map_err(|e| e.to_string()))
    }

    /// compare a fetched file image with the reference; returns a description of the first difference
    fn compare(&self, path: &str, r: &RefFile, g: &FileImage) -> Option<String> {
        let fs = self.fs();
        let gi: BTreeSet<usize> = g.chunks.keys().cloned().collect();
        let ri: BTreeSet<usize> = r.chunks.keys().cloned().collect();
        if gi != ri { return Some(format!("chunk-indices path={} stored={:?} got={:?}", path, ri.iter().take(8).collect::<Vec<_>>(), gi.iter().take(8).collect::<Vec<_>>())); }
        for (i, d) in &r.chunks {
            let gd = &g.chunks[i];
            if gd.len() < d.len() || gd[..d.len()] != d[..] || gd.len() > self.chunk_len.max(d.len()) { return Some(format!("chunk-data path={} index={}", path, i)); }
            if gd[d.len()..].iter().any(|b| *b != 0) && false { return Some(format!("chunk-padding path={} index={}", path, i)); }
        }
        // metadata
        match fs {
            Fs::Dos33 | Fs::Dos32 => { if g.fs_type.first().map(|b| b & 0x7f) != r.ftype.first().map(|b| b & 0x7f) { return Some(format!("type path={}", path)); } }
            Fs::Prodos => {
                if g.fs_type != r.ftype { return Some(format!("type path={}", path)); }
                if g.aux != r.aux { return Some(format!("aux path={}", path)); }
                let m = |a: &Vec<u8>| a.first().map(|b| b & !0x20u8 & !0xC2u8);
                if m(&g.access) != m(&r.access) { return Some(format!("access path={}", path)); }
                if g.get_eof() != r.eof { return Some(format!("eof path={} stored={} got={}", path, r.eof, g.get_eof())); }
            }
            Fs::Pascal => {
                if g.fs_type != r.ftype { return Some(format!("type path={}", path)); }
                if g.get_eof() != r.eof { return Some(format!("eof path={} stored={} got={}", path, r.eof, g.get_eof())); }
            }
            Fs::Cpm2 | Fs::Cpm3 if r.access.len() == 11 && { let m = |a: &Vec<u8>| { let mut v = a.clone(); if v.len() == 11 { v[10] &= 0x7f; } v }; m(&g.access) != m(&r.access) || g.fs_type.len() != 3 || (0..3).any(|i| (g.fs_type[i] ^ r.access[8 + i]) & if i == 2 { 0x7f } else { 0xff } != 0) } => {
                // the 8+3 name bytes with the attribute bits (F1-F4, R/O, SYS) in their high bits; the archive bit is the system's
                return Some(format!("access path={} stored={} got={} type={}", path, hx(&r.access), hx(&g.access), hx(&g.fs_type)));
            }
            Fs::Cpm2 => { let want = (r.eof + 127) / 128 * 128; if g.get_eof() != want { return Some(format!("eof path={} stored={} want={} got={}", path, r.eof, want, g.get_eof())); } }
            Fs::Cpm3 => { if g.get_eof() != r.eof { return Some(format!("eof path={} stored={} got={}", path, r.eof, g.get_eof())); } }
            Fs::Fat => {
                if g.get_eof() != r.eof { return Some(format!("eof path={} stored={} got={}", path, r.eof, g.get_eof())); }
            }
        }
        None
    }
}

// ------------------------------------------------------------------------------------------
// generators

fn gen_name(fs: Fs, rng: &mut Rng, dirs: &BTreeSet<String>) -> String {
    let letters = b"ABCDEFGHIJKLMNOPQRSTUVWXYZ";
    let alnum = b"ABCDEFGHIJKLMNOPQRSTUVWXYZ0123456789";
    let mut word = |rng: &mut Rng, lo: usize, hi: usize, set: &[u8]| -> String {
        let n = rng.range(lo, hi);
        let mut s = String::new();
        s.push(*rng.pick(letters) as char);
        for _ in 1..n { s.push(*rng.pick(set) as char); }
        s
    };
    match fs {
        Fs::Dos33 | Fs::Dos32 => {
            let n = *rng.pick(&[1usize, 2, 5, 8, 12, 29, 30]);
            let mut s = word(rng, n, n, b"ABCDEFGHIJKLMNOPQRSTUVWXYZ0123456789 .-");
            while s.ends_with(' ') { s.pop(); s.push('Z'); }
            s
        }
        Fs::Prodos => {
            let n = *rng.pick(&[1usize, 3, 8, 14, 15]);
            let base = word(rng, n, n, b"ABCDEFGHIJKLMNOPQRSTUVWXYZ0123456789.");
            let base = if rng.chance(20) { base.to_lowercase() } else { base };
            if !dirs.is_empty() && rng.chance(50) { let d: Vec<&String> = dirs.iter().collect(); format!("{}/{}", rng.pick(&d), base) } else { base }
        }
        Fs::Pascal => { let n = *rng.pick(&[1usize, 4, 9, 15]); let s = word(rng, n, n, b"ABCDEFGHIJKLMNOPQRSTUVWXYZ0123456789.-"); if rng.chance(20) { s.to_lowercase() } else { s } }
        Fs::Cpm2 | Fs::Cpm3 => {
            let b = word(rng, 1, 8, alnum);
            let e = if rng.chance(80) { word(rng, 1, 3, alnum) } else { String::new() };
            let s = if e.is_empty() { b } else { format!("{}.{}", b, e) };
            let s = if rng.chance(15) { s.to_lowercase() } else { s };
            if rng.chance(25) { format!("{}:{}", rng.range(1, 15), s) } else { s }
        }
        Fs::Fat => {
            let b = word(rng, 1, 8, alnum);
            let e = if rng.chance(80) { word(rng, 1, 3, alnum) } else { String::new() };
            let s = if e.is_empty() { b } else { format!("{}.{}", b, e) };
            let s = if rng.chance(15) { s.to_lowercase() } else { s };
            if !dirs.is_empty() && rng.chance(50) { let d: Vec<&String> = dirs.iter().collect(); format!("{}/{}", rng.pick(&d), s) } else { s }
        }
    }
}

fn gen_dirname(fs: Fs, rng: &mut Rng, dirs: &BTreeSet<String>) -> String {
    let letters = b"ABCDEFGHIJKLMNOPQRSTUVWXYZ";
    let n = rng.range(1, 6);
    let mut s = String::new();
    for _ in 0..n { s.push(*rng.pick(letters) as char); }
    s.push_str("D");
    let _ = fs;
    if !dirs.is_empty() && rng.chance(30) { let d: Vec<&String> = dirs.iter().collect(); format!("{}/{}", rng.pick(&d), s) } else { s }
}

/// sizes in chunks, biased towards structure boundaries and the remaining free space
fn gen_nchunks(fs: Fs, rng: &mut Rng, free: usize, focus: Focus) -> usize {
    let boundary: &[usize] = match fs {
        Fs::Dos33 | Fs::Dos32 => &[1, 2, 121, 122, 123, 244, 245],
        Fs::Prodos => &[1, 2, 3, 255, 256, 257, 258],
        Fs::Pascal => &[1, 2, 7, 33],
        Fs::Cpm2 | Fs::Cpm3 => &[1, 2, 7, 8, 9, 15, 16, 17, 31, 32, 33, 64, 65],
        Fs::Fat => &[1, 2, 3, 8, 17],
    };
    let near_full = matches!(focus, Focus::C04) || rng.chance(12);
    let r = rng.below(100);
    let n = if near_full && free > 0 { let d = rng.below(7); (free + 2).saturating_sub(d).max(1) }
        else if r < 45 { rng.range(1, 6) }
        else if r < 75 { let b = *rng.pick(boundary); if fs.is_dos() && rng.chance(40) { 122 * rng.range(1, 2) } else { b } }
        else { rng.range(1, (free / 3).max(2)) };
    n.max(1)
}

/// how often each payload shape was drawn (distribution counters `chunk-shape:<name>`, written at the end of the run)
static CHUNK_SHAPES: std::sync::Mutex<BTreeMap<&'static str, u64>> = std::sync::Mutex::new(BTreeMap::new());
fn shape(name: &'static str) { if let Ok(mut m) = CHUNK_SHAPES.lock() { *m.entry(name).or_insert(0) += 1; } }

fn gen_chunk(rng: &mut Rng, len: usize) -> Vec<u8> {
    // about a third of the chunks: the shared structured payloads (uniform, two-periodic, CR/LF only, k-periodic, runs,
    // sector mixtures, one differing byte, zeros) on which the container encodings (TD0, IMD, nibble) take special paths
    if rng.below(3) == 0 { let (v, name) = gen_data(rng, len); shape(name); return v; }
    shape("fs-own");
    match rng.below(6) {
        0 => vec![rng.byte(); len],
        1 => { let mut v = vec![0u8; len]; if len > 0 { v[rng.below(len)] = rng.byte() | 1; } v }
        2 => {
            // uniform except one byte at the edge of a physical sector (run-length / uniformity tests of the containers)
            let c = rng.byte();
            let mut v = vec![c; len];
            let edges: Vec<usize> = [0usize, 1, 126, 127, 128, 129, 254, 255, 256, 257, 510, 511, 512, 513, 1022, 1023, 1024].iter().cloned().filter(|e| *e < len).collect();
            let mut picks = vec![len.saturating_sub(1)];
            if !edges.is_empty() { picks.push(*rng.pick(&edges)); if rng.chance(40) { picks.push(*rng.pick(&edges)); } }
            for p in picks { if p < len { v[p] = c ^ (1 + rng.byte() % 255); } }
            v
        }
        _ => rng.bytes(len),
    }
}

// ------------------------------------------------------------------------------------------
// operations

pub enum Op {
    /// `idx` = explicit chunk indices (scripted sparse patterns); None = `nchunks` chunks, random holes if `holes`
    Put { path: String, nchunks: usize, holes: bool, last_len: usize, ftype_sel: usize, idx: Option<Vec<usize>> },
    /// delete of a directory (empty: must succeed; non-empty: must be refused and change nothing)
    DeleteDir(String),
    /// hand out the image (flush of the write-back buffers) and go on with the same object
    Save,
    /// save, load the bytes again (true: with the file-extension hint) and go on with the re-loaded object
    Reload(bool),
    /// block-level path of the DiskFS trait: read a block and write the same bytes back (must change nothing)
    RawRewrite(usize),
    /// a file image without any chunk (zero-length file: FAT and CP/M store it, ProDOS refuses it)
    PutEmpty(String),
    /// lock / unlock of a directory (toggles), rename of a directory without entries
    LockDir(String), RenameDir(String, String),
    Delete(String), Rename(String, String), Lock(String), Unlock(String), Retype(String, usize), Mkdir(String), PutDup(String), RenameOnto(String, String), GetMissing(String), DeleteMissing(String), Protect(String), Unprotect(String), PutBad(usize) }

pub struct Verdicts<'a> { pub out: &'a mut Out, pub focus: Focus, pub idx: usize, pub cfgid: String }
impl<'a> Verdicts<'a> {
    pub fn v(&mut self, owner: Focus, pass: bool, oracle: &str, detail: &str, hist: &[String]) {
        // the byte-exact concrete models include the allocator, so their verdicts also count for C04
        // (usable free space); every concrete tie reports under C03 among others
        let owner = if oracle.starts_with("concrete-model") && owner == Focus::C03 && self.focus == Focus::C04 { Focus::C04 } else { owner };
        if owner != self.focus { return; }
        let sig = format!("{}/{}/{}", self.focus.id(), self.cfgid.split('/').next().unwrap_or(""), oracle);
        if pass { self.out.count(&format!("oracle-pass:{}", oracle)); self.out.oracle(true, oracle, &sig, &format!("idx={}", self.idx)); }
        else {
            let h = if hist.len() > 40 { format!("…{}", hist[hist.len() - 40..].join("; ")) } else { hist.join("; ") };
            self.out.oracle(false, oracle, &sig, &format!("idx={} cfg={} {} history=[{}]", self.idx, self.cfgid, detail, h));
        }
    }
    fn panic(&mut self, site: &str, what: &str, hist: &[String]) {
        let sig = format!("{}/{}/panic:{}", self.focus.id(), self.cfgid.split('/').next().unwrap_or(""), panic_site(site));
        let h = if hist.len() > 40 { format!("…{}", hist[hist.len() - 40..].join("; ")) } else { hist.join("; ") };
        self.out.oracle(false, "no-panic", &sig, &format!("idx={} cfg={} panic in {} at {} history=[{}]", self.idx, self.cfgid, what, site, h));
    }
}

fn ftype_for(fs: Fs, sel: usize, path: &str) -> (Vec<u8>, Vec<u8>, Option<Vec<u8>>) {
    // (fs_type, aux, access override)
    match fs {
        Fs::Dos33 | Fs::Dos32 => (vec![[0u8, 1, 2, 4][sel % 4]], vec![], None),
        Fs::Prodos => (vec![[0x04u8, 0x06, 0xFC, 0xFF, 0x00, 0xB3][sel % 6]], vec![(sel * 37 % 256) as u8, (sel * 11 % 256) as u8], Some(vec![0xC3])),
        Fs::Pascal => (vec![[2u8, 3, 5][sel % 3], 0], vec![], None),
        _ => { let _ = path; (vec![], vec![], None) }
    }
}

pub struct FsRun<'a> { pub ctx: &'a mut Ctx, pub focus: Focus }

pub fn run(ctx: &mut Ctx, focus: Focus) {
    let cfgs = all_cfgs(ctx.tier_thorough);
    let n_hist = match focus { Focus::C06 => ctx.n(90, 500), _ => ctx.n(120, 900) };
    // development aid: only the scripted scenarios
    let n_hist = if std::env::var("A2V_ONLY_SCENARIOS").is_ok() { 0 } else { n_hist };
    let mut rng = Rng::new(ctx.seed ^ (focus as u64) << 32);
    let mut drv = Drv::spawn();
    if drv.is_none() { ctx.out.count("driver-missing"); }
    // the scripted scenario histories (regression corpus of hard-to-reach states) run first, in every tier
    run_scenarios(ctx, focus, &mut drv);
    for idx in 0..n_hist {
        let mut crng = rng.fork(idx as u64);
        if !ctx.out.wants(idx) { continue; }
        // flat configurations (with the Lean tie) get two thirds of the histories
        let flats: Vec<&VolCfg> = cfgs.iter().filter(|c| c.flat || c.fs.is_cpm()).collect();
        let cfg = if idx % 3 != 2 { flats[(idx / 3 * 2 + idx % 3) % flats.len()].clone() } else { cfgs[(idx / 3) % cfgs.len()].clone() };
        let slow = matches!(cfg.container, "woz1" | "woz2" | "nib" | "2mg-nib") || cfg.kind == names::A2_HD_MAX;
        let steps = if slow { crng.range(4, 10) } else if ctx.tier_thorough { crng.range(10, 60) } else { crng.range(8, 36) };
        one_history(ctx, focus, idx, &cfg, steps, &mut crng, drv.as_mut(), Vec::new());
    }
    // once per run (too big to build per history): after one ordinary file, a Pascal file image with 65536 chunk keys
    if matches!(focus, Focus::C01 | Focus::C02 | Focus::C03 | Focus::C05) && ctx.out.wants(n_hist) {
        if let Some(cfg) = cfgs.iter().find(|c| c.fs == Fs::Pascal && c.flat && c.container == "po") {
            let cfg = cfg.clone();
            let mut crng = rng.fork(n_hist as u64);
            let forced = vec![Op::PutBad(9), Op::Put { path: "KEEP".to_string(), nchunks: 3, holes: false, last_len: 100, ftype_sel: 1, idx: None }];
            one_history(ctx, focus, n_hist, &cfg, 2, &mut crng, drv.as_mut(), forced);
        }
    }
    if let Some(d) = &drv { ctx.out.count_n("lean-requests", d.requests); }
    if let Ok(m) = CHUNK_SHAPES.lock() { for (k, v) in m.iter() { ctx.out.count_n(&format!("chunk-shape:{}", k), *v); } }
}

fn dump_units(w: &mut World) -> Option<(usize, Vec<Vec<u8>>)> {
    // the raw volume as the independent reader sees it
    let fs = w.fs();
    if fs.is_cpm() {
        let st = guarded(|| w.disk.stat()).ok()?.ok()?;
        let mut units = Vec::new();
        for b in 0..st.block_end { match guarded(|| w.disk.read_block(&b.to_string())) { Ok(Ok(d)) => units.push(d), _ => return None } }
        return Some((st.block_size, units));
    }
    if !w.cfg.flat { return None; }
    let bytes = guarded(|| w.disk.get_img().to_bytes()).ok()?;
    let ul = if fs.is_dos() { 256 } else { 512 };
    Some((ul, bytes.chunks(ul).map(|c| c.to_vec()).collect()))
}

struct LeanTie { prev: Vec<Vec<u8>>, opened: bool }

fn lean_sync(drv: &mut Drv, tie: &mut LeanTie, w: &mut World) -> Option<String> {
    let (ul, units) = dump_units(w)?;
    if !tie.opened {
        let extra = lean_params(w);
        let a = drv.ask(&format!("fs open {} {} {} {}", w.fs().id(), ul, units.len(), extra));
        if a != "ok" { return Some(format!("open: {}", a)); }
        tie.opened = true;
        tie.prev = vec![vec![0u8; ul]; units.len()];
    }
    let mut req = String::from("fs set");
    let mut n = 0;
    for (i, u) in units.iter().enumerate() {
        if i >= tie.prev.len() || tie.prev[i] != *u { req.push_str(&format!(" {}:{}", i, hx(u))); n += 1; }
        if req.len() > 200_000 { let a = drv.ask(&req); if a != "ok" { return Some(format!("set: {}", a)); } req = String::from("fs set"); }
    }
    if n > 0 && req.len() > 6 { let a = drv.ask(&req); if a != "ok" { return Some(format!("set: {}", a)); } }
    tie.prev = units;
    None
}

fn lean_params(w: &mut World) -> String {
    // parameters the reader cannot find on the disk itself (CP/M: the DPB lives in the BIOS)
    if w.fs().is_cpm() {
        let d = dpb::DiskParameterBlock::create(&w.cfg.kind);
        format!("bsh={} exm={} dsm={} drm={} al0={} al1={} v3={}", d.bsh, d.exm, d.dsm, d.drm, d.al0, d.al1, if w.fs() == Fs::Cpm3 { 1 } else { 0 })
    } else { String::from("-") }
}

/// everything that follows one executed operation: API oracles, mirror of the saved image into the driver,
/// per-step refinement check, independent reading, and the byte-exact concrete-model ties
fn post_step(w: &mut World, vd: &mut Verdicts, drv: &mut Option<&mut Drv>, tie: &mut LeanTie, use_lean: bool, use_pas: bool, use_dos: bool, desc: &str) {
    let lean_op = w.lean_op.take().unwrap_or("other err".to_string());
    check_bystanders(w, vd, desc);
    check_listing(w, vd);
    if use_lean {
        if let Some(d) = drv.as_deref_mut() {
            if let Some(e) = lean_sync(d, tie, w) { vd.out.count(&format!("lean-sync-error:{}", e)); }
            else if !desc.starts_with("skip") && !desc.starts_with("ABORT") {
                let summary = lean_step(d, w, vd, &lean_op, desc);
                lean_check_answer(&summary, w, vd, desc);
            } else { lean_check(d, w, vd, desc, None); }
            if use_pas && !desc.starts_with("ABORT") {
                if let Some((req, expect)) = w.pas_op.take() { pas_tie(d, w, vd, &req, expect, desc); }
                pas_queries(d, w, vd, desc);
            }
            if !desc.starts_with("ABORT") && w.cfg.flat {
                match w.cfg.fs {
                    Fs::Prodos => super::fs_prodos::after_step(d, w, vd, desc),
                    Fs::Fat => super::fs_fat::after_step(d, w, vd, desc),
                    _ => {}
                }
            }
            if !desc.starts_with("ABORT") && w.cfg.fs.is_cpm() { super::fs_cpm::after_step(d, w, vd, desc); }
            if use_dos && !desc.starts_with("ABORT") {
                if let Some((req, expect)) = w.dos_op.take() { dos_tie(d, w, vd, &req, expect, desc); }
                dos_queries(d, w, vd, desc);
            }
        }
    }
}

/// use a fresh volume (two dense files that together reach high block numbers, a small one, the middle one deleted), then
/// format the same object again; Err = the re-formatted volume is not what a first format gives (free count, listing)
fn first_life_and_reformat(disk: &mut Vol, cfg: &VolCfg) -> Result<(), String> {
    let e = |e: Box<dyn std::error::Error>| e.to_string();
    let free0 = disk.stat().map_err(e)?.free_blocks;
    let ext = if cfg.fs.is_cpm() || cfg.fs == Fs::Fat { ".BIN" } else { "" };
    for (k, share) in [(0usize, 40usize), (1, 30), (2, 1)] {
        let name = format!("LIFE{}{}", k, ext);
        let mut f = disk.new_fimg(None, true, &name).map_err(e)?;
        let budget = (free0 * share / 100).max(2);
        let n = (1..=budget).rev().find(|n| dense_units(cfg.fs, *n) <= budget).unwrap_or(1);
        for i in 0..n { f.chunks.insert(i, vec![0xA5u8 ^ (i as u8) ^ (k as u8); f.chunk_len]); }
        if !cfg.fs.is_dos() { let l = f.chunk_len; f.set_eof(n * l); }
        let (ft, aux, acc) = ftype_for(cfg.fs, 1, &name);
        if !ft.is_empty() { f.fs_type = ft; } if !aux.is_empty() { f.aux = aux; } if let Some(a) = acc { f.access = a; }
        disk.put(&f).map_err(|x| format!("first life: put {} refused: {}", name, x))?;
    }
    disk.delete(&format!("LIFE1{}", ext)).map_err(|x| format!("first life: delete refused: {}", x))?;
    disk.reformat(cfg).ok_or("no concrete object")??;
    let st = disk.stat().map_err(e)?;
    if st.free_blocks != free0 { return Err(format!("free count after formatting the used object is {}, a first format gives {}", st.free_blocks, free0)); }
    let tree = disk.tree(false, None).map_err(e)?;
    if tree.contains("LIFE") { return Err("files of the first life are listed after the format".to_string()); }
    Ok(())
}

/// one history in progress: the volume and its reference state, the verdict sink, the Lean tie.  Every operation —
/// generated or scripted — goes through `step`: real call, API oracles, mirror of the saved image into the driver,
/// per-step refinement check, byte-exact concrete-model ties.
pub struct Hist<'a> {
    pub w: World,
    pub vd: Verdicts<'a>,
    drv: Option<&'a mut Drv>,
    tie: LeanTie,
    use_lean: bool, use_pas: bool, use_dos: bool,
    canon: Vec<u8>,
    nontrivial: bool,
    /// an operation panicked or broke the reference state: nothing more is executed
    pub dead: bool,
    /// `stat` failed: the history is dropped as before (no end-of-history checks)
    stat_failed: bool,
    /// scripted scenario name (distribution counters `reach:<scenario>:<milestone>`)
    pub scenario: &'static str,
}

impl<'a> Hist<'a> {
    fn open(out: &'a mut Out, focus: Focus, idx: usize, cfg: &VolCfg, mut drv: Option<&'a mut Drv>, forced: Vec<Op>, second_life: bool) -> Option<Hist<'a>> {
        let cfgid = format!("{}/{}/{}", cfg.fs.id(), cfg.container, cfg.kind_name);
        out.count(&format!("cfg:{}", cfgid));
        let disk = match guarded(|| make_vol(cfg)) {
            Ok(Ok(d)) => d,
            Ok(Err(e)) => { out.count(&format!("mkvol-error:{}:{}", cfgid, e)); return None; }
            Err(p) => { let mut vd = Verdicts { out, focus, idx, cfgid: cfgid.clone() }; vd.panic(&p, "format", &[]); return None; }
        };
        let mut w = World { cfg: cfg.clone(), disk, files: BTreeMap::new(), dirs: BTreeSet::new(), chunk_len: 0, hist: Vec::new(), lean_op: None, last_op: None, pas_op: None, dos_op: None, forced: Vec::new(), locked_dirs: BTreeSet::new(), last_reading: None, leak_tainted: false };
        w.forced = forced;
        w.chunk_len = match guarded(|| w.disk.new_fimg(None, false, if cfg.fs.is_cpm() || cfg.fs == Fs::Fat { "A.TXT" } else { "A" })) { Ok(Ok(f)) => f.chunk_len, _ => 512 };
        // second life: the object has been used (files up to high block numbers, one deleted) and is formatted again through
        // the same object; the history proper - and every tie - starts from there, exactly as from a first format
        let mut relife: Option<Result<(), String>> = None;
        if second_life { relife = Some(guarded(|| first_life_and_reformat(&mut w.disk, cfg)).unwrap_or_else(|p| Err(format!("PANIC {}", p)))); }
        let mut tie = LeanTie { prev: Vec::new(), opened: false };
        let use_lean = drv.is_some() && (cfg.flat || cfg.fs.is_cpm()) && lean_supported(cfg.fs);
        // byte-exact tie of the concrete Pascal model (Lean `Model/Fs/Pascal.lean`): Pascal on a flat PO image only
        let use_pas = use_lean && cfg.fs == Fs::Pascal && cfg.flat && cfg.container == "po" && std::env::var("A2V_NO_FSP").is_err();
        // byte-exact tie of the concrete DOS 3.x model (Lean `Model/Fs/Dos3x.lean`): DOS 3.3 on flat DO, DOS 3.2 on flat D13
        let use_dos = use_lean && cfg.fs.is_dos() && cfg.flat && matches!(cfg.container, "do" | "d13") && std::env::var("A2V_NO_FSD").is_err();
        let canon: Vec<u8> = cfgid.as_bytes().to_vec();
        let mut vd = Verdicts { out, focus, idx, cfgid: cfgid.clone() };
        if let Some(r) = relife {
            w.hist.push(format!("first life (files up to high blocks, one deleted), format of the same object => {}", match &r { Ok(()) => "ok".to_string(), Err(e) => format!("err:{}", e.chars().take(60).collect::<String>()) }));
            let hist = w.hist.clone();
            match r {
                Ok(()) => { for f in [Focus::C03, Focus::C04, Focus::C05] { vd.v(f, true, "reformat-yields-fresh-volume", "", &[]); } vd.out.count("second-life"); }
                Err(e) if e.starts_with("PANIC") => { vd.panic(&e[6..], "format", &hist); return None; }
                Err(e) => { for f in [Focus::C03, Focus::C04, Focus::C05] { vd.v(f, false, "reformat-yields-fresh-volume", &e, &hist); } return None; }
            }
        }
        if use_lean {
            if let Some(d) = drv.as_deref_mut() {
                if let Some(e) = lean_sync(d, &mut tie, &mut w) { vd.out.count(&format!("lean-sync-error:{}", e)); }
                else {
                    lean_check(d, &mut w, &mut vd, "format", None);
                    if cfg.fs.is_cpm() { super::fs_cpm::after_step(d, &mut w, &mut vd, "format"); }
                    if use_pas { pas_tie(d, &mut w, &mut vd, &format!("format {} {} {} ok", hxs("VERIF"), 0xee, hx(&pas_date())), None, "format"); pas_queries(d, &mut w, &mut vd, "format"); }
                    if use_dos { super::fs_dos::send_variant(d); super::fs_dos::variant_tie(&w, &mut vd); dos_tie(d, &mut w, &mut vd, &format!("init {} 254 ok", if cfg.fs == Fs::Dos32 { 13 } else { 16 }), None, "format"); }
                }
            }
        }
        Some(Hist { w, vd, drv, tie, use_lean, use_pas, use_dos, canon, nontrivial: false, dead: false, stat_failed: false, scenario: "" })
    }

    /// free count before the next operation; a failing `stat` ends the history
    fn free(&mut self) -> Option<usize> {
        if self.dead { return None; }
        match self.w.free() {
            Ok(f) => Some(f),
            Err(e) => { if e.contains(".rs:") { let h = self.w.hist.clone(); self.vd.panic(&e, "stat", &h); } self.dead = true; self.stat_failed = true; None }
        }
    }

    /// execute one operation (with the free count taken just before it) and everything that follows a step
    fn step_at(&mut self, op: Op, rng: &mut Rng, free: usize) -> String {
        if self.dead { return String::from("ABORT dead"); }
        self.w.lean_op = None; self.w.last_op = None; self.w.pas_op = None; self.w.dos_op = None;
        let t0 = std::time::Instant::now();
        let desc = apply_op(&mut self.w, op, rng, free, &mut self.vd, &mut self.nontrivial);
        let t1 = t0.elapsed().as_secs_f64();
        self.canon.extend_from_slice(desc.as_bytes());
        if desc.starts_with("ABORT") { self.dead = true; return desc; }
        post_step(&mut self.w, &mut self.vd, &mut self.drv, &mut self.tie, self.use_lean, self.use_pas, self.use_dos, &desc);
        if std::env::var("A2V_STEP_TIME").is_ok() { eprintln!("   step {:.2}s + {:.2}s  {}", t1, t0.elapsed().as_secs_f64() - t1, desc.chars().take(90).collect::<String>()); }
        desc
    }

    pub fn step(&mut self, op: Op, rng: &mut Rng) -> String {
        match self.free() { Some(f) => self.step_at(op, rng, f), None => String::from("ABORT stat") }
    }

    /// end of history: everything still reads back (C01), protected files are intact (C19), and the volume survives save/reload (C06)
    fn finish(mut self, rng: &mut Rng) -> Option<(Vec<u8>, bool, String)> {
        if self.stat_failed { return None; }
        check_all_files(&mut self.w, &mut self.vd, Focus::C01, "all-files-read-back");
        check_all_files(&mut self.w, &mut self.vd, Focus::C19, "protected-files-intact");
        check_all_files(&mut self.w, &mut self.vd, Focus::C02, "all-files-intact-at-end");
        if self.vd.focus == Focus::C06 { check_reload(&mut self.w, &mut self.vd, rng); }
        if self.w.hist.len() >= 3 { self.nontrivial = self.nontrivial || self.w.files.len() >= 2; }
        let sample = format!("idx={} cfg={} steps={} files={} history=[{}]", self.vd.idx, self.vd.cfgid, self.w.hist.len(), self.w.files.len(), self.w.hist.iter().take(12).cloned().collect::<Vec<_>>().join("; "));
        Some((self.canon, self.nontrivial, sample))
    }
}

/// extra operations of the random generator, drawn from a stream of their own so that the main stream of a history
/// is the one it was before they existed: save / save-and-reload in mid-history (all file systems and containers),
/// delete of a directory (file systems with directories)
fn extra_op(w: &World, aux: &mut Rng, focus: Focus) -> Option<Op> {
    let r = aux.below(1000);
    // (save / reload are left out under the two slowest foci, C04 and C05)
    let saves = !matches!(focus, Focus::C04 | Focus::C05);
    if r < 25 { return if saves { Some(Op::Reload(aux.chance(60))) } else { None }; }
    if r < 40 { return if saves { Some(Op::Save) } else { None }; }
    let fs = w.fs();
    if r < 55 && matches!(fs, Fs::Fat | Fs::Cpm2 | Fs::Cpm3 | Fs::Prodos) { return Some(Op::PutEmpty(gen_name(fs, aux, &w.dirs))); }
    if fs.has_dirs() && !w.dirs.is_empty() {
        let d: Vec<&String> = w.dirs.iter().collect();
        let pick = (*aux.pick(&d)).clone();
        if r < 105 { return Some(Op::DeleteDir(pick)); }
        if r < 130 { return Some(Op::LockDir(pick)); }
        if r < 140 { return Some(Op::RenameDir(pick, gen_dirname(fs, aux, &BTreeSet::new()))); }
    }
    None
}

fn one_history(ctx: &mut Ctx, focus: Focus, idx: usize, cfg: &VolCfg, steps: usize, rng: &mut Rng, drv: Option<&mut Drv>, forced: Vec<Op>) {
    let mut aux = Rng::new(rng.0 ^ 0x5CE7A410_0000_0000u64 ^ idx as u64);
    // one history in ten starts on an object that has been used and formatted again
    // (not DOS 3.x: INIT leaves the data sectors as they are, and the byte-exact DOS model starts from a blank image)
    let second_life = !slow_cfg(cfg) && !cfg.fs.is_dos() && aux.chance(10);
    let mut h = match Hist::open(&mut ctx.out, focus, idx, cfg, drv, forced, second_life) { Some(h) => h, None => return };
    // CP/M 3 scenario: the same 8+3 name in two user areas, both password protected, then one of them unprotected
    // (entries of different user areas must never be confused; protection is per file)
    if cfg.fs == Fs::Cpm3 && rng.chance(60) {
        let base = format!("{}.{}", ["SAME", "TWIN", "DUP"][rng.below(3)], ["TXT", "BIN", "X"][rng.below(3)]);
        let (u1, u2) = (rng.range(0, 7), rng.range(8, 15));
        let n1 = if u1 == 0 { base.clone() } else { format!("{}:{}", u1, base) };
        let n2 = format!("{}:{}", u2, base);
        let mut script: Vec<Op> = vec![
            Op::Put { path: n1.clone(), nchunks: rng.range(1, 20), holes: false, last_len: 77, ftype_sel: 0, idx: None },
            Op::Put { path: n2.clone(), nchunks: rng.range(1, 3), holes: false, last_len: 99, ftype_sel: 0, idx: None },
            Op::Protect(canon_path(cfg.fs, &n1)), Op::Protect(canon_path(cfg.fs, &n2)),
        ];
        if rng.chance(50) { script.push(Op::Lock(canon_path(cfg.fs, &n2))); }
        script.push(Op::Unprotect(canon_path(cfg.fs, if rng.chance(50) { &n1 } else { &n2 })));
        for op in script {
            let free = h.w.free().unwrap_or(0);
            if h.step_at(op, rng, free).starts_with("ABORT") { break; }
        }
        h.dead = false;
        h.vd.out.count("cpm3-protect-scenario");
    }
    // pre-soil: fill the free space once with non-zero data and delete it, so that free units hold stale bytes
    // (a structure that is linked but never written then shows up as garbage instead of zeros)
    if !slow_cfg(cfg) && rng.chance(45) {
        if let Ok(free) = h.w.free() {
            let overhead = match cfg.fs { Fs::Dos33 | Fs::Dos32 => 1 + free / 122, Fs::Prodos => if free > 256 { 2 + free / 256 } else { 1 }, Fs::Pascal => 0, _ => 0 };
            let n = free.saturating_sub(overhead + 1).max(1);
            let name = if cfg.fs.is_cpm() || cfg.fs == Fs::Fat { "SOIL.BIN" } else { "SOIL" };
            let op = Op::Put { path: name.to_string(), nchunks: n, holes: false, last_len: h.w.chunk_len, ftype_sel: 1, idx: None };
            h.step_at(op, rng, free);
            h.dead = false;
            let cp = canon_path(cfg.fs, name);
            if h.w.files.contains_key(&cp) {
                let f2 = h.w.free().unwrap_or(0);
                h.step_at(Op::Delete(cp), rng, f2);
                h.dead = false;
            }
            h.vd.out.count("pre-soil");
        }
    }
    // directory-pressure burst: many one-chunk files into one directory, sized to cross the directory's
    // capacity / growth boundaries (catalog full, sub-directory growing into its 2nd and 3rd block or cluster)
    let mut burst: Option<(String, usize)> = None;
    if !slow_cfg(cfg) && rng.chance(40) {
        let fs = cfg.fs;
        let counts: &[usize] = match fs {
            Fs::Dos33 | Fs::Dos32 => &[20, 103, 104, 105, 106],
            Fs::Pascal => &[20, 76, 77, 78],
            Fs::Prodos => &[12, 13, 14, 25, 26, 27, 50, 51, 52],
            Fs::Cpm2 | Fs::Cpm3 => &[30, 46, 47, 48, 49, 62, 63, 64, 65],
            Fs::Fat => &[13, 14, 15, 16, 29, 30, 31, 32, 33, 46, 47, 62, 63, 64, 65, 110, 111, 112, 113],
        };
        let k = *rng.pick(counts);
        let dir = if fs.has_dirs() && rng.chance(60) { "BURSTD".to_string() } else { String::new() };
        burst = Some((dir, k));
    }
    let mut burst_started = false;
    let total_steps = steps + burst.as_ref().map(|b| b.1 + 1).unwrap_or(0);
    for step in 0..total_steps {
        let free = match h.free() { Some(f) => f, None => return };
        let in_burst = matches!(burst.as_ref(), Some((_, left)) if *left > 0 && step >= 2);
        // now and then (not inside a burst): save, save + reload, delete of a directory
        if !in_burst && step > 0 {
            if let Some(op) = extra_op(&h.w, &mut aux, focus) {
                if h.step_at(op, &mut aux, free).starts_with("ABORT") { break; }
            }
        }
        let free = match h.free() { Some(f) => f, None => return };
        let op = match burst.as_mut() {
            Some((dir, left)) if *left > 0 && step >= 2 => {
                if !dir.is_empty() && !burst_started { burst_started = true; Op::Mkdir(dir.clone()) }
                else {
                    burst_started = true;
                    *left -= 1;
                    let base = gen_name(cfg.fs, rng, &BTreeSet::new());
                    let base = base.split(':').last().unwrap().to_string();
                    let path = if dir.is_empty() { base } else { format!("{}/{}", dir, base) };
                    // now and then the entry that makes the directory grow is itself a directory
                    if cfg.fs.has_dirs() && rng.chance(12) { Op::Mkdir(path) }
                    else { Op::Put { path, nchunks: 1, holes: false, last_len: rng.range(1, h.w.chunk_len.max(1)), ftype_sel: rng.below(64), idx: None } }
                }
            }
            _ => choose_op(&mut h.w, rng, free, focus),
        };
        if h.step_at(op, rng, free).starts_with("ABORT") { break; }
    }
    // pressure fill: use up the remaining free space so that any unit wrongly marked free (by an earlier,
    // possibly refused, operation) is handed out again and the damage becomes visible in the files; then free
    // some space in the middle of the volume and fill it again exactly (allocator wrap-around paths)
    h.dead = false;
    if !slow_cfg(cfg) && rng.chance(if focus == Focus::C04 { 85 } else { 50 }) {
        let mut phase = 0; // 0 = first fill, 1 = refill after a delete
        let mut rounds = 0;
        loop {
            rounds += 1;
            if rounds > 12 { break; }
            let free = match h.w.free() { Ok(f) => f, Err(_) => break };
            let op = if free == 0 || (phase == 0 && rounds > 6) {
                if phase == 1 { break; }
                phase = 1;
                let names: Vec<String> = h.w.files.iter().filter(|(_, r)| !r.locked).map(|(k, _)| k.clone()).collect();
                if names.is_empty() { break; }
                Op::Delete(names[rng.below(names.len())].clone())
            } else {
                let overhead = match cfg.fs { Fs::Dos33 | Fs::Dos32 => 1 + free / 122, Fs::Prodos => if free > 256 { 2 + free / 256 } else if free > 1 { 1 } else { 0 }, _ => 0 };
                let n = (if rounds % 3 == 1 && free > 8 { free / 2 } else { free.saturating_sub(overhead) }).max(1);
                Op::Put { path: gen_name(cfg.fs, rng, &BTreeSet::new()), nchunks: n, holes: false, last_len: h.w.chunk_len, ftype_sel: rng.below(64), idx: None }
            };
            let desc = h.step_at(op, rng, free);
            if desc.starts_with("ABORT") { break; }
            if desc.contains("=> err") && desc.starts_with("put") {
                if phase == 1 { break; }
                phase = 1;
                let names: Vec<String> = h.w.files.iter().filter(|(_, r)| !r.locked).map(|(k, _)| k.clone()).collect();
                if names.is_empty() { break; }
                let f0 = h.w.free().unwrap_or(0);
                let d = h.step_at(Op::Delete(names[rng.below(names.len())].clone()), rng, f0);
                if d.starts_with("ABORT") { break; }
            }
        }
        h.vd.out.count("pressure-fill");
    }
    h.dead = false;
    if let Some((canon, nontrivial, sample)) = h.finish(rng) {
        ctx.out.sample(&sample);
        ctx.out.case(&canon, nontrivial);
    }
}

// ------------------------------------------------------------------------------------------
// scripted scenario histories: a deterministic corpus of states the random generator rarely reaches.  Each one runs
// through `Hist::step` like a generated history, so every oracle and the per-step Lean tie judge it.  The script fixes
// the operations; the chunk contents come from the run's seed.  Milestones a script reaches are counted in the
// distribution (`reach:<scenario>:<milestone>`), so the evidence shows that the state was really visited.

/// case indices of the scripted scenarios (the random histories keep 0..n, so their indices do not move)
pub const SCENARIO_IDX0: usize = 1_000_000;

struct Scenario { name: &'static str, fs: Fs, container: &'static str, kind_name: &'static str, foci: &'static [Focus], thorough_only: bool, second_life: bool, script: fn(&mut Hist, &mut Rng) }

fn scenarios() -> Vec<Scenario> {
    use Focus::*;
    let sc = |name, fs, container, kind_name, foci, script| Scenario { name, fs, container, kind_name, foci, thorough_only: false, second_life: false, script };
    vec![
        // FAT sub-directory of three clusters (512-byte clusters: the 31st file), operations on entries of every cluster
        sc("fat-subdir-3-clusters", Fs::Fat, "img", "ibm-ssdd-9", &[C01, C02, C04, C05, C19], sc_fat_subdir),
        // the same with 1K clusters (the 63rd file)
        sc("fat-subdir-3-clusters-1k", Fs::Fat, "img", "ibm-dsdd-9", &[C01, C03], sc_fat_subdir),
        // DOS 3.x data disk: only tracks 1-2 free while the last allocation was above the catalog track
        sc("dos33-low-tracks", Fs::Dos33, "do", "a2-525-16", &[C01, C02, C04], sc_dos_low_tracks),
        sc("dos32-low-tracks", Fs::Dos32, "d13", "a2-525-13", &[C03, C04], sc_dos_low_tracks),
        // ProDOS volume with a two-block bitmap: allocation beyond block 4096, save / reload in mid-history
        sc("prodos-bitmap-2-blocks", Fs::Prodos, "po", "a2-hd-4600", &[C01, C02, C06], sc_prodos_bitmap2),
        Scenario { name: "prodos-bitmap-16-blocks", fs: Fs::Prodos, container: "po", kind_name: "a2-hd-max", foci: &[C02, C06], thorough_only: true, second_life: false, script: sc_prodos_bitmap2 },
        // ProDOS sparse tree files at exact fit and one block short
        sc("prodos-sparse-exact-fit", Fs::Prodos, "po", "a2-525-16", &[C01, C02, C03, C04], sc_prodos_sparse_fit),
        // ProDOS sub-directory of four blocks, operations on entries of every block, delete of the grown directory
        sc("prodos-subdir-4-blocks", Fs::Prodos, "po", "a2-525-16", &[C02, C03, C05, C19], sc_prodos_subdir),
        // CP/M: files ending at / crossing logical and physical extent boundaries (EXM = 1), holes spanning whole extents,
        // a two-extent file into the last two / the last directory slot
        sc("cpm-extents-exm1", Fs::Cpm2, "imd", "kaypro4", &[C01, C02, C03], sc_cpm_extents),
        sc("cpm-extents-exm0", Fs::Cpm2, "do", "a2-525-16", &[C01, C04], sc_cpm_extents),
        sc("cpm3-extents", Fs::Cpm3, "imd", "amstrad-ss", &[C03, C19], sc_cpm_extents),
        // Pascal: contiguity on a full volume (exact gap, gap + 1, merged gaps, file ending on the last block)
        sc("pascal-gaps", Fs::Pascal, "po", "a2-525-16", &[C01, C03, C04], sc_pascal_gaps),
        // ProDOS volumes whose size is a multiple of 4096 blocks (the bitmap ends exactly at a block boundary)
        sc("prodos-4096-blocks", Fs::Prodos, "po", "a2-hd-4096", &[C02, C03, C04, C06], sc_prodos_full_bitmap_block),
        sc("prodos-8192-blocks", Fs::Prodos, "po", "a2-hd-8192", &[C01, C02, C04, C06], sc_prodos_full_bitmap_block),
        // sparse files whose first chunk is a hole
        sc("dos33-no-first-chunk", Fs::Dos33, "do", "a2-525-16", &[C01, C03], sc_no_first_chunk),
        sc("prodos-no-first-chunk", Fs::Prodos, "po", "a2-525-16", &[C01, C02, C04], sc_no_first_chunk),
        sc("cpm-no-first-chunk", Fs::Cpm2, "imd", "kaypro4", &[C01, C03], sc_no_first_chunk),
        // CP/M with 16-bit block pointers (DSM >= 256): a file that owns blocks >= 256, then further puts
        sc("cpm-16bit-pointers", Fs::Cpm2, "imd", "trs80-m2", &[C01, C02], sc_cpm_16bit),
        // ProDOS 800K: sequential tree files of 256k+1 blocks (769, 513) at exact fit and one block short
        sc("prodos-exact-fit-800k", Fs::Prodos, "po", "a2-35-800", &[C04], sc_prodos_fit_800k),
        // a locked (read-only) empty sub-directory: delete and rename are refused until it is unlocked
        sc("fat-locked-directory", Fs::Fat, "img", "ibm-ssdd-9", &[C19], sc_locked_dir),
        sc("prodos-locked-directory", Fs::Prodos, "po", "a2-525-16", &[C19], sc_locked_dir),
        // FAT sub-directory exactly full, then growth without a data cluster (zero-length file; put refused for lack of
        // space), save / reload right after it
        sc("fat-full-directory-grows", Fs::Fat, "img", "ibm-ssdd-9", &[C05, C06], sc_fat_full_dir_grows),
        // a used object formatted again, then filled exactly (allocator state must not survive `format`)
        Scenario { name: "cpm-second-life-exact-fill", fs: Fs::Cpm2, container: "do", kind_name: "a2-525-16", foci: &[C04], thorough_only: false, second_life: true, script: sc_exact_fill },
        Scenario { name: "fat-second-life-exact-fill", fs: Fs::Fat, container: "img", kind_name: "ibm-ssdd-9", foci: &[C03], thorough_only: false, second_life: true, script: sc_exact_fill },
        // (append new scenarios here: the position in this list is the case index)
    ]
}

fn scenario_cfg(sc: &Scenario) -> Option<VolCfg> {
    for (n, name, flat) in [(4096u16, "a2-hd-4096", false), (4600, "a2-hd-4600", false), (8192, "a2-hd-8192", false)] {
        if sc.kind_name == name { return Some(VolCfg { fs: Fs::Prodos, container: "po", kind: img::dsk_po::PO::create(n).kind(), kind_name: name, flat }); }
    }
    all_cfgs(true).into_iter().find(|c| c.fs == sc.fs && c.container == sc.container && c.kind_name == sc.kind_name)
}

fn run_scenarios(ctx: &mut Ctx, focus: Focus, drv: &mut Option<Drv>) {
    let mut sampled = 0;
    for (k, sc) in scenarios().iter().enumerate() {
        let idx = SCENARIO_IDX0 + k;
        if !ctx.out.wants(idx) { continue; }
        // quick: the foci the scenario is aimed at; thorough: every scenario under every focus
        // quick: under the foci the scenario is aimed at; thorough: every scenario under every focus (the slow
        // thorough-only ones under their own foci)
        if if ctx.tier_thorough { sc.thorough_only && !sc.foci.contains(&focus) } else { sc.thorough_only || !sc.foci.contains(&focus) } { continue; }
        let cfg = match scenario_cfg(sc) { Some(c) => c, None => { ctx.out.count(&format!("scenario-no-cfg:{}", sc.name)); continue; } };
        let mut rng = Rng::new(ctx.seed ^ 0x5C3A_A105u64 ^ ((k as u64) << 20));
        let t0 = std::time::Instant::now();
        let mut h = match Hist::open(&mut ctx.out, focus, idx, &cfg, drv.as_mut(), Vec::new(), sc.second_life) { Some(h) => h, None => continue };
        h.scenario = sc.name;
        (sc.script)(&mut h, &mut rng);
        let steps = h.w.hist.len() as u64;
        let fin = h.finish(&mut rng);
        ctx.out.count(&format!("scenario:{}", sc.name));
        ctx.out.count_n(&format!("scenario-steps:{}", sc.name), steps);
        if let Some((canon, nontrivial, sample)) = fin {
            if sampled < 2 { sampled += 1; ctx.out.sample(&format!("scenario={} {}", sc.name, sample)); }
            ctx.out.case(&canon, nontrivial);
        }
        if std::env::var("A2V_SCN_TIME").is_ok() { eprintln!("scenario {} focus {} steps {} {:.1}s", sc.name, focus.id(), steps, t0.elapsed().as_secs_f64()); }
    }
}

/// allocation units a dense file of `n` chunks takes (the file system's own index overhead included)
fn dense_units(fs: Fs, n: usize) -> usize {
    match fs {
        Fs::Dos33 | Fs::Dos32 => n + (n + 121) / 122,
        Fs::Prodos => if n <= 1 { 1 } else if n <= 256 { n + 1 } else { n + (n + 255) / 256 + 1 },
        _ => n,
    }
}

/// script vocabulary: every call is one `step` (or none if the reference state does not allow it any more, e.g. on a
/// tree where an earlier operation failed); the return value says whether the real call reported success
impl<'a> Hist<'a> {
    fn mark(&mut self, what: &str) { let k = format!("reach:{}:{}", self.scenario, what); self.vd.out.count(&k); }
    fn skip(&mut self) -> bool { self.vd.out.count("scenario-step-skipped"); false }
    fn done(d: &str) -> bool { d.ends_with("=> ok") }
    fn free_now(&mut self) -> usize { self.w.free().unwrap_or(usize::MAX) }
    fn cp(&self, p: &str) -> String { canon_path(self.w.fs(), p) }
    pub fn put_len(&mut self, rng: &mut Rng, path: &str, n: usize, last_len: usize) -> bool {
        let sel = rng.below(64);
        Self::done(&self.step(Op::Put { path: path.to_string(), nchunks: n.max(1), holes: false, last_len, ftype_sel: sel, idx: None }, rng))
    }
    pub fn put(&mut self, rng: &mut Rng, path: &str, n: usize) -> bool { let l = self.w.chunk_len; self.put_len(rng, path, n, l) }
    pub fn put_idx(&mut self, rng: &mut Rng, path: &str, idx: &[usize], last_len: usize) -> bool {
        let sel = rng.below(64);
        Self::done(&self.step(Op::Put { path: path.to_string(), nchunks: 0, holes: true, last_len, ftype_sel: sel, idx: Some(idx.to_vec()) }, rng))
    }
    pub fn del(&mut self, rng: &mut Rng, path: &str) -> bool { let cp = self.cp(path); if !self.w.files.contains_key(&cp) { return self.skip(); } Self::done(&self.step(Op::Delete(cp), rng)) }
    pub fn rename(&mut self, rng: &mut Rng, path: &str, newbase: &str) -> bool { let cp = self.cp(path); if !self.w.files.contains_key(&cp) { return self.skip(); } Self::done(&self.step(Op::Rename(cp, newbase.to_string()), rng)) }
    pub fn toggle_lock(&mut self, rng: &mut Rng, path: &str) -> bool { let cp = self.cp(path); if !self.w.files.contains_key(&cp) || !self.w.fs().has_lock() { return self.skip(); } Self::done(&self.step(Op::Lock(cp), rng)) }
    pub fn retype(&mut self, rng: &mut Rng, path: &str, sel: usize) -> bool { let cp = self.cp(path); if !self.w.files.contains_key(&cp) { return self.skip(); } Self::done(&self.step(Op::Retype(cp, sel), rng)) }
    pub fn mkdir(&mut self, rng: &mut Rng, path: &str) -> bool { Self::done(&self.step(Op::Mkdir(path.to_string()), rng)) }
    pub fn rmdir(&mut self, rng: &mut Rng, path: &str) -> bool { let cp = self.cp(path); if !self.w.dirs.contains(&cp) { return self.skip(); } Self::done(&self.step(Op::DeleteDir(cp), rng)) }
    pub fn put_empty(&mut self, rng: &mut Rng, path: &str) -> bool { Self::done(&self.step(Op::PutEmpty(path.to_string()), rng)) }
    pub fn toggle_lock_dir(&mut self, rng: &mut Rng, path: &str) -> bool { let cp = self.cp(path); if !self.w.dirs.contains(&cp) { return self.skip(); } Self::done(&self.step(Op::LockDir(cp), rng)) }
    pub fn rename_dir(&mut self, rng: &mut Rng, path: &str, newbase: &str) -> bool { let cp = self.cp(path); if !self.w.dirs.contains(&cp) { return self.skip(); } Self::done(&self.step(Op::RenameDir(cp, newbase.to_string()), rng)) }
    pub fn raw_rewrite(&mut self, rng: &mut Rng, block: usize) -> bool { Self::done(&self.step(Op::RawRewrite(block), rng)) }
    pub fn save(&mut self, rng: &mut Rng) -> bool { Self::done(&self.step(Op::Save, rng)) }
    pub fn reload(&mut self, rng: &mut Rng, with_ext: bool) -> bool { Self::done(&self.step(Op::Reload(with_ext), rng)) }
    fn files_under(&self, dir: &str) -> Vec<String> { let p = format!("{}/", dir); self.w.files.keys().filter(|k| k.starts_with(&p)).cloned().collect() }
    /// dense filler files until exactly `target` units are free
    pub fn fill_to(&mut self, rng: &mut Rng, target: usize, tag: &str) -> bool {
        let fs = self.w.fs();
        let ext = if fs.is_cpm() || fs == Fs::Fat { ".BIN" } else { "" };
        for _ in 0..16 {
            let free = match self.w.free() { Ok(f) => f, Err(_) => return false };
            if free == target { return true; }
            if free < target || self.dead { return false; }
            let d = free - target;
            let n = (1..=d).rev().find(|n| dense_units(fs, *n) <= d).unwrap_or(1);
            let name = format!("{}{}{}", tag, self.w.hist.len(), ext);
            if !self.put(rng, &name, n) { return false; }
        }
        false
    }
    /// ProDOS: the volume as another formatter leaves it.  The saved image of the freshly formatted volume must already
    /// carry the volume bitmap the format prescribes (boot blocks, volume directory and the bitmap blocks used, every other
    /// block of the volume free, no bit beyond the volume); the bitmap blocks are then set to exactly that (a no-op on a
    /// correct tree) and the history goes on with the volume loaded from these bytes.
    fn prodos_load_formatted(&mut self) {
        let total = match guarded(|| self.w.disk.stat().map_err(|e| e.to_string())) { Ok(Ok(s)) => s.block_end, _ => { self.dead = true; return; } };
        let mut bytes = match guarded(|| self.w.disk.get_img().to_bytes()) { Ok(b) => b, Err(_) => { self.dead = true; return; } };
        if bytes.len() < total * 512 || total < 16 { self.dead = true; return; }
        let first = bytes[2 * 512 + 0x27] as usize + 256 * bytes[2 * 512 + 0x28] as usize;
        let nb = (total + 4095) / 4096;
        let mut want = vec![0u8; nb * 512];
        for b in 0..total { if b >= 6 && !(b >= first && b < first + nb) { want[b / 8] |= 1 << (7 - b % 8); } }
        let same = first == 6 && bytes[first * 512..(first + nb) * 512] == want[..];
        self.w.hist.push(format!("load the formatted volume ({} blocks, bitmap blocks {}..{}) => ok", total, first, first + nb - 1));
        let hist = self.w.hist.clone();
        let first_bad = (0..nb).find(|i| bytes[(first + i) * 512..(first + i + 1) * 512] != want[i * 512..(i + 1) * 512]);
        for f in [Focus::C03, Focus::C04, Focus::C06] { self.vd.v(f, same, "fresh-volume-bitmap-on-disk", &format!("the saved image of the freshly formatted volume does not carry the prescribed bitmap (first differing bitmap block: {:?})", first_bad), &hist); }
        if first == 6 { bytes[first * 512..(first + nb) * 512].copy_from_slice(&want); }
        match guarded(|| a2kit::create_fs_from_bytestream(&bytes, Some("po")).map_err(|e| e.to_string())) {
            Ok(Ok(d2)) => { self.w.disk = Vol::Dyn(d2); self.mark("formatted-volume-loaded"); }
            _ => { self.vd.out.count("scenario-load-failed"); self.dead = true; }
        }
    }
}

fn sc_fat_subdir(h: &mut Hist, rng: &mut Rng) {
    let cl = h.w.chunk_len.max(32);
    let per = cl / 32; // directory entries per cluster
    h.mkdir(rng, "SUB");
    let total = 2 * per + 8;
    for i in 0..total { if !h.put_len(rng, &format!("SUB/F{:02}.DAT", i), 1, 1 + (i * 37) % cl) { break; } }
    let n_in = h.files_under("SUB").len();
    if n_in + 2 > per { h.mark("entries-in-cluster-2"); }
    if n_in + 2 > 2 * per { h.mark("entries-in-cluster-3"); }
    // entry index of F<i> is i + 2 (after `.` and `..`): lock + refused delete, rename, retype, delete in every cluster
    for c in 0..3usize {
        let base = if c == 0 { 1 } else { c * per - 2 + 1 };
        let f = |k: usize| format!("SUB/F{:02}.DAT", base + k);
        h.toggle_lock(rng, &f(0));
        h.del(rng, &f(0));
        h.rename(rng, &f(1), &format!("R{}.NEW", c));
        h.retype(rng, &f(2), 0);
        if h.del(rng, &f(3)) && c == 2 { h.mark("delete-in-cluster-3"); }
        h.toggle_lock(rng, &f(0));
        h.retype(rng, &f(2), 1);
    }
    // the freed slots of clusters 1, 2, 3 are taken again; a directory entry and a nested file at the end
    for c in 0..3 { h.put(rng, &format!("SUB/N{}.NEW", c), 2); }
    h.mkdir(rng, "SUB/DEEP");
    h.put(rng, "SUB/DEEP/X.DAT", 3);
    if !h.rmdir(rng, "SUB") { h.mark("nonempty-rmdir-refused"); }
    if per <= 16 {
        // empty the grown directory and delete it; its clusters are handed out again
        h.del(rng, "SUB/DEEP/X.DAT");
        h.rmdir(rng, "SUB/DEEP");
        for n in h.files_under("SUB") { h.del(rng, &n); }
        if h.rmdir(rng, "SUB") { h.mark("grown-directory-deleted"); }
        h.mkdir(rng, "SUB2");
        h.put(rng, "SUB2/A.DAT", 5);
    }
}

fn sc_dos_low_tracks(h: &mut Hist, rng: &mut Rng) {
    let fs = h.w.fs();
    let spt = if fs == Fs::Dos33 { 16 } else { 13 };
    // the dense file that takes exactly `total` sectors, T/S list sectors included
    let fit = |total: usize| (1..=total).rev().find(|n| dense_units(fs, *n) == total).unwrap_or(1);
    let (up, mid, low) = (fit(17 * spt), fit(14 * spt), fit(2 * spt));
    // tracks above the catalog, tracks 16..3, tracks 2..1
    h.put(rng, "UP", up); h.put(rng, "MID", mid); h.put(rng, "LOW", low);
    if h.free_now() == 0 { h.mark("full-after-wrap-below-catalog"); }
    h.del(rng, "UP");
    h.put(rng, "UP2", up);
    if h.free_now() == 0 { h.mark("refilled-high-tracks"); }
    h.del(rng, "LOW");
    if h.free_now() == 2 * spt { h.mark("only-low-tracks-free"); }
    if h.put(rng, "TINY", 1) { h.mark("put-into-tracks-1-2"); }
    h.put(rng, "REST", fit(2 * spt - 2));
    if h.free_now() == 0 { h.mark("exact-refill"); }
    h.put(rng, "NOROOM", 1);
    h.del(rng, "TINY"); h.del(rng, "MID");
    h.put(rng, "MID2", mid);
    h.del(rng, "REST"); h.del(rng, "UP2");
    if h.fill_to(rng, 0, "FILL") { h.mark("filled-to-zero-again"); }
}

fn sc_prodos_bitmap2(h: &mut Hist, rng: &mut Rng) {
    h.prodos_load_formatted();
    if h.dead { return; }
    let total = match guarded(|| h.w.disk.stat().map_err(|e| e.to_string())) { Ok(Ok(s)) => s.block_end, _ => return };
    let used0 = total.saturating_sub(h.free_now());
    // a file that runs from the first free block to beyond block 4096 (bits in the second bitmap block), small ones behind it
    let n_big = 4096usize.saturating_sub(used0) + 100;
    h.put(rng, "BIG", n_big);
    h.put_len(rng, "KEEP", 3, 100);
    if total.saturating_sub(h.free_now()) > 4096 + 16 { h.mark("allocated-beyond-block-4096"); }
    h.save(rng);
    h.put(rng, "NEW1", 3);
    if h.reload(rng, true) { h.mark("reloaded-in-mid-history"); }
    h.put(rng, "NEW2", 40);
    h.save(rng);
    // block-level rewrite (trait `read_block` / `write_block`) of the second and of the first bitmap block, each right after
    // a save.  (While the bitmap buffer is ahead of the image a raw write to one bitmap block drops what the buffer holds
    // for the other one: observed, outside the properties - design/FS.md section 5; `A2V_RAW_DIRTY=1` leaves out the save
    // before the second rewrite and shows it.)
    h.raw_rewrite(rng, 7);
    h.put_len(rng, "NEW3", 2, 9);
    if std::env::var("A2V_RAW_DIRTY").is_err() { h.save(rng); }
    h.raw_rewrite(rng, 6);
    h.put_len(rng, "NEW4", 2, 9);
    h.save(rng);
    h.save(rng);
    // free and re-use blocks of the second bitmap block
    h.del(rng, "NEW1"); h.del(rng, "NEW2");
    h.save(rng);
    h.put(rng, "MID", 60);
    h.reload(rng, false);
    h.del(rng, "KEEP");
    h.put_idx(rng, "SPARSE", &[0, 300, 5000], 17);
    // (the put of a2kit costs chunks x volume size: the exact fill only where what is left is small)
    if h.free_now() < 3000 { if h.fill_to(rng, 0, "FILL") { h.mark("filled-to-zero"); } h.put(rng, "NOROOM", 1); }
    h.save(rng);
    h.del(rng, "MID");
    h.reload(rng, true);
    h.put(rng, "LAST", 30);
    h.del(rng, "BIG");
    h.save(rng);
    h.put(rng, "LOW", 300);
}

/// a volume another formatter made, first allocations right behind the bitmap, save / reload in mid-history
fn sc_prodos_full_bitmap_block(h: &mut Hist, rng: &mut Rng) {
    h.prodos_load_formatted();
    if h.dead { return; }
    h.put_len(rng, "A", 3, 100);
    h.put(rng, "B", 20);
    h.save(rng);
    h.put_len(rng, "C", 5, 1);
    if h.reload(rng, true) { h.mark("reloaded-in-mid-history"); }
    h.mkdir(rng, "D");
    h.put(rng, "D/E", 2);
    // (A owns the block right behind the bitmap: it stays to the end, through every save and reload)
    h.del(rng, "C");
    h.save(rng);
    h.put(rng, "F", 258);
    h.reload(rng, false);
    h.del(rng, "B");
    h.put_idx(rng, "G", &[0, 513], 40);
    h.del(rng, "F");
    h.save(rng);
}

/// sparse files that begin with a hole: only high indices, one or two chunks, the boundary of the first index structure
fn sc_no_first_chunk(h: &mut Hist, rng: &mut Rng) {
    let fs = h.w.fs();
    let ext = if fs.is_cpm() || fs == Fs::Fat { ".BIN" } else { "" };
    let edge = match fs { Fs::Dos33 | Fs::Dos32 => 122, Fs::Prodos => 256, _ => 16 };
    let pats: Vec<Vec<usize>> = vec![vec![1], vec![2], vec![1, 2], vec![300], vec![edge - 1], vec![edge], vec![edge, edge + 1], vec![1, edge + 5]];
    h.put(rng, &format!("KEEP{}", ext), 3);
    for (k, idx) in pats.iter().enumerate() {
        let name = format!("H{}{}", k, ext);
        if h.put_idx(rng, &name, idx, 1 + (k * 61) % 128) { h.mark("stored-without-first-chunk"); }
        if k % 2 == 0 { h.rename(rng, &name, &format!("R{}{}", k, ext)); }
    }
    // attribute changes on files whose first directory-entry-sized group of chunks is a hole
    for k in [3usize, 5, 7] { let n = format!("H{}{}", k, ext); h.toggle_lock(rng, &n); h.retype(rng, &n, 0); h.toggle_lock(rng, &n); }
    h.save(rng);
    let names: Vec<String> = h.w.files.keys().filter(|n| !n.starts_with("KEEP")).cloned().collect();
    for n in names { h.del(rng, &n); }
}

fn sc_prodos_sparse_fit(h: &mut Hist, rng: &mut Rng) {
    let pats: Vec<(&str, Vec<usize>)> = vec![
        ("DENSE257", (0..257).collect()),
        ("SP300.700", vec![0, 300, 700]),
        ("SP255.257", vec![0, 255, 256, 257]),
        ("SP513", vec![0, 513]),
        ("SP700", vec![0, 700]),
        ("SPMAX", vec![0, 32767]),
        ("NOFIRST300", vec![300]),
        ("NOFIRST1", vec![1]),
    ];
    for (k, (name, idx)) in pats.iter().enumerate() {
        // data blocks + one index block per group of 256 indices that holds data + the master index block
        let end = idx.iter().max().map(|m| m + 1).unwrap_or(1);
        let groups: BTreeSet<usize> = idx.iter().map(|i| i / 256).filter(|g| *g > 0).collect();
        let need = if end <= 256 { idx.len() + 1 } else { idx.len() + 1 + groups.len() + 1 };
        if !h.fill_to(rng, need, "PAD") { h.mark("fill-failed"); return; }
        if h.put_idx(rng, name, idx, 300) { if h.free_now() == 0 { h.mark("exact-fit-accepted"); } h.del(rng, name); }
        // one block short: refused, and nothing changes
        let one = format!("ONE{}", k);
        h.put_len(rng, &one, 1, 9);
        if h.put_idx(rng, name, idx, 300) { h.del(rng, name); } else { h.mark("one-short-refused"); }
        h.del(rng, &one);
    }
}

fn sc_prodos_subdir(h: &mut Hist, rng: &mut Rng) {
    h.mkdir(rng, "D");
    for i in 0..40usize { if !h.put_len(rng, &format!("D/F{:02}", i), 1, 1 + (i * 29) % 512) { break; } }
    if h.files_under("D").len() >= 39 { h.mark("directory-of-4-blocks"); }
    // the key block holds 12 entries, every further block 13: lock + refused delete, rename, retype, delete in every block
    for (b, base) in [0usize, 12, 25, 38].iter().enumerate() {
        let f = |k: usize| format!("D/F{:02}", (base + k).min(39));
        h.toggle_lock(rng, &f(0));
        h.del(rng, &f(0));
        h.rename(rng, &f(1), &format!("R{}", b));
        if b < 3 { h.retype(rng, &f(2), b); h.del(rng, &f(3)); }
        h.toggle_lock(rng, &f(0));
    }
    for b in 0..3 { h.put(rng, &format!("D/NEW{}", b), 2); }
    h.mkdir(rng, "D/SUB");
    h.put(rng, "D/SUB/X", 3);
    if !h.rmdir(rng, "D") { h.mark("nonempty-rmdir-refused"); }
    h.del(rng, "D/SUB/X");
    h.rmdir(rng, "D/SUB");
    for n in h.files_under("D") { h.del(rng, &n); }
    if h.rmdir(rng, "D") { h.mark("grown-directory-deleted"); }
    h.put(rng, "AFTER", 20);
    h.mkdir(rng, "E");
    h.put(rng, "E/Y", 2);
}

fn sc_cpm_extents(h: &mut Hist, rng: &mut Rng) {
    let d = dpb::DiskParameterBlock::create(&h.w.cfg.kind);
    let bls = h.w.chunk_len.max(128);
    let ppe = if d.dsm < 256 { 16 } else { 8 }; // blocks per directory entry (physical extent)
    let lx = (16384 / bls).max(1);              // blocks per logical extent (16K)
    h.put(rng, "A.BIN", ppe);
    h.put(rng, "B.BIN", ppe + 1);
    h.put(rng, "C.BIN", lx);
    h.put_len(rng, "D.BIN", lx + 1, 1);
    // holes that span the rest of a logical extent, a whole physical extent, and the boundary itself
    h.put_idx(rng, "E.BIN", &[0, lx], 100);
    h.put_idx(rng, "F.BIN", &[0, ppe], 128);
    h.put_idx(rng, "G.BIN", &[0, 2 * ppe + 1], 77);
    h.put_idx(rng, "H.BIN", &[0, lx - 1, lx, 3 * ppe - 1], bls);
    // the hole covers the whole first logical extent of the last directory entry, data in its second half
    h.put_idx(rng, "I.BIN", &[0, 1, ppe + lx, ppe + lx + 1, ppe + lx + 2], 300);
    if d.exm > 0 { h.mark("logical-extent-boundaries-exm>0"); } else { h.mark("extent-boundaries-exm0"); }
    h.toggle_lock(rng, "A.BIN");
    h.del(rng, "A.BIN");
    h.rename(rng, "B.BIN", "B2.BIN");
    h.retype(rng, "C.BIN", 0);
    h.toggle_lock(rng, "A.BIN");
    let names: Vec<String> = h.w.files.keys().cloned().collect();
    for n in names { h.del(rng, &n); }
    // the directory: one-block files until two entries are left, then a file that needs two entries
    let slots = d.drm as usize + 1;
    let mut placed = 0;
    for i in 0..slots.saturating_sub(2) { if !h.put_len(rng, &format!("S{:03}.X", i), 1, 1 + i % 128) { break; } placed += 1; }
    if placed + 2 == slots {
        // data in the first and the third directory entry, the second one is a hole: two entries are enough
        if h.put_idx(rng, "Q.BIN", &[0, 2 * ppe], 50) { h.mark("sparse-two-entry-file-into-last-two-slots"); h.del(rng, "Q.BIN"); }
        if h.put(rng, "M.BIN", ppe + 1) {
            h.mark("two-entry-file-into-last-two-slots");
            h.del(rng, "M.BIN");
            h.put_len(rng, "Z.X", 1, 5);
            if !h.put(rng, "M.BIN", ppe + 1) { h.mark("two-entry-file-refused-with-one-slot"); }
            h.put(rng, "N.BIN", ppe);
            if !h.put_len(rng, "Y.X", 1, 5) { h.mark("directory-full"); }
        }
    } else { h.mark("directory-full-early"); }
}

fn sc_cpm_16bit(h: &mut Hist, rng: &mut Rng) {
    let d = dpb::DiskParameterBlock::create(&h.w.cfg.kind);
    if d.dsm >= 256 { h.mark("16-bit-block-pointers"); }
    let total = d.dsm as usize + 1;
    // blocks are handed out first-fit from the directory upwards: a file that ends beyond block 256
    let n_big = (256 + 14).min(total.saturating_sub(20));
    if h.put(rng, "BIG.DAT", n_big) { h.mark("file-owns-blocks>=256"); }
    h.put(rng, "SMALL.DAT", 10);
    h.put_idx(rng, "SP.DAT", &[0, 9, 17], 100);
    h.del(rng, "SMALL.DAT");
    h.put(rng, "MID.DAT", 12);
    h.rename(rng, "BIG.DAT", "BIG2.DAT");
    h.toggle_lock(rng, "MID.DAT");
    h.put_len(rng, "ONE.DAT", 1, 77);
    h.del(rng, "BIG2.DAT");
    h.put(rng, "AGAIN.DAT", 40);
    h.toggle_lock(rng, "MID.DAT");
}

fn sc_prodos_fit_800k(h: &mut Hist, rng: &mut Rng) {
    // 256k+1 blocks: the last chunk opens a fresh index block of a file that is a tree file already
    for (k, n) in [769usize, 513].iter().enumerate() {
        let need = dense_units(Fs::Prodos, *n);
        if !h.fill_to(rng, need, "PAD") { h.mark("fill-failed"); return; }
        let name = format!("SEQ{}", n);
        if h.put(rng, &name, *n) { if h.free_now() == 0 { h.mark("exact-fit-accepted"); } h.del(rng, &name); }
        let one = format!("ONE{}", k);
        h.put_len(rng, &one, 1, 9);
        if h.put(rng, &name, *n) { h.del(rng, &name); } else { h.mark("one-short-refused"); }
        h.del(rng, &one);
    }
}

fn sc_locked_dir(h: &mut Hist, rng: &mut Rng) {
    h.mkdir(rng, "LD");
    h.put_len(rng, "KEEP", 2, 33);
    if h.toggle_lock_dir(rng, "LD") {
        h.mark("directory-locked");
        if !h.rmdir(rng, "LD") { h.mark("locked-rmdir-refused"); }
        if !h.rename_dir(rng, "LD", "NEWD") { h.mark("locked-rename-refused"); }
        h.toggle_lock_dir(rng, "LD");
    } else { h.mark("directory-lock-not-supported"); }
    h.rename_dir(rng, "LD", "NEWD");
    h.mkdir(rng, "NEWD/IN");
    if h.toggle_lock_dir(rng, "NEWD/IN") { h.rmdir(rng, "NEWD/IN"); h.toggle_lock_dir(rng, "NEWD/IN"); }
    h.rmdir(rng, "NEWD/IN");
    h.toggle_lock_dir(rng, "NEWD");
    h.rmdir(rng, "NEWD");
    h.toggle_lock_dir(rng, "NEWD");
    if h.rmdir(rng, "NEWD") { h.mark("unlocked-rmdir-accepted"); }
}

fn sc_fat_full_dir_grows(h: &mut Hist, rng: &mut Rng) {
    let cl = h.w.chunk_len.max(32);
    let per = cl / 32;
    h.mkdir(rng, "SUB");
    for i in 0..per - 2 { if !h.put_len(rng, &format!("SUB/F{:02}.DAT", i), 1, 1 + (i * 41) % cl) { return; } }
    h.mark("directory-exactly-full");
    // one more entry, no data cluster: the only change of the FAT is the link to the new directory cluster
    if h.put_empty(rng, "SUB/Z0.DAT") { h.mark("grown-by-zero-length-file"); }
    h.reload(rng, true);
    for i in 0..per - 1 { if !h.put_len(rng, &format!("SUB/G{:02}.DAT", i), 1, 1 + (i * 43) % cl) { break; } }
    h.save(rng);
    if h.put_empty(rng, "SUB/Z1.DAT") { h.mark("grown-twice-by-zero-length-file"); }
    h.reload(rng, false);
    h.put_empty(rng, "ROOTZ.DAT");
    // growth that survives a refused put: the directory takes the last free cluster, the data does not fit any more
    h.mkdir(rng, "S2");
    for i in 0..per - 2 { if !h.put_len(rng, &format!("S2/F{:02}.DAT", i), 1, 7) { break; } }
    if h.fill_to(rng, 1, "FILL") {
        if !h.put(rng, "S2/BIG.DAT", 2) { h.mark("grown-by-refused-put"); }
        h.reload(rng, true);
        h.put_empty(rng, "S2/Z2.DAT");
        h.reload(rng, true);
    }
}

fn sc_exact_fill(h: &mut Hist, rng: &mut Rng) {
    let ext = if h.w.fs().is_cpm() || h.w.fs() == Fs::Fat { ".BIN" } else { "" };
    let free = h.free_now();
    if free == usize::MAX || free < 8 { return; }
    h.put(rng, &format!("A{}", ext), free / 3);
    h.put(rng, &format!("B{}", ext), free / 4);
    if h.fill_to(rng, 0, "FILL") { h.mark("filled-to-zero-in-second-life"); }
    h.put_len(rng, &format!("NOROOM{}", ext), 1, 5);
    h.del(rng, &format!("A{}", ext));
    if h.fill_to(rng, 0, "FILL") { h.mark("refilled-to-zero"); }
}

fn sc_pascal_gaps(h: &mut Hist, rng: &mut Rng) {
    h.put(rng, "A", 60); h.put(rng, "B", 60); h.put(rng, "C", 60);
    let rest = h.free_now();
    if rest == usize::MAX || rest == 0 { return; }
    // the last file ends on the last block of the volume
    h.put_len(rng, "D", rest, 1);
    if h.free_now() == 0 { h.mark("full-last-block-used"); }
    h.del(rng, "B");
    if !h.put(rng, "E", 61) { h.mark("gap+1-refused"); }
    if h.put(rng, "E", 60) { h.mark("exact-gap-accepted"); }
    h.del(rng, "A"); h.del(rng, "E");
    if h.put(rng, "F", 120) { h.mark("merged-gap-accepted"); }
    h.del(rng, "D");
    if h.put(rng, "G", rest) { h.mark("tail-refilled"); }
    h.put(rng, "X", 1);
    h.del(rng, "C");
    h.put(rng, "H", 59); h.put_len(rng, "I", 1, 300);
    h.rename(rng, "H", "H2");
    h.retype(rng, "I", 1);
}

fn slow_cfg(cfg: &VolCfg) -> bool { matches!(cfg.container, "woz1" | "woz2" | "nib" | "2mg-nib") || cfg.kind == names::A2_HD_MAX }
fn lean_supported(fs: Fs) -> bool { std::env::var("A2V_LEAN_FS").map(|s| s.split(',').any(|x| x == fs.id())).unwrap_or(true) }

fn choose_op(w: &mut World, rng: &mut Rng, free: usize, focus: Focus) -> Op {
    if let Some(op) = w.forced.pop() { return op; }
    let fs = w.fs();
    let existing: Vec<String> = w.files.keys().cloned().collect();
    let r = rng.below(100);
    let have = !existing.is_empty();
    let pick = |rng: &mut Rng| existing[rng.below(existing.len())].clone();
    let lockw = if focus == Focus::C19 { 30 } else { 8 };
    if !have || r < 38 {
        if fs.has_dirs() && rng.chance(if w.dirs.len() < 2 { 25 } else { 6 }) { return Op::Mkdir(gen_dirname(fs, rng, &w.dirs)); }
        let n = gen_nchunks(fs, rng, free, focus);
        let mut path = gen_name(fs, rng, &w.dirs);
        if fs.is_cpm() && have && rng.chance(30) {
            // the same 8+3 name in another user area (entries of different users must never be confused)
            let other = pick(rng);
            let base = other.split(':').last().unwrap().to_string();
            let u = rng.range(0, 15);
            path = if u == 0 { base } else { format!("{}:{}", u, base) };
        }
        let holes = fs.has_holes() && rng.chance(25) && n > 2;
        return Op::Put { path, nchunks: n, holes, last_len: if rng.chance(40) { w.chunk_len } else { rng.range(1, w.chunk_len.max(1)) }, ftype_sel: rng.below(64), idx: None };
    }
    if r < 52 { return Op::Delete(pick(rng)); }
    if r < 62 { let p = pick(rng); let base = gen_name(fs, rng, &BTreeSet::new()); return Op::Rename(p, base); }
    if r < 62 + lockw && fs.has_lock() { let p = pick(rng); return if w.files[&p].locked || rng.chance(30) { Op::Unlock(p) } else { Op::Lock(p) }; }
    if r < 78 {
        if fs == Fs::Cpm3 { let p = pick(rng); return if rng.chance(55) { Op::Protect(p) } else { Op::Unprotect(p) }; }
        return Op::Retype(pick(rng), rng.below(64));
    }
    if r < 84 { return Op::PutDup(pick(rng)); }
    if r < 89 && existing.len() >= 2 { let a = pick(rng); let b = pick(rng); if a != b { return Op::RenameOnto(a, b); } }
    // Pascal: a file image the 16-bit directory fields cannot record (length beyond the chunks, over-long chunk, length too short)
    if fs == Fs::Pascal && r < 93 && rng.chance(40) { return Op::PutBad(rng.below(3)); }
    if r < 93 { return Op::GetMissing(gen_name(fs, rng, &w.dirs)); }
    if r < 96 { return Op::DeleteMissing(gen_name(fs, rng, &w.dirs)); }
    Op::Delete(pick(rng))
}

/// another legal spelling of an existing path: the case-insensitive file systems must treat it as the same file
fn spell(fs: Fs, cp: &str, rng: &mut Rng) -> String {
    if fs.is_dos() || !rng.chance(35) { return cp.to_string(); }
    let mut out = String::new();
    let all = rng.chance(50);
    for ch in cp.chars() { if ch.is_ascii_uppercase() && (all || rng.chance(50)) { out.push(ch.to_ascii_lowercase()); } else { out.push(ch); } }
    if fs.is_cpm() && !out.contains(':') && rng.chance(30) { out = format!("0:{}", out); }
    out
}
fn clone_fimg(f: &FileImage) -> FileImage {
    FileImage { fimg_version: f.fimg_version.clone(), file_system: f.file_system.clone(), chunk_len: f.chunk_len, eof: f.eof.clone(), fs_type: f.fs_type.clone(), aux: f.aux.clone(), access: f.access.clone(),
        accessed: f.accessed.clone(), created: f.created.clone(), modified: f.modified.clone(), version: f.version.clone(), min_version: f.min_version.clone(), full_path: f.full_path.clone(),
        chunks: f.chunks.iter().map(|(k, v)| (*k, v.clone())).collect() }
}
fn hxs(s: &str) -> String { hx(s.as_bytes()) }
fn type_num(fs: Fs, r: &RefFile) -> (usize, usize) {
    match fs {
        Fs::Dos33 | Fs::Dos32 => (r.ftype.first().map(|b| (*b & 0x7f) as usize).unwrap_or(0), 0),
        Fs::Prodos => (r.ftype.first().map(|b| *b as usize).unwrap_or(0), r.aux.get(0).map(|b| *b as usize).unwrap_or(0) + 256 * r.aux.get(1).map(|b| *b as usize).unwrap_or(0)),
        Fs::Pascal => (r.ftype.get(0).map(|b| *b as usize).unwrap_or(0) + 256 * r.ftype.get(1).map(|b| *b as usize).unwrap_or(0), 0),
        _ => (0, 0),
    }
}
fn res_tok<T>(r: &Result<Result<T, String>, String>) -> &'static str { match r { Ok(Ok(_)) => "ok", _ => "err" } }
fn hist_len_even(w: &World) -> bool { w.hist.len() % 2 == 0 }
fn parent_of(p: &str) -> Option<String> { p.rfind('/').map(|i| p[..i].to_string()) }
fn base_of(p: &str) -> String { match p.rfind('/') { Some(i) => p[i + 1..].to_string(), None => p.to_string() } }

fn build_fimg(w: &mut World, path: &str, nchunks: usize, holes: bool, last_len: usize, ftype_sel: usize, rng: &mut Rng, idx: Option<&[usize]>) -> Result<(FileImage, RefFile), String> {
    let fs = w.fs();
    let mut fimg = guarded(|| w.disk.new_fimg(None, true, path).map_err(|e| e.to_string()))??;
    let cl = fimg.chunk_len;
    let mut chunks = BTreeMap::new();
    let nchunks = match idx { Some(ix) => ix.iter().max().map(|m| m + 1).unwrap_or(1), None => nchunks };
    if let Some(ix) = idx {
        // scripted sparse pattern: exactly these chunk indices
        for i in ix { let len = if i + 1 == nchunks { last_len.min(cl).max(1) } else { cl }; chunks.insert(*i, gen_chunk(rng, len)); }
    } else {
        // a sparse file need not have its first chunk (the hole is then at the start of the file)
        let drop0 = holes && nchunks > 1 && rng.chance(30);
        for i in 0..nchunks {
            let keep = !holes || (i == 0 && !drop0) || i + 1 == nchunks || (i > 0 && rng.chance(55));
            if keep {
                let len = if i + 1 == nchunks { last_len.min(cl).max(1) } else { cl };
                chunks.insert(i, gen_chunk(rng, len));
            }
        }
    }
    let eof = (nchunks - 1) * cl + chunks[&(nchunks - 1)].len();
    let (ft, aux, acc) = ftype_for(fs, ftype_sel, path);
    if !ft.is_empty() { fimg.fs_type = ft; }
    if !aux.is_empty() { fimg.aux = aux; }
    if let Some(a) = acc { fimg.access = a; }
    // CP/M: attribute bits live in the high bits of the 8+3 name bytes (F1, F3, SYS here; R/O is what `lock` sets)
    if fs.is_cpm() && fimg.access.len() == 11 {
        if ftype_sel & 1 != 0 { fimg.access[9] |= 0x80; }
        if ftype_sel & 2 != 0 { fimg.access[0] |= 0x80; }
        if ftype_sel & 4 != 0 { fimg.access[2] |= 0x80; }
        fimg.fs_type = fimg.access[8..11].to_vec();
    }
    for (i, d) in &chunks { fimg.chunks.insert(*i, d.clone()); }
    if !fs.is_dos() { fimg.set_eof(eof); }
    let r = RefFile { chunks, eof, ftype: fimg.fs_type.clone(), aux: fimg.aux.clone(), access: fimg.access.clone(), locked: false };
    Ok((fimg, r))
}

/// how many allocation units the file needs, counting the file system's own index overhead
fn need_units(w: &World, r: &RefFile) -> usize {
    let n = r.chunks.len();
    let end = r.chunks.keys().max().map(|m| m + 1).unwrap_or(0);
    match w.fs() {
        Fs::Dos33 | Fs::Dos32 => n + (end + 121) / 122,
        // data blocks; the index block of the first 256 indices as soon as the file is longer than one block (it is
        // allocated whether or not it points to data); for a tree file the master index block and one index block for every
        // further group of 256 indices that holds data
        Fs::Prodos => { if end <= 1 { 1 } else if end <= 256 { n + 1 } else { let idx: BTreeSet<usize> = r.chunks.keys().map(|k| k / 256).filter(|g| *g > 0).collect(); n + 1 + idx.len() + 1 } }
        Fs::Pascal => end,
        // the chunk is the allocation block / cluster; CP/M extents and FAT directory slots are counted separately by a2kit
        Fs::Cpm2 | Fs::Cpm3 => n,
        Fs::Fat => end,
    }
}

fn apply_op(w: &mut World, op: Op, rng: &mut Rng, free: usize, vd: &mut Verdicts, nontrivial: &mut bool) -> String {
    let fs = w.fs();
    match op {
        Op::Put { path, nchunks, holes, last_len, ftype_sel, idx } => {
            let holes = holes || idx.is_some();
            let (fimg, r) = match build_fimg(w, &path, nchunks, holes, last_len, ftype_sel, rng, idx.as_deref()) {
                Ok(x) => x,
                Err(e) => { let d = format!("put {} n={} => new_fimg:{}", path, nchunks, err_class(&e)); if e.contains(".rs:") { vd.panic(&e, "new_fimg", &w.hist.clone()); } w.hist.push(d.clone()); return d; }
            };
            let cp = canon_path(fs, &path);
            let dup = w.files.contains_key(&cp) || w.dirs.contains(&cp);
            let res = guarded(|| w.disk.put(&fimg).map_err(|e| e.to_string()));
            let d = format!("put {} chunks={}{} eof={} type={} => {}", path, r.chunks.len(), if holes { "(holes)" } else { "" }, r.eof, hx(&r.ftype), match &res { Ok(Ok(_)) => "ok".to_string(), Ok(Err(e)) => format!("err:{}", err_class(e)), Err(_) => "PANIC".to_string() });
            w.hist.push(d.clone());
            {
                let (ty, aux) = type_num(fs, &r);
                let cs = if res_tok(&res) == "ok" { r.chunks.iter().map(|(i, c)| format!("{}:{}", i, hx(c))).collect::<Vec<_>>().join(",") } else { "-".to_string() };
                w.lean_op = Some(format!("put {} {} {} {} {} {}", hxs(&cp), res_tok(&res), r.eof, ty, aux, cs));
                w.last_op = Some(OpRecord::new("put", &path, &cp, "", "", &res).with_fimg(&fimg));
                if fs == Fs::Pascal {
                    let okp = res_tok(&res) == "ok";
                    let pcs = r.chunks.iter().map(|(i, c)| if okp { format!("{}:{}", i, hx(c)) } else { format!("{}:-", i) }).collect::<Vec<_>>().join(",");
                    w.pas_op = Some((format!("put {} {} {} {} {} {}", hxs(&path), fimg.get_ftype(), fimg.get_eof(), hx(&pas_date()), pas_res(&res), pcs), None));
                }
                if fs.is_dos() {
                    let okp = res_tok(&res) == "ok";
                    let dcs = r.chunks.iter().map(|(i, c)| if okp { format!("{}:{}", i, hx(c)) } else { format!("{}:-", i) }).collect::<Vec<_>>().join(",");
                    w.dos_op = Some((format!("put {} {} {} {}", hxs(&path), hx(&fimg.fs_type), dos_res(&res), dcs), None));
                }
            }
            match res {
                Err(p) => { vd.panic(&p, "put", &w.hist.clone()); return format!("ABORT {}", d); }
                Ok(Ok(_)) => {
                    if dup { vd.v(Focus::C05, false, "duplicate-put-refused", &format!("put onto existing {} succeeded", cp), &w.hist.clone()); return format!("ABORT {}", d); }
                    vd.v(Focus::C05, true, "duplicate-put-refused", "", &[]);
                    w.files.insert(cp.clone(), r.clone());
                    if r.chunks.len() > 1 { *nontrivial = true; }
                    // C01: immediate read-back
                    match w.get(&path) {
                        Err(p) => vd.panic(&p, "get", &w.hist.clone()),
                        Ok(Err(e)) => vd.v(Focus::C01, false, "get-after-put", &format!("get {} failed: {}", path, e), &w.hist.clone()),
                        Ok(Ok(g)) => match w.compare(&cp, &r, &g) { Some(diff) => vd.v(Focus::C01, false, "get-after-put", &diff, &w.hist.clone()), None => vd.v(Focus::C01, true, "get-after-put", "", &[]) }
                    }
                    // C04: free space went down by exactly the requirement where the unit is the chunk
                    let need = need_units(w, &r);
                    // a directory that had no free slot grows by one block/cluster during the put: that unit is reachable
                    // from the directory, so it is not a leak (the reader's accounting oracle checks exactly that)
                    let grow = if fs.has_dirs() && cp.contains('/') { 1 } else { 0 };
                    if need != usize::MAX { if let Ok(f2) = w.free() { let ok = free >= f2 && (free - f2 == need || free - f2 == need + grow); vd.v(Focus::C04, ok, "put-consumes-need", &format!("free {}->{} need={}", free, f2, need), &w.hist.clone()); } }
                }
                Ok(Err(e)) => {
                    // C04: a file that fits must be accepted
                    let need = need_units(w, &r);
                    let cls = err_class(&e);
                    // "for which a directory slot exists": DOS 3.x reports a full catalog as DISK FULL, so the catalog
                    // capacity (7 entries per catalog sector: 15 sectors on 16-sector disks, 12 on 13-sector disks) is checked here
                    let slot = match fs { Fs::Dos33 => w.files.len() < 105, Fs::Dos32 => w.files.len() < 84, _ => true };
                    // a ProDOS file is at most 128 index blocks x 256 blocks with a 24-bit end of file: beyond that the
                    // refusal (reported as DISK FULL) is correct however much room there is
                    let end_idx = r.chunks.keys().max().map(|m| m + 1).unwrap_or(0);
                    let representable = match fs { Fs::Prodos => end_idx <= 32768 && r.eof < (1 << 24), _ => true };
                    // CP/M 2.2: "and for which a directory slot exists" can be decided - a file takes one directory entry for every
                    // entry-sized group of chunk indices that holds data (at least one), the directory has DRM + 1 entries
                    if fs == Fs::Cpm2 && cls == "dirfull" && !dup && need <= free {
                        let dp = dpb::DiskParameterBlock::create(&w.cfg.kind);
                        let ppe = if dp.dsm < 256 { 16 } else { 8 };
                        let ents = |r: &RefFile| r.chunks.keys().map(|k| k / ppe).collect::<BTreeSet<usize>>().len().max(1);
                        let used: usize = w.files.values().map(|f| ents(f)).sum();
                        let slots = dp.drm as usize + 1;
                        if used + ents(&r) <= slots { vd.v(Focus::C04, false, "fits-is-accepted", &format!("needs {} directory entries, {} of {} are free, {} blocks of {} free: refused: {}", ents(&r), slots - used, slots, need, free, e), &w.hist.clone()); }
                        else { vd.v(Focus::C04, true, "fits-is-accepted", "", &[]); }
                    }
                    // a file that fits is "accepted rather than rejected or crashing": a refusal with a device-level error (the
                    // write-back ran into a sector that does not exist, ...) is as much a rejection as DISK FULL
                    let el = e.to_lowercase();
                    let device_error = el.contains("unable to access") || el.contains("i/o error") || el.contains("failed to complete read or write");
                    if !dup && need != usize::MAX && device_error && slot && representable {
                        let grow = if fs.has_dirs() && cp.contains('/') { 1 } else { 0 };
                        if fs != Fs::Pascal && need + grow <= free { vd.v(Focus::C04, false, "fits-is-accepted", &format!("need={} free={} refused with a device error: {}", need, free, e), &w.hist.clone()); }
                    }
                    if !dup && need != usize::MAX && cls == "full" && slot && representable {
                        // a full sub-directory has to grow by one unit first: that is part of the file system's own overhead
                        let grow = if fs.has_dirs() && cp.contains('/') { 1 } else { 0 };
                        let fits = if fs == Fs::Pascal { false } else { need + grow <= free };
                        if fits { vd.v(Focus::C04, false, "fits-is-accepted", &format!("need={} free={} refused: {}", need, free, e), &w.hist.clone()); }
                        else { vd.v(Focus::C04, true, "fits-is-accepted", "", &[]); }
                        if need > free { *nontrivial = true; }
                    }
                }
            }
            d
        }
        Op::PutDup(cp) => {
            let r = w.files[&cp].clone();
            let sp = spell(fs, &cp, rng);
            let mut pas_args = None;
            let mut dos_args = None;
            let mut dup_fimg: Option<FileImage> = None;
            let res = match build_fimg(w, &sp, 1, false, 7, 1, rng, None) { Ok((f, _)) => { pas_args = Some((f.get_ftype(), f.get_eof())); dos_args = Some(hx(&f.fs_type)); dup_fimg = Some(clone_fimg(&f)); guarded(|| w.disk.put(&f).map_err(|e| e.to_string())) }, Err(e) => Ok(Err(e)) };
            let d = format!("put-dup {} => {}", sp, match &res { Ok(Ok(_)) => "ok".to_string(), Ok(Err(e)) => format!("err:{}", err_class(e)), Err(_) => "PANIC".to_string() });
            w.hist.push(d.clone());
            w.lean_op = Some(format!("put {} {} 0 0 0 -", hxs(&cp), res_tok(&res)));
            w.last_op = Some({ let mut o = OpRecord::new("put", &sp, &cp, "", "", &res); if let Some(f) = dup_fimg.as_ref() { o = o.with_fimg(f); } o });
            if let (true, Some(ft)) = (fs.is_dos(), dos_args) { w.dos_op = Some((format!("put {} {} {} 0:-", hxs(&sp), ft, dos_res(&res)), None)); }
            if let (Fs::Pascal, Some((ft, eof))) = (fs, pas_args) { w.pas_op = Some((format!("put {} {} {} {} {} 0:-", hxs(&sp), ft, eof, hx(&pas_date()), pas_res(&res)), None)); }
            match res {
                Err(p) => { vd.panic(&p, "put", &w.hist.clone()); return format!("ABORT {}", d); }
                Ok(Ok(_)) => { vd.v(Focus::C05, false, "duplicate-put-refused", &format!("put onto existing {} succeeded", cp), &w.hist.clone()); return format!("ABORT {}", d); }
                Ok(Err(_)) => {
                    vd.v(Focus::C05, true, "duplicate-put-refused", "", &[]);
                    if r.locked { vd.v(Focus::C19, true, "locked-refuses-overwrite", "", &[]); }
                }
            }
            d
        }
        Op::Delete(cp) => {
            let locked = w.files[&cp].locked;
            let sp = spell(fs, &cp, rng);
            let res = guarded(|| w.disk.delete(&sp).map_err(|e| e.to_string()));
            let d = format!("delete {}{} => {}", sp, if locked { "(locked)" } else { "" }, match &res { Ok(Ok(_)) => "ok".to_string(), Ok(Err(e)) => format!("err:{}", err_class(e)), Err(_) => "PANIC".to_string() });
            w.hist.push(d.clone());
            w.lean_op = Some(format!("delete {} {}", hxs(&cp), res_tok(&res)));
            w.last_op = Some(OpRecord::new("delete", &sp, &cp, "", "", &res));
            if fs == Fs::Pascal { w.pas_op = Some((format!("delete {} {}", hxs(&sp), pas_res(&res)), None)); }
            if fs.is_dos() { w.dos_op = Some((format!("delete {} {}", hxs(&sp), dos_res(&res)), None)); }
            match res {
                Err(p) => { vd.panic(&p, "delete", &w.hist.clone()); return format!("ABORT {}", d); }
                Ok(Ok(_)) => {
                    if locked { vd.v(Focus::C19, false, "locked-refuses-delete", &format!("locked file {} was deleted", cp), &w.hist.clone()); }
                    let r = w.files.remove(&cp).unwrap();
                    let need = need_units(w, &r);
                    if need != usize::MAX { if let Ok(f2) = w.free() { vd.v(Focus::C04, f2 == free + need, "delete-restores-free", &format!("free {}->{} need={}", free, f2, need), &w.hist.clone()); } }
                    match w.get(&cp) { Ok(Ok(_)) => vd.v(Focus::C05, false, "deleted-not-fetchable", &format!("{} still fetchable", cp), &w.hist.clone()), Err(p) => vd.panic(&p, "get", &w.hist.clone()), _ => vd.v(Focus::C05, true, "deleted-not-fetchable", "", &[]) }
                }
                Ok(Err(e)) => {
                    if locked { vd.v(Focus::C19, true, "locked-refuses-delete", "", &[]); }
                    else { vd.v(Focus::C05, false, "delete-existing-succeeds", &format!("delete {} refused: {}", cp, e), &w.hist.clone()); }
                }
            }
            d
        }
        Op::Rename(cp, newbase) => {
            let newbase_c = base_of(&canon_path(fs, &newbase));
            // CP/M: the new name is an xname; without a user prefix it means user 0 (rename can move a file between user areas)
            let newbase_arg = if fs.is_cpm() { let nb = base_of(&newbase).split(':').last().unwrap().to_string(); if cp.contains(':') && hist_len_even(w) { format!("{}:{}", cp.split(':').next().unwrap(), nb) } else { nb } } else { base_of(&newbase) };
            let target = if fs.is_cpm() { canon_path(fs, &newbase_arg) } else { match parent_of(&cp) { Some(par) => format!("{}/{}", par, newbase_c), None => newbase_c.clone() } };
            let locked = w.files[&cp].locked;
            let dup = w.files.contains_key(&target) || w.dirs.contains(&target);
            let sp = spell(fs, &cp, rng);
            let res = guarded(|| w.disk.rename(&sp, &newbase_arg).map_err(|e| e.to_string()));
            let d = format!("rename {}{} -> {} => {}", sp, if locked { "(locked)" } else { "" }, newbase_arg, match &res { Ok(Ok(_)) => "ok".to_string(), Ok(Err(e)) => format!("err:{}", err_class(e)), Err(_) => "PANIC".to_string() });
            w.hist.push(d.clone());
            w.lean_op = Some(format!("rename {} {} {}", hxs(&cp), hxs(&target), res_tok(&res)));
            w.last_op = Some(OpRecord::new("rename", &sp, &cp, &newbase_arg, &target, &res));
            if fs == Fs::Pascal { w.pas_op = Some((format!("rename {} {} {}", hxs(&sp), hxs(&newbase_arg), pas_res(&res)), None)); }
            if fs.is_dos() { w.dos_op = Some((format!("rename {} {} {}", hxs(&sp), hxs(&newbase_arg), dos_res(&res)), None)); }
            match res {
                Err(p) => { vd.panic(&p, "rename", &w.hist.clone()); return format!("ABORT {}", d); }
                Ok(Ok(_)) => {
                    if dup && target != cp { vd.v(Focus::C05, false, "rename-onto-existing-refused", &format!("{} -> {} succeeded", cp, target), &w.hist.clone()); return format!("ABORT {}", d); }
                    if locked { vd.v(Focus::C19, false, "locked-refuses-rename", &format!("locked file {} was renamed", cp), &w.hist.clone()); }
                    let mut r = w.files.remove(&cp).unwrap();
                    if fs.is_cpm() || fs == Fs::Fat { r.ftype = vec![]; r.access = vec![]; }
                    w.files.insert(target, r);
                }
                Ok(Err(_)) => { if locked { vd.v(Focus::C19, true, "locked-refuses-rename", "", &[]); } }
            }
            d
        }
        Op::RenameOnto(a, b) => {
            let nb = base_of(&b);
            let nb_arg = if fs.is_cpm() { b.clone() } else { nb.clone() };
            let same_dir = if fs.is_cpm() { true } else { parent_of(&a) == parent_of(&b) };
            let res = guarded(|| w.disk.rename(&a, &nb_arg).map_err(|e| e.to_string()));
            let d = format!("rename-onto {} -> {} => {}", a, nb_arg, match &res { Ok(Ok(_)) => "ok".to_string(), Ok(Err(e)) => format!("err:{}", err_class(e)), Err(_) => "PANIC".to_string() });
            w.hist.push(d.clone());
            {
                let tgt = if fs.is_cpm() { canon_path(fs, &nb_arg) } else { match parent_of(&a) { Some(par) => format!("{}/{}", par, nb), None => nb.clone() } };
                w.lean_op = Some(format!("rename {} {} {}", hxs(&a), hxs(&tgt), res_tok(&res)));
                w.last_op = Some(OpRecord::new("rename", &a, &a, &nb_arg, &tgt, &res));
                if fs == Fs::Pascal { w.pas_op = Some((format!("rename {} {} {}", hxs(&a), hxs(&nb_arg), pas_res(&res)), None)); }
                if fs.is_dos() { w.dos_op = Some((format!("rename {} {} {}", hxs(&a), hxs(&nb_arg), dos_res(&res)), None)); }
            }
            match res {
                Err(p) => { vd.panic(&p, "rename", &w.hist.clone()); return format!("ABORT {}", d); }
                Ok(Ok(_)) => {
                    if same_dir { vd.v(Focus::C05, false, "rename-onto-existing-refused", &format!("{} -> {} succeeded", a, b), &w.hist.clone()); return format!("ABORT {}", d); }
                    let target = if fs.is_cpm() { let user = if a.contains(':') { a.split(':').next().unwrap().to_string() } else { "0".to_string() }; canon_path(fs, &format!("{}:{}", user, nb_arg)) } else { match parent_of(&a) { Some(par) => format!("{}/{}", par, nb), None => nb.clone() } };
                    if w.files.contains_key(&target) { vd.v(Focus::C05, false, "rename-onto-existing-refused", &format!("{} -> {} succeeded", a, target), &w.hist.clone()); return format!("ABORT {}", d); }
                    let mut r = w.files.remove(&a).unwrap();
                    if fs.is_cpm() || fs == Fs::Fat { r.ftype = vec![]; r.access = vec![]; }
                    w.files.insert(target, r);
                }
                Ok(Err(_)) => { if same_dir { vd.v(Focus::C05, true, "rename-onto-existing-refused", "", &[]); } }
            }
            d
        }
        Op::Lock(cp) | Op::Unlock(cp) => toggle_lock(w, cp, vd, rng),
        Op::Retype(cp, sel) => {
            let (typ, sub) = match fs {
                Fs::Dos33 | Fs::Dos32 => ([ "txt", "bin", "atok", "itok" ][sel % 4].to_string(), String::new()),
                Fs::Prodos => ([ "txt", "bin", "atok", "sys" ][sel % 4].to_string(), format!("{}", sel * 97 % 65536)),
                Fs::Pascal => ([ "txt", "bin", "pcode" ][sel % 3].to_string(), String::new()),
                Fs::Cpm2 | Fs::Cpm3 => ([ "sys", "dir", "txt" ][sel % 3].to_string(), String::new()),
                // FAT: system attribute on / off ("txt" is not a FAT type: refused)
                Fs::Fat => ([ "sys", "reg", "txt" ][sel % 3].to_string(), String::new()),
            };
            let locked = w.files[&cp].locked;
            let res = guarded(|| w.disk.retype(&cp, &typ, &sub).map_err(|e| e.to_string()));
            let d = format!("retype {} {} {} => {}", cp, typ, sub, match &res { Ok(Ok(_)) => "ok".to_string(), Ok(Err(e)) => format!("err:{}", err_class(e)), Err(_) => "PANIC".to_string() });
            w.hist.push(d.clone());
            w.lean_op = Some(format!("retype {} {}", hxs(&cp), res_tok(&res)));
            w.last_op = Some(OpRecord::new("retype", &cp, &cp, &typ, &sub, &res));
            if fs.is_dos() { let code = match typ.as_str() { "txt" => "0", "itok" => "1", "atok" => "2", "bin" => "4", _ => "none" }; w.dos_op = Some((format!("retype {} {} {}", hxs(&cp), code, dos_res(&res)), None)); }
            if fs == Fs::Pascal { let code = match typ.as_str() { "txt" => "3", "bin" => "5", "pcode" => "2", _ => "none" }; w.pas_op = Some((format!("retype {} {} {}", hxs(&cp), code, pas_res(&res)), None)); }
            match res {
                Err(p) => { vd.panic(&p, "retype", &w.hist.clone()); return format!("ABORT {}", d); }
                Ok(Ok(_)) => {
                    // rebase type/aux from what the volume now reports; content must be untouched (checked by bystander/all-files oracles)
                    if fs.is_cpm() { let r = w.files.get_mut(&cp).unwrap(); if r.access.len() == 11 { match typ.as_str() { "sys" => r.access[9] |= 0x80, "dir" => r.access[9] &= 0x7f, _ => {} } } }
                    if let Ok(Ok(g)) = w.get(&cp) { let r = w.files.get_mut(&cp).unwrap(); r.ftype = g.fs_type.clone(); r.aux = g.aux.clone(); if fs.is_dos() && locked { /* retype clears lock bit in a2kit's DOS: observed, see design */ r.locked = g.fs_type.first().map(|b| b & 0x80 != 0).unwrap_or(false); } }
                }
                Ok(Err(_)) => {}
            }
            d
        }
        Op::Protect(cp) => protect_op(w, cp, true, vd, rng),
        Op::Unprotect(cp) => protect_op(w, cp, false, vd, rng),
        Op::Mkdir(p) => {
            let cp = canon_path(fs, &p);
            let dup = w.files.contains_key(&cp) || w.dirs.contains(&cp);
            let res = guarded(|| w.disk.create(&p).map_err(|e| e.to_string()));
            let d = format!("mkdir {} => {}", p, match &res { Ok(Ok(_)) => "ok".to_string(), Ok(Err(e)) => format!("err:{}", err_class(e)), Err(_) => "PANIC".to_string() });
            w.hist.push(d.clone());
            w.lean_op = Some(format!("mkdir {} {}", hxs(&cp), res_tok(&res)));
            w.last_op = Some(OpRecord::new("mkdir", &p, &cp, "", "", &res));
            match res {
                Err(pn) => { vd.panic(&pn, "mkdir", &w.hist.clone()); return format!("ABORT {}", d); }
                Ok(Ok(_)) => { if dup { vd.v(Focus::C05, false, "duplicate-mkdir-refused", &format!("mkdir onto existing {}", cp), &w.hist.clone()); return format!("ABORT {}", d); } w.dirs.insert(cp); }
                Ok(Err(_)) => {}
            }
            d
        }
        Op::PutBad(kind) => {
            // a file image that cannot be recorded must be refused before anything is written (C01: never "stored as something else",
            // C02: the other files stay intact — checked by the bystander oracle and, byte for byte, by the concrete-model tie)
            let name = gen_name(fs, rng, &BTreeSet::new());
            let cp = canon_path(fs, &name);
            if w.files.contains_key(&cp) || w.dirs.contains(&cp) { return String::from("skip"); }
            let mut fimg = match guarded(|| w.disk.new_fimg(None, true, &name).map_err(|e| e.to_string())) { Ok(Ok(f)) => f, _ => return String::from("skip") };
            fimg.fs_type = vec![5, 0];
            match kind {
                0 => { fimg.chunks.insert(0, gen_chunk(rng, 512)); fimg.chunks.insert(1, gen_chunk(rng, 7)); fimg.set_eof(2 * 512 + 1 + rng.below(5000)); }
                1 => { fimg.chunks.insert(0, gen_chunk(rng, 513)); fimg.chunks.insert(1, gen_chunk(rng, 10)); fimg.set_eof(522); }
                2 => { for i in 0..200usize { fimg.chunks.insert(i, vec![(i & 0xff) as u8]); } fimg.set_eof(1 + rng.below(30000)); }
                _ => { for i in 0..65536usize { fimg.chunks.insert(i, vec![(i & 0xff) as u8]); } fimg.set_eof(512 * 65536 - 511); }
            }
            let res = guarded(|| w.disk.put(&fimg).map_err(|e| e.to_string()));
            let d = format!("put-bad {} kind={} chunks={} eof={} => {}", name, kind, fimg.chunks.len(), fimg.get_eof(), match &res { Ok(Ok(_)) => "ok".to_string(), Ok(Err(e)) => format!("err:{}", err_class(e)), Err(_) => "PANIC".to_string() });
            w.hist.push(d.clone());
            w.lean_op = Some(format!("put {} {} 0 0 0 -", hxs(&cp), res_tok(&res)));
            if fs == Fs::Pascal {
                let mut keys: Vec<usize> = fimg.chunks.keys().cloned().collect();
                keys.sort();
                let pcs = keys.iter().map(|i| format!("{}:{}", i, hx(&fimg.chunks[i]))).collect::<Vec<_>>().join(",");
                w.pas_op = Some((format!("put {} {} {} {} {} {}", hxs(&name), fimg.get_ftype(), fimg.get_eof(), hx(&pas_date()), pas_res(&res), pcs), None));
            }
            match res {
                Err(p) => { vd.panic(&p, "put", &w.hist.clone()); return format!("ABORT {}", d); }
                Ok(Ok(_)) => { for f in [Focus::C01, Focus::C02] { vd.v(f, false, "unrecordable-put-refused", &format!("put of a file image that cannot be recorded was accepted: {}", d), &w.hist.clone()); } return format!("ABORT {}", d); }
                Ok(Err(_)) => { for f in [Focus::C01, Focus::C02] { vd.v(f, true, "unrecordable-put-refused", "", &[]); } }
            }
            d
        }
        Op::DeleteDir(cp) => {
            // the directory branch of `delete`: an empty directory goes away and gives its blocks back, a directory that
            // still has entries is refused and nothing changes (C02, C05; the per-step spec and the byte-exact models see both)
            let prefix = format!("{}/", cp);
            let nonempty = w.files.keys().any(|k| k.starts_with(&prefix)) || w.dirs.iter().any(|k| k.starts_with(&prefix));
            let locked = w.locked_dirs.contains(&cp);
            let sp = spell(fs, &cp, rng);
            let res = guarded(|| w.disk.delete(&sp).map_err(|e| e.to_string()));
            let d = format!("delete-dir {}{}{} => {}", sp, if nonempty { "(non-empty)" } else { "" }, if locked { "(locked)" } else { "" }, match &res { Ok(Ok(_)) => "ok".to_string(), Ok(Err(e)) => format!("err:{}", err_class(e)), Err(_) => "PANIC".to_string() });
            w.hist.push(d.clone());
            w.lean_op = Some(format!("delete {} {}", hxs(&cp), res_tok(&res)));
            w.last_op = Some(OpRecord::new("delete", &sp, &cp, "", "", &res));
            match res {
                Err(p) => { vd.panic(&p, "delete", &w.hist.clone()); return format!("ABORT {}", d); }
                Ok(Ok(_)) => {
                    if nonempty {
                        for f in [Focus::C02, Focus::C05] { vd.v(f, false, "nonempty-directory-delete-refused", &format!("directory {} still has entries and was deleted", cp), &w.hist.clone()); }
                        return format!("ABORT {}", d);
                    }
                    // a protected object cannot be deleted until it is unlocked, directories included
                    if locked { vd.v(Focus::C19, false, "locked-refuses-delete", &format!("locked directory {} was deleted", cp), &w.hist.clone()); }
                    w.dirs.remove(&cp); w.locked_dirs.remove(&cp);
                    // at least the key block / first cluster comes back (a grown directory gives back more; the reader's
                    // accounting oracle `free-equals-unreachable` checks the exact number)
                    if let Ok(f2) = w.free() { vd.v(Focus::C04, f2 > free, "delete-restores-free", &format!("free {}->{} after deleting directory {}", free, f2, cp), &w.hist.clone()); }
                    vd.out.count("delete-dir:ok");
                }
                Ok(Err(e)) => {
                    if locked { vd.v(Focus::C19, true, "locked-refuses-delete", "", &[]); vd.out.count("delete-dir:refused-locked"); }
                    if nonempty { for f in [Focus::C02, Focus::C05] { vd.v(f, true, "nonempty-directory-delete-refused", "", &[]); } vd.out.count("delete-dir:refused-nonempty"); }
                    else if !locked { vd.v(Focus::C05, false, "delete-existing-succeeds", &format!("delete of empty directory {} refused: {}", cp, e), &w.hist.clone()); }
                }
            }
            d
        }
        Op::LockDir(cp) => {
            // where the file system lets a directory be locked, the lock means what it means for a file (C19)
            let was = w.locked_dirs.contains(&cp);
            let sp = spell(fs, &cp, rng);
            let res = if was { guarded(|| w.disk.unlock(&sp).map_err(|e| e.to_string())) } else { guarded(|| w.disk.lock(&sp).map_err(|e| e.to_string())) };
            let verb = if was { "unlock" } else { "lock" };
            let d = format!("{}-dir {} => {}", verb, sp, match &res { Ok(Ok(_)) => "ok".to_string(), Ok(Err(e)) => format!("err:{}", err_class(e)), Err(_) => "PANIC".to_string() });
            w.hist.push(d.clone());
            // (the readers do not record a protection flag for directory records: for the step spec this is a `retype`-like
            // step - the record keeps its content and blocks, every other record is unchanged)
            w.lean_op = Some(format!("retype {} {}", hxs(&cp), res_tok(&res)));
            w.last_op = Some(OpRecord::new(if was { "unlock" } else { "lock" }, &sp, &cp, "", "", &res));
            match res {
                Err(p) => { vd.panic(&p, "lock", &w.hist.clone()); return format!("ABORT {}", d); }
                Ok(Ok(_)) => { if was { w.locked_dirs.remove(&cp); } else { w.locked_dirs.insert(cp); } vd.out.count(&format!("{}-dir:ok", verb)); }
                Ok(Err(_)) => { vd.out.count(&format!("{}-dir:refused", verb)); }
            }
            d
        }
        Op::RenameDir(cp, newbase) => {
            let prefix = format!("{}/", cp);
            if w.files.keys().any(|k| k.starts_with(&prefix)) || w.dirs.iter().any(|k| k.starts_with(&prefix)) { return String::from("skip"); }
            let newbase_c = base_of(&canon_path(fs, &newbase));
            let target = match parent_of(&cp) { Some(par) => format!("{}/{}", par, newbase_c), None => newbase_c.clone() };
            let locked = w.locked_dirs.contains(&cp);
            let dup = w.files.contains_key(&target) || w.dirs.contains(&target);
            let sp = spell(fs, &cp, rng);
            let res = guarded(|| w.disk.rename(&sp, &newbase).map_err(|e| e.to_string()));
            let d = format!("rename-dir {}{} -> {} => {}", sp, if locked { "(locked)" } else { "" }, newbase, match &res { Ok(Ok(_)) => "ok".to_string(), Ok(Err(e)) => format!("err:{}", err_class(e)), Err(_) => "PANIC".to_string() });
            w.hist.push(d.clone());
            w.lean_op = Some(format!("rename {} {} {}", hxs(&cp), hxs(&target), res_tok(&res)));
            w.last_op = Some(OpRecord::new("rename", &sp, &cp, &newbase, &target, &res));
            match res {
                Err(p) => { vd.panic(&p, "rename", &w.hist.clone()); return format!("ABORT {}", d); }
                Ok(Ok(_)) => {
                    if dup && target != cp { vd.v(Focus::C05, false, "rename-onto-existing-refused", &format!("{} -> {} succeeded", cp, target), &w.hist.clone()); return format!("ABORT {}", d); }
                    if locked { vd.v(Focus::C19, false, "locked-refuses-rename", &format!("locked directory {} was renamed", cp), &w.hist.clone()); }
                    w.dirs.remove(&cp); w.dirs.insert(target.clone());
                    if w.locked_dirs.remove(&cp) { w.locked_dirs.insert(target); }
                    vd.out.count("rename-dir:ok");
                }
                Ok(Err(_)) => { if locked { vd.v(Focus::C19, true, "locked-refuses-rename", "", &[]); } }
            }
            d
        }
        Op::PutEmpty(path) => {
            let cp = canon_path(fs, &path);
            let dup = w.files.contains_key(&cp) || w.dirs.contains(&cp);
            let mut fimg = match guarded(|| w.disk.new_fimg(None, true, &path).map_err(|e| e.to_string())) { Ok(Ok(f)) => f, _ => return String::from("skip") };
            let (ft, aux, acc) = ftype_for(fs, 1, &path);
            if !ft.is_empty() { fimg.fs_type = ft; }
            if !aux.is_empty() { fimg.aux = aux; }
            if let Some(a) = acc { fimg.access = a; }
            fimg.set_eof(0);
            let r = RefFile { chunks: BTreeMap::new(), eof: 0, ftype: fimg.fs_type.clone(), aux: fimg.aux.clone(), access: fimg.access.clone(), locked: false };
            let res = guarded(|| w.disk.put(&fimg).map_err(|e| e.to_string()));
            let d = format!("put-empty {} => {}", path, match &res { Ok(Ok(_)) => "ok".to_string(), Ok(Err(e)) => format!("err:{}", err_class(e)), Err(_) => "PANIC".to_string() });
            w.hist.push(d.clone());
            let (ty, auxn) = type_num(fs, &r);
            w.lean_op = Some(format!("put {} {} 0 {} {} -", hxs(&cp), res_tok(&res), ty, auxn));
            w.last_op = Some(OpRecord::new("put", &path, &cp, "", "", &res).with_fimg(&fimg));
            match res {
                Err(p) => { vd.panic(&p, "put", &w.hist.clone()); return format!("ABORT {}", d); }
                Ok(Ok(_)) => {
                    if dup { vd.v(Focus::C05, false, "duplicate-put-refused", &format!("put onto existing {} succeeded", cp), &w.hist.clone()); return format!("ABORT {}", d); }
                    w.files.insert(cp.clone(), r.clone());
                    match w.get(&path) {
                        Err(p) => vd.panic(&p, "get", &w.hist.clone()),
                        Ok(Err(e)) => vd.v(Focus::C01, false, "get-after-put", &format!("get {} failed: {}", path, e), &w.hist.clone()),
                        Ok(Ok(g)) => match w.compare(&cp, &r, &g) { Some(diff) => vd.v(Focus::C01, false, "get-after-put", &diff, &w.hist.clone()), None => vd.v(Focus::C01, true, "get-after-put", "", &[]) }
                    }
                    // no data unit is taken (a full sub-directory may grow by one)
                    let grow = if fs.has_dirs() && cp.contains('/') { 1 } else { 0 };
                    if let Ok(f2) = w.free() { vd.v(Focus::C04, free >= f2 && free - f2 <= grow, "put-consumes-need", &format!("free {}->{} need=0", free, f2), &w.hist.clone()); }
                    vd.out.count("put-empty:stored");
                }
                Ok(Err(_)) => { if dup { vd.v(Focus::C05, true, "duplicate-put-refused", "", &[]); } vd.out.count("put-empty:refused"); }
            }
            d
        }
        Op::Save => {
            // C06: handing out the image flushes the write-back buffers; the live volume must be the same afterwards
            let before = (w.free(), guarded(|| w.disk.tree(true, None).map_err(|e| e.to_string())));
            let res = guarded(|| w.disk.get_img().to_bytes().len());
            let after = (w.free(), guarded(|| w.disk.tree(true, None).map_err(|e| e.to_string())));
            let d = format!("save => {}", match &res { Ok(_) => "ok", Err(_) => "PANIC" });
            w.hist.push(d.clone());
            w.lean_op = Some("other ok".to_string());
            if let Err(p) = res { vd.panic(&p, "to_bytes", &w.hist.clone()); return format!("ABORT {}", d); }
            let mut same = before == after;
            let mut detail = if same { String::new() } else { format!("free {:?} -> {:?}, tree {}", before.0, after.0, if before.1 == after.1 { "unchanged" } else { "changed" }) };
            // every file still reads back from the live object (C06 focus; under C01 / C02 the step oracles read them anyway)
            if same && vd.focus == Focus::C06 { if let Some(diff) = first_file_diff(w, None) { same = false; detail = format!("after the save the live volume returns: {}", diff); } }
            for f in [Focus::C06, Focus::C04] { vd.v(f, same, "save-keeps-live-volume", &detail, &w.hist.clone()); }
            vd.out.count("op:save");
            d
        }
        Op::Reload(with_ext) => reload_op(w, with_ext, vd),
        Op::RawRewrite(n) => {
            // `read_block` / `write_block` of the trait (what `a2kit get/put -t block` use): writing back what was read is
            // not a change, whichever block it is (a bitmap block goes through the write-back buffer)
            let before = (w.free(), guarded(|| w.disk.tree(true, None).map_err(|e| e.to_string())));
            let res = guarded(|| -> Result<usize, String> { let d = w.disk.read_block(&n.to_string()).map_err(|e| e.to_string())?; w.disk.write_block(&n.to_string(), &d).map_err(|e| e.to_string()) });
            let after = (w.free(), guarded(|| w.disk.tree(true, None).map_err(|e| e.to_string())));
            let d = format!("raw-rewrite block {} => {}", n, match &res { Ok(Ok(_)) => "ok".to_string(), Ok(Err(e)) => format!("err:{}", err_class(e)), Err(_) => "PANIC".to_string() });
            w.hist.push(d.clone());
            w.lean_op = Some(format!("other {}", res_tok(&res)));
            if let Err(p) = res { vd.panic(&p, "write_block", &w.hist.clone()); return format!("ABORT {}", d); }
            let same = before == after;
            let detail = if same { String::new() } else { format!("free {:?} -> {:?}, tree {}", before.0, after.0, if before.1 == after.1 { "unchanged" } else { "changed" }) };
            for f in [Focus::C02, Focus::C04, Focus::C06] { vd.v(f, same, "raw-rewrite-changes-nothing", &detail, &w.hist.clone()); }
            vd.out.count("op:raw-rewrite");
            d
        }
        Op::GetMissing(p) => {
            let cp = canon_path(fs, &p);
            if w.files.contains_key(&cp) || w.dirs.contains(&cp) { return String::from("skip"); }
            let res = w.get(&p);
            let d = format!("get-missing {} => {}", p, match &res { Ok(Ok(_)) => "ok", Ok(Err(_)) => "err", Err(_) => "PANIC" });
            w.hist.push(d.clone());
            if fs == Fs::Pascal { w.pas_op = Some((format!("get {}", hxs(&p)), Some(pas_get_answer(&res)))); }
            if fs.is_dos() { w.dos_op = Some((format!("get {}", hxs(&p)), Some(dos_get_answer(&res)))); }
            match res { Err(pn) => vd.panic(&pn, "get", &w.hist.clone()), Ok(Ok(_)) => vd.v(Focus::C05, false, "unlisted-not-fetchable", &format!("{} fetched but never stored", cp), &w.hist.clone()), Ok(Err(_)) => vd.v(Focus::C05, true, "unlisted-not-fetchable", "", &[]) }
            d
        }
        Op::DeleteMissing(p) => {
            let cp = canon_path(fs, &p);
            if w.files.contains_key(&cp) || w.dirs.contains(&cp) { return String::from("skip"); }
            let res = guarded(|| w.disk.delete(&p).map_err(|e| e.to_string()));
            let d = format!("delete-missing {} => {}", p, match &res { Ok(Ok(_)) => "ok", Ok(Err(_)) => "err", Err(_) => "PANIC" });
            w.hist.push(d.clone());
            if fs == Fs::Pascal { w.pas_op = Some((format!("delete {} {}", hxs(&p), pas_res(&res)), None)); }
            if fs.is_dos() { w.dos_op = Some((format!("delete {} {}", hxs(&p), dos_res(&res)), None)); }
            match res { Err(pn) => vd.panic(&pn, "delete", &w.hist.clone()), Ok(Ok(_)) => vd.v(Focus::C05, false, "delete-missing-refused", &format!("delete of never-stored {} succeeded", cp), &w.hist.clone()), Ok(Err(_)) => vd.v(Focus::C05, true, "delete-missing-refused", "", &[]) }
            d
        }
    }
}

/// CP/M 3 password protection: only the frame is checked (the Lean reader sees the password entries of every
/// file; the step is a `retype`-like operation of the spec: content kept, every other record unchanged)
fn protect_op(w: &mut World, cp: String, protect: bool, vd: &mut Verdicts, rng: &mut Rng) -> String {
    let sp = spell(w.fs(), &cp, rng);
    let (pr, pw, pd) = (rng.chance(50), rng.chance(50), true);
    let res = if protect { guarded(|| w.disk.protect(&sp, "SECRET", pr, pw, pd).map_err(|e| e.to_string())) }
        else { guarded(|| w.disk.unprotect(&sp).map_err(|e| e.to_string())) };
    let d = format!("{} {} => {}", if protect { "protect" } else { "unprotect" }, sp, match &res { Ok(Ok(_)) => "ok".to_string(), Ok(Err(e)) => format!("err:{}", err_class(e)), Err(_) => "PANIC".to_string() });
    w.hist.push(d.clone());
    w.lean_op = Some(format!("retype {} {}", hxs(&cp), res_tok(&res)));
    w.last_op = Some(OpRecord::new(if protect { "protect" } else { "unprotect" }, &sp, &cp, &format!("SECRET {} {} {}", pr, pw, pd), "", &res));
    if let Err(p) = res { vd.panic(&p, "protect", &w.hist.clone()); return format!("ABORT {}", d); }
    d
}

fn toggle_lock(w: &mut World, cp: String, vd: &mut Verdicts, rng: &mut Rng) -> String {
    // lock if currently unlocked, otherwise unlock; then probe what protection means
    let was = w.files[&cp].locked;
    let sp = spell(w.fs(), &cp, rng);
    let res = if was { guarded(|| w.disk.unlock(&sp).map_err(|e| e.to_string())) } else { guarded(|| w.disk.lock(&sp).map_err(|e| e.to_string())) };
    let d = format!("{} {} => {}", if was { "unlock" } else { "lock" }, sp, match &res { Ok(Ok(_)) => "ok".to_string(), Ok(Err(e)) => format!("err:{}", err_class(e)), Err(_) => "PANIC".to_string() });
    w.hist.push(d.clone());
    w.lean_op = Some(format!("{} {} {}", if was { "unlock" } else { "lock" }, hxs(&cp), res_tok(&res)));
    w.last_op = Some(OpRecord::new(if was { "unlock" } else { "lock" }, &sp, &cp, "", "", &res));
    if w.fs().is_dos() { w.dos_op = Some((format!("{} {} {}", if was { "unlock" } else { "lock" }, hxs(&sp), dos_res(&res)), None)); }
    match res {
        Err(p) => { vd.panic(&p, "lock", &w.hist.clone()); return format!("ABORT {}", d); }
        Ok(Ok(_)) => {
            w.files.get_mut(&cp).unwrap().locked = !was;
            if w.fs().is_cpm() { let r = w.files.get_mut(&cp).unwrap(); if r.access.len() == 11 { if was { r.access[8] &= 0x7f; } else { r.access[8] |= 0x80; } } }
            // reading is unaffected
            let r = w.files[&cp].clone();
            match w.get(&cp) {
                Err(p) => vd.panic(&p, "get", &w.hist.clone()),
                Ok(Err(e)) => vd.v(Focus::C19, false, "protected-still-readable", &format!("get {} failed: {}", cp, e), &w.hist.clone()),
                Ok(Ok(g)) => match w.compare(&cp, &r, &g) { Some(diff) => vd.v(Focus::C19, false, "protected-still-readable", &diff, &w.hist.clone()), None => vd.v(Focus::C19, true, "protected-still-readable", "", &[]) }
            }
        }
        Ok(Err(e)) => { vd.v(Focus::C19, false, "lock-unlock-succeeds", &format!("{} {} refused: {}", if was { "unlock" } else { "lock" }, cp, e), &w.hist.clone()); }
    }
    d
}

fn check_bystanders(w: &mut World, vd: &mut Verdicts, desc: &str) {
    if vd.focus != Focus::C02 { return; }
    // the operation's own target(s): second token of the description (and the rename target)
    let toks: Vec<&str> = desc.split(" => ").next().unwrap_or("").split(' ').collect();
    let fs = w.fs();
    let mut targets: BTreeSet<String> = BTreeSet::new();
    if desc.starts_with("put ") || desc.starts_with("put-dup ") || desc.starts_with("delete") || desc.starts_with("lock") || desc.starts_with("unlock") || desc.starts_with("retype") || desc.starts_with("mkdir") || desc.starts_with("get-missing") || desc.starts_with("protect") || desc.starts_with("unprotect") {
        // names may contain blanks (DOS): take everything between the verb and the first " chunks="/" => "
        let body = desc.splitn(2, ' ').nth(1).unwrap_or("");
        let name = body.split(" chunks=").next().unwrap_or(body).split(" => ").next().unwrap_or(body);
        let name = if desc.starts_with("retype") { let v: Vec<&str> = name.rsplitn(3, ' ').collect(); v.last().cloned().unwrap_or(name) } else { name };
        targets.insert(canon_path(fs, name.trim_end_matches("(locked)")));
    }
    let _ = toks;
    let renaming = desc.starts_with("rename");
    let paths: Vec<String> = w.files.keys().cloned().collect();
    let mut bad = None;
    for p in paths {
        if targets.contains(&p) || (renaming && desc.contains(&p)) { continue; }
        let r = w.files[&p].clone();
        match w.get(&p) {
            Err(pn) => { vd.panic(&pn, "get", &w.hist.clone()); return; }
            Ok(Err(e)) => { bad = Some(format!("get {} failed: {}", p, e)); break; }
            Ok(Ok(g)) => if let Some(diff) = w.compare(&p, &r, &g) { bad = Some(diff); break; }
        }
    }
    match bad { Some(b) => vd.v(Focus::C02, false, "bystanders-intact", &b, &w.hist.clone()), None => vd.v(Focus::C02, true, "bystanders-intact", "", &[]) }
}

fn check_all_files(w: &mut World, vd: &mut Verdicts, owner: Focus, oracle: &str) {
    if vd.focus != owner { return; }
    let paths: Vec<String> = w.files.keys().cloned().collect();
    let mut bad = None;
    for p in paths {
        let r = w.files[&p].clone();
        match w.get(&p) {
            Err(pn) => { vd.panic(&pn, "get", &w.hist.clone()); return; }
            Ok(Err(e)) => { bad = Some(format!("get {} failed: {}", p, e)); break; }
            Ok(Ok(g)) => if let Some(diff) = w.compare(&p, &r, &g) { bad = Some(diff); break; }
        }
    }
    match bad { Some(b) => vd.v(owner, false, oracle, &b, &w.hist.clone()), None => vd.v(owner, true, oracle, "", &[]) }
}

fn check_listing(w: &mut World, vd: &mut Verdicts) {
    if vd.focus != Focus::C05 { return; }
    match w.listing() {
        Err(e) => { if e.contains(".rs:") { vd.panic(&e, "tree", &w.hist.clone()); } else { vd.v(Focus::C05, false, "tree-succeeds", &e, &w.hist.clone()); } }
        Ok((files, dirs)) => {
            let fs = w.fs();
            let norm = |s: &String| canon_path(fs, s);
            let lf: BTreeSet<String> = files.iter().map(norm).collect();
            let ld: BTreeSet<String> = dirs.iter().map(norm).collect();
            let rf: BTreeSet<String> = w.files.keys().cloned().collect();
            if lf != rf {
                let missing: Vec<&String> = rf.difference(&lf).take(3).collect();
                let extra: Vec<&String> = lf.difference(&rf).take(3).collect();
                vd.v(Focus::C05, false, "listing-equals-history", &format!("missing={:?} extra={:?}", missing, extra), &w.hist.clone());
            } else if ld != w.dirs {
                vd.v(Focus::C05, false, "listing-equals-history", &format!("dirs listed={:?} expected={:?}", ld, w.dirs), &w.hist.clone());
            } else { vd.v(Focus::C05, true, "listing-equals-history", "", &[]); }
            // catalog rows and glob agree with the tree at the root
            if let Ok(Ok(rows)) = guarded(|| w.disk.catalog_to_vec("/").map_err(|e| e.to_string())) {
                let root_n = rf.iter().filter(|p| !p.contains('/')).count() + w.dirs.iter().filter(|p| !p.contains('/')).count();
                if !fs.is_cpm() { vd.v(Focus::C05, rows.len() == root_n, "catalog-row-count", &format!("rows={} expected={}", rows.len(), root_n), &w.hist.clone()); }
            }
        }
    }
}

/// first file of the reference map that does not read back (from the live object, or from `other`)
fn first_file_diff(w: &mut World, mut other: Option<&mut Box<dyn DiskFS>>) -> Option<String> {
    for (p, r) in w.files.clone() {
        let res = match other.as_mut() { Some(d2) => guarded(|| d2.get(&p).map_err(|e| e.to_string())), None => w.get(&p) };
        match res {
            Ok(Ok(g)) => if let Some(dd) = w.compare(&p, &r, &g) { return Some(dd); },
            Ok(Err(e)) => return Some(format!("get {} failed: {}", p, e)),
            Err(pn) => return Some(format!("get {} panicked at {}", p, pn)),
        }
    }
    None
}

/// C06 in the middle of a history: save, load the bytes again and go on with the re-loaded object.  What is compared
/// is what `check_reload` compares at the end (file system, free count, block count, tree with metadata, chunk length);
/// the files themselves are compared by the oracles of the following steps, which now run on the re-loaded volume.
/// If the re-loaded volume is not the same volume the history goes on with the old object (also on CP/M 2.2, see below).
fn reload_op(w: &mut World, with_ext: bool, vd: &mut Verdicts) -> String {
    let label = if with_ext { "with-ext" } else { "no-ext" };
    let oracle = format!("reload-{}", label);
    let st0 = guarded(|| w.disk.stat().map_err(|e| e.to_string()));
    let tree0 = guarded(|| w.disk.tree(true, None).map_err(|e| e.to_string()));
    let typ0 = w.disk.get_img().what_am_i();
    let exts = w.disk.get_img().file_extensions();
    let bytes = match guarded(|| w.disk.get_img().to_bytes()) { Ok(b) => b, Err(p) => { let d = format!("reload({}) => PANIC", label); w.hist.push(d.clone()); vd.panic(&p, "to_bytes", &w.hist.clone()); return format!("ABORT {}", d); } };
    let hint = if with_ext { exts.first().cloned() } else { None };
    let res = guarded(|| a2kit::create_fs_from_bytestream(&bytes, hint.as_deref()).map_err(|e| e.to_string()));
    w.lean_op = Some("other ok".to_string());
    let mut diff: Option<String> = None;
    let mut fresh: Option<Box<dyn DiskFS>> = None;
    match res {
        Err(p) => { let d = format!("reload({}) => PANIC", label); w.hist.push(d.clone()); vd.panic(&p, "create_fs_from_bytestream", &w.hist.clone()); return format!("ABORT {}", d); }
        Ok(Err(e)) => diff = Some(format!("not recognised: {}", e)),
        Ok(Ok(mut d2)) => {
            match (guarded(|| d2.stat().map_err(|e| e.to_string())), &st0) {
                (Ok(Ok(st)), Ok(Ok(s0))) => {
                    if st.fs_name != s0.fs_name { diff = Some(format!("fs {} vs {}", st.fs_name, s0.fs_name)); }
                    else if st.free_blocks != s0.free_blocks { diff = Some(format!("free {} vs {}", st.free_blocks, s0.free_blocks)); }
                    else if st.block_end != s0.block_end { diff = Some(format!("block_end {} vs {}", st.block_end, s0.block_end)); }
                    else if st.block_size != s0.block_size { diff = Some(format!("block_size {} vs {}", st.block_size, s0.block_size)); }
                }
                (Ok(Err(e)), _) => diff = Some(format!("stat failed {}", e)),
                (Err(p), _) => { let d = format!("reload({}) => PANIC", label); w.hist.push(d.clone()); vd.panic(&p, "stat", &w.hist.clone()); return format!("ABORT {}", d); }
                _ => diff = Some("stat of the live volume failed".to_string()),
            }
            if diff.is_none() && d2.get_img().what_am_i() != typ0 { diff = Some(format!("image type {} vs {}", d2.get_img().what_am_i(), typ0)); }
            if diff.is_none() {
                let t2 = guarded(|| d2.tree(true, None).map_err(|e| e.to_string()));
                if let (Ok(Ok(a)), Ok(Ok(b))) = (&tree0, &t2) { if a != b { diff = Some("tree differs".to_string()); } }
            }
            if diff.is_none() {
                let name = if w.fs().is_cpm() || w.fs() == Fs::Fat { "A.TXT" } else { "A" };
                if let Ok(Ok(f)) = guarded(|| d2.new_fimg(None, false, name).map_err(|e| e.to_string())) { if f.chunk_len != w.chunk_len { diff = Some(format!("chunk length {} vs {} after reload (different disk parameters chosen)", f.chunk_len, w.chunk_len)); } }
            }
            if diff.is_none() && vd.focus == Focus::C06 { diff = first_file_diff(w, Some(&mut d2)).map(|x| format!("after reload: {}", x)); }
            fresh = Some(d2);
        }
    }
    let d = format!("reload({}) => {}", label, match &diff { None => "ok".to_string(), Some(_) => "kept-old-object".to_string() });
    w.hist.push(d.clone());
    match diff {
        None => {
            // a2kit loads every CP/M volume as CP/M 3 (exact lengths in the directory from then on): a volume made as CP/M 2.2
            // is compared, but the history goes on with the CP/M 2.2 object so that one length rule holds for all of it
            if w.fs() == Fs::Cpm2 { vd.out.count("op:reload-compared-only"); } else { w.disk = Vol::Dyn(fresh.unwrap()); vd.out.count("op:reload"); }
            vd.v(Focus::C06, true, &oracle, "", &[]);
        }
        Some(dd) => { vd.v(Focus::C06, false, &oracle, &format!("mid-history: {}", dd), &w.hist.clone()); vd.out.count("op:reload-differs"); }
    }
    d
}

fn check_reload(w: &mut World, vd: &mut Verdicts, rng: &mut Rng) {
    let st0 = match guarded(|| w.disk.stat().map_err(|e| e.to_string())) { Ok(Ok(s)) => s, _ => return };
    let tree0 = guarded(|| w.disk.tree(true, None).map_err(|e| e.to_string()));
    let kind0 = w.disk.get_img().kind();
    let typ0 = w.disk.get_img().what_am_i();
    let exts = w.disk.get_img().file_extensions();
    let bytes = match guarded(|| w.disk.get_img().to_bytes()) { Ok(b) => b, Err(p) => { vd.panic(&p, "to_bytes", &w.hist.clone()); return; } };
    let _ = rng;
    for hint in [Some(exts[0].clone()), None] {
        // CP/M volumes other than Apple's cannot be told from the bytes which DPB applies unless a2kit's heuristics find it: still required by the property
        let label = if hint.is_some() { "with-ext" } else { "no-ext" };
        let res = guarded(|| a2kit::create_fs_from_bytestream(&bytes, hint.as_deref()).map_err(|e| e.to_string()));
        match res {
            Err(p) => { vd.panic(&p, "create_fs_from_bytestream", &w.hist.clone()); }
            Ok(Err(e)) => vd.v(Focus::C06, false, &format!("reload-{}", label), &format!("not recognised: {}", e), &w.hist.clone()),
            Ok(Ok(mut d2)) => {
                let mut diff: Option<String> = None;
                match guarded(|| d2.stat().map_err(|e| e.to_string())) {
                    Ok(Ok(st)) => {
                        if st.fs_name != st0.fs_name { diff = Some(format!("fs {} vs {}", st.fs_name, st0.fs_name)); }
                        else if st.free_blocks != st0.free_blocks { diff = Some(format!("free {} vs {}", st.free_blocks, st0.free_blocks)); }
                        else if st.block_end != st0.block_end { diff = Some(format!("block_end {} vs {}", st.block_end, st0.block_end)); }
                    }
                    Ok(Err(e)) => diff = Some(format!("stat failed {}", e)),
                    Err(p) => { vd.panic(&p, "stat", &w.hist.clone()); return; }
                }
                if diff.is_none() && d2.get_img().what_am_i() != typ0 { diff = Some(format!("image type {} vs {}", d2.get_img().what_am_i(), typ0)); }
                if diff.is_none() && d2.get_img().kind() != kind0 {
                    // flat images and IMD/TD0 do not record the package (3/3.5/5.25/8 inch) nor, for flat images, more than a size:
                    // the property asks for the same kind "wherever the format records it" -> compare the track layout text
                    let lay = |k: &DiskKind| { let s = k.to_string(); s.split(" inch ").last().unwrap_or(&s).to_string() };
                    let recorded = matches!(w.cfg.container, "woz1" | "woz2" | "nib" | "2mg-nib");
                    if recorded || (matches!(w.cfg.container, "imd" | "td0") && lay(&d2.get_img().kind()) != lay(&kind0)) { diff = Some(format!("kind {} vs {}", d2.get_img().kind(), kind0)); }
                }
                if diff.is_none() {
                    let t2 = guarded(|| d2.tree(true, None).map_err(|e| e.to_string()));
                    if let (Ok(Ok(a)), Ok(Ok(b))) = (&tree0, &t2) { if a != b { diff = Some("tree differs".to_string()); } }
                }
                if diff.is_none() {
                    for (p, r) in w.files.clone() {
                        match guarded(|| d2.get(&p).map_err(|e| e.to_string())) {
                            Ok(Ok(g)) => {
                                if g.chunk_len != w.chunk_len { diff = Some(format!("chunk length {} vs {} after reload (different disk parameters chosen)", g.chunk_len, w.chunk_len)); break; }
                                if let Some(dd) = w.compare(&p, &r, &g) { diff = Some(dd); break; }
                            }
                            Ok(Err(e)) => { diff = Some(format!("get {} failed after reload: {}", p, e)); break; }
                            Err(pn) => { vd.panic(&pn, "get-after-reload", &w.hist.clone()); return; }
                        }
                    }
                }
                match diff { Some(dd) => vd.v(Focus::C06, false, &format!("reload-{}", label), &dd, &w.hist.clone()), None => vd.v(Focus::C06, true, &format!("reload-{}", label), "", &[]) }
            }
        }
    }
}

/// refinement check of the step just taken: the Lean spec must allow (previous reading, op, result, current reading)
fn lean_step(drv: &mut Drv, w: &mut World, vd: &mut Verdicts, lean_op: &str, desc: &str) -> String {
    let full = drv.ask(&format!("fs step {}", lean_op));
    let (ans, summary) = match full.split_once(" ;; ") { Some((a, b)) => (a.to_string(), b.to_string()), None => (full.clone(), String::from("?")) };
    lean_step_verdict(&ans, w, vd, desc);
    summary
}

fn lean_step_verdict(ans: &str, w: &mut World, vd: &mut Verdicts, desc: &str) {
    let hist = w.hist.clone();
    if ans == "ok" {
        for f in [Focus::C01, Focus::C02, Focus::C03, Focus::C05, Focus::C19] { vd.v(f, true, "step-allowed-by-spec", "", &[]); }
        return;
    }
    if !ans.starts_with("bad ") { vd.out.count(&format!("lean-step-answer:{}", ans.chars().take(40).collect::<String>())); return; }
    let why = ans[4..].to_string();
    let owners: &[Focus] = match why.as_str() {
        "bystanders-unchanged" if desc.starts_with("lock") || desc.starts_with("unlock") || desc.starts_with("retype") || desc.starts_with("protect") || desc.starts_with("unprotect") => &[Focus::C02, Focus::C19],
        "bystanders-unchanged" => &[Focus::C02],
        "refused-changes-nothing" => &[Focus::C02, Focus::C05],
        "put-content-reads-back" | "put-length-reads-back" | "put-type-reads-back" => &[Focus::C01],
        "put-uses-free-units-only" => &[Focus::C02, Focus::C03],
        "delete-target-not-protected" | "rename-source-not-protected" | "lock-sets-protection" | "unlock-clears-protection" => &[Focus::C19],
        "post-volume-well-formed" => &[Focus::C03],
        w if w.starts_with("unreadable:") => &[Focus::C03],
        "rename-keeps-content" | "retype-keeps-content" => &[Focus::C01, Focus::C02],
        _ => &[Focus::C05],
    };
    for f in owners { vd.v(*f, false, &format!("step-allowed-by-spec:{}", why.split(':').next().unwrap_or("")), &format!("spec refuses step [{}]: {}", desc, why), &hist); }
}

/// ask the Lean reader for its independent reading and compare with what a2kit reports
fn lean_check(drv: &mut Drv, w: &mut World, vd: &mut Verdicts, last: &str, _step: Option<usize>) {
    let ans = drv.ask("fs read");
    lean_check_answer(&ans, w, vd, last);
}

fn lean_check_answer(ans: &str, w: &mut World, vd: &mut Verdicts, last: &str) {
    let hist = w.hist.clone();
    if ans.starts_with("bad ") {
        // after a failed operation only soundness is required; after a successful one, also
        let why = ans[4..].split(' ').next().unwrap_or("?").to_string();
        vd.v(Focus::C03, false, &format!("independent-reader:{}", why), &format!("reader: {} after [{}]", ans, last), &hist);
        return;
    }
    if !ans.starts_with("ok ") { vd.out.count(&format!("lean-answer:{}", ans.chars().take(40).collect::<String>())); return; }
    vd.v(Focus::C03, true, "independent-reader", "", &[]);
    // ok free=<n> noleak=<0|1> files=<hexpath>:<isdir>:<nowned>:<eof>,...
    let mut free = None; let mut noleak = true; let mut files: BTreeSet<String> = BTreeSet::new(); let mut dirs: BTreeSet<String> = BTreeSet::new();
    for tok in ans.split(' ').skip(1) {
        if let Some(v) = tok.strip_prefix("free=") { free = v.parse::<usize>().ok(); }
        if let Some(v) = tok.strip_prefix("noleak=") { noleak = v == "1"; }
        if let Some(v) = tok.strip_prefix("files=") {
            if v != "-" { for f in v.split(',') { let parts: Vec<&str> = f.split(':').collect(); let p = String::from_utf8_lossy(&unhx(parts[0])).to_string(); if parts.get(1) == Some(&"1") { dirs.insert(p); } else { files.insert(p); } } }
        }
    }
    // free-space accounting ("nothing leaks") is claimed for histories of successful operations.  A refused operation that
    // leaves the reading as it was does not end such a history for this purpose; one that changes the free map does
    // (e.g. a refused DOS 3.x put on a full catalog keeps the T/S list sector it reserved: outside C04)
    let refused = last.contains("=> err") || last.contains("new_fimg");
    if let Some(lf) = free {
        if refused && w.last_reading.is_some() && w.last_reading != Some((lf, noleak)) && !w.leak_tainted { w.leak_tainted = true; vd.out.count("refused-op-changed-free-map"); }
        w.last_reading = Some((lf, noleak));
    }
    let ok_hist = !w.leak_tainted;
    if let (Some(lf), Ok(sf)) = (free, w.free()) {
        // free-space accounting is claimed for histories of successful operations
        // the count must agree always; "nothing leaks" is claimed for histories of successful operations only
        // (a refused DOS 3.x put on a full catalog keeps the T/S list sector it reserved: outside C04)
        if ok_hist { vd.v(Focus::C04, lf == sf && noleak, "free-equals-unreachable", &format!("stat.free={} reader.free={} noleak={}", sf, lf, noleak), &hist); }
        else { vd.v(Focus::C04, lf == sf, "free-count-agrees-with-reader", &format!("stat.free={} reader.free={}", sf, lf), &hist); }
    }
    let fs = w.fs();
    let lf: BTreeSet<String> = files.iter().map(|s| canon_path(fs, s)).collect();
    let rf: BTreeSet<String> = w.files.keys().cloned().collect();
    if lf != rf || dirs.iter().map(|s| canon_path(fs, s)).collect::<BTreeSet<String>>() != w.dirs {
        let missing: Vec<&String> = rf.difference(&lf).take(3).collect();
        let extra: Vec<&String> = lf.difference(&rf).take(3).collect();
        vd.v(Focus::C05, false, "reader-listing-equals-history", &format!("missing={:?} extra={:?} dirs={:?}", missing, extra, dirs), &hist);
    } else { vd.v(Focus::C05, true, "reader-listing-equals-history", "", &[]); }
}

// ------------------------------------------------------------------------------------------
// byte-exact tie of the concrete Pascal model (Lean `Model/Fs/Pascal.lean`, driver family `fsp`)

/// `pack_date(None)` of a2kit's Pascal module, recomputed from the (pinned) clock
fn pas_date() -> Vec<u8> {
    use chrono::Datelike;
    let now = chrono::Local::now().naive_local();
    let (_ce, year) = now.year_ce();
    let packed = (now.month() + (now.day() << 4) + ((year % 100) << 9)) as u16;
    packed.to_le_bytes().to_vec()
}

/// result class of a real Pascal operation in the vocabulary of the model (`Err.token`)
fn pas_err_tok(e: &str) -> String {
    match e {
        "no file" => "nofile", "error reading real or integer" => "badformat", "illegal filename" => "badtitle",
        "duplicate file" => "duplicate", "illegal operation" => "badmode", "insufficient space" => "noroom",
        "failed to complete read or write" => "deverr", "no device" => "nodev", _ => return format!("other({})", e.replace(' ', "_")),
    }.to_string()
}
fn pas_res<T>(r: &Result<Result<T, String>, String>) -> String {
    match r { Ok(Ok(_)) => "ok".to_string(), Ok(Err(e)) => format!("err:{}", pas_err_tok(e)), Err(_) => "err:panic".to_string() }
}
fn pas_adler(chunks: &BTreeMap<usize, Vec<u8>>) -> u64 {
    let (mut a, mut b) = (1u64, 0u64);
    for (_, c) in chunks { for x in c { a = (a + *x as u64) % 65521; b = (b + a) % 65521; } }
    b * 65536 + a
}
fn pas_get_answer(r: &Result<Result<FileImage, String>, String>) -> String {
    match r {
        Ok(Ok(g)) => { let cs: BTreeMap<usize, Vec<u8>> = g.chunks.iter().map(|(k, v)| (*k, v.clone())).collect(); format!("ok {} {} {} {}", g.get_ftype(), g.get_eof(), cs.len(), pas_adler(&cs)) }
        Ok(Err(e)) => format!("err:{}", pas_err_tok(e)),
        Err(_) => "err:panic".to_string(),
    }
}
fn pas_verdict(vd: &mut Verdicts, w: &World, pass: bool, kind: &str, detail: &str) {
    let hist = w.hist.clone();
    for f in [Focus::C01, Focus::C02, Focus::C03, Focus::C05] {
        if pass { vd.v(f, true, "concrete-model", "", &[]); } else { vd.v(f, false, &format!("concrete-model:{}", kind), detail, &hist); }
    }
}
/// send one operation to the concrete model; `expect` = the real answer of a query, None = a mutating operation
/// (the driver compares result class and the whole image with the mirror and answers `ok`)
fn pas_tie(drv: &mut Drv, w: &mut World, vd: &mut Verdicts, req: &str, expect: Option<String>, desc: &str) {
    let ans = drv.ask(&format!("fsp {}", req));
    let want = expect.unwrap_or("ok".to_string());
    if ans == want { pas_verdict(vd, w, true, "", ""); return; }
    let kind = if ans.starts_with("bad result") { "result" } else if ans.starts_with("bad block") { "image" } else { req.split(' ').next().unwrap_or("?") }.to_string();
    let short: String = req.chars().take(160).collect();
    pas_verdict(vd, w, false, &kind, &format!("concrete Pascal model disagrees after [{}]: request [{}] model answered [{}] expected [{}]", desc, short, ans, want));
}
/// after every step: free count, catalog, and (after a successful put) the file as `get` returns it
fn pas_queries(drv: &mut Drv, w: &mut World, vd: &mut Verdicts, desc: &str) {
    // free count and catalog are functions of the image, which the operation tie has just compared: ask for them
    // (one round trip) only after a step that changed it
    if !(desc.ends_with("=> ok") || desc == "format") { return; }
    if let (Ok(f), Ok(Ok(rows))) = (w.free(), guarded(|| w.disk.catalog_to_vec("/").map_err(|e| e.to_string()))) {
        let code = |t: &str| -> String { match t { "NONE" => "0".into(), "BAD" => "1".into(), "CODE" => "2".into(), "TEXT" => "3".into(), "INFO" => "4".into(), "DATA" => "5".into(), "GRAF" => "6".into(), "FOTO" => "7".into(), "SECURE" => "8".into(), x => u8::from_str_radix(x.trim_start_matches('$'), 16).map(|v| v.to_string()).unwrap_or(x.to_string()) } };
        let items: Vec<String> = rows.iter().map(|r| { let t: Vec<&str> = r.split_whitespace().collect(); if t.len() == 3 { format!("{}:{}:{}", hxs(t[2]), t[1], code(t[0])) } else { format!("?{}", r.replace(' ', "_")) } }).collect();
        pas_tie(drv, w, vd, "q", Some(format!("ok {} {}", f, if items.is_empty() { "-".to_string() } else { items.join(",") })), desc);
    }
    if desc.starts_with("put ") && desc.ends_with("=> ok") {
        let name = desc.splitn(2, ' ').nth(1).unwrap_or("").split(" chunks=").next().unwrap_or("").to_string();
        let res = w.get(&name);
        pas_tie(drv, w, vd, &format!("get {}", hxs(&name)), Some(pas_get_answer(&res)), desc);
    }
}

// ------------------------------------------------------------------------------------------
// byte-exact tie of the concrete DOS 3.x model (Lean `Model/Fs/Dos3x.lean`, driver family `fsd`)

/// result class of a real DOS 3.x operation in the vocabulary of the model (`Err.token`)
fn dos_err_tok(e: &str) -> String {
    match e {
        "RANGE ERROR" => "range", "END OF DATA" => "endofdata", "FILE NOT FOUND" => "filenotfound", "VOLUME MISMATCH" => "volumemismatch",
        "I/O ERROR" => "ioerror", "DISK FULL" => "diskfull", "FILE LOCKED" => "filelocked", "FILE TYPE MISMATCH" => "filetypemismatch",
        "WRITE PROTECTED" => "writeprotected", "SYNTAX ERROR" => "syntaxerror", _ => return format!("other({})", e.replace(' ', "_")),
    }.to_string()
}
fn dos_res<T>(r: &Result<Result<T, String>, String>) -> String {
    match r { Ok(Ok(_)) => "ok".to_string(), Ok(Err(e)) => format!("err:{}", dos_err_tok(e)), Err(_) => "err:panic".to_string() }
}
/// Adler-32 over (index low, index high, data…) of every chunk in index order
fn dos_adler(chunks: &BTreeMap<usize, Vec<u8>>) -> u64 {
    let (mut a, mut b) = (1u64, 0u64);
    for (i, c) in chunks {
        for x in [(*i % 256) as u8, (*i / 256 % 256) as u8].iter().chain(c.iter()) { a = (a + *x as u64) % 65521; b = (b + a) % 65521; }
    }
    b * 65536 + a
}
fn dos_get_answer(r: &Result<Result<FileImage, String>, String>) -> String {
    match r {
        Ok(Ok(g)) => { let cs: BTreeMap<usize, Vec<u8>> = g.chunks.iter().map(|(k, v)| (*k, v.clone())).collect(); format!("ok {} {} {}", g.fs_type.first().cloned().unwrap_or(0), cs.len(), dos_adler(&cs)) }
        Ok(Err(e)) => format!("err:{}", dos_err_tok(e)),
        Err(_) => "err:panic".to_string(),
    }
}
fn dos_verdict(vd: &mut Verdicts, w: &World, pass: bool, kind: &str, detail: &str) {
    let hist = w.hist.clone();
    for f in [Focus::C01, Focus::C02, Focus::C03, Focus::C05] {
        if pass { vd.v(f, true, "concrete-model", "", &[]); } else { vd.v(f, false, &format!("concrete-model:{}", kind), detail, &hist); }
    }
}
/// send one operation to the concrete model; `expect` = the real answer of a query, None = a mutating operation
/// (the driver compares result class and the whole flushed image with the mirror and answers `ok`)
fn dos_tie(drv: &mut Drv, w: &mut World, vd: &mut Verdicts, req: &str, expect: Option<String>, desc: &str) {
    let ans = drv.ask(&format!("fsd {}", req));
    let want = expect.unwrap_or("ok".to_string());
    if ans == want { dos_verdict(vd, w, true, "", ""); return; }
    let kind = if ans.starts_with("bad result") { "result" } else if ans.starts_with("bad sector") || ans.starts_with("bad flush") { "image" } else { req.split(' ').next().unwrap_or("?") }.to_string();
    let short: String = req.chars().take(160).collect();
    dos_verdict(vd, w, false, &kind, &format!("concrete DOS model disagrees after [{}]: request [{}] model answered [{}] expected [{}]", desc, short, ans, want));
}
/// after every step: free count, catalog, and (after a successful put) the file as `get` returns it
fn dos_queries(drv: &mut Drv, w: &mut World, vd: &mut Verdicts, desc: &str) {
    if let Ok(f) = w.free() { dos_tie(drv, w, vd, "free", Some(format!("ok {}", f)), desc); }
    if let Ok(Ok(rows)) = guarded(|| w.disk.catalog_to_vec("/").map_err(|e| e.to_string())) {
        // `universal_row`: "{:4} {:5}  {}" = type, sectors, name (names may contain blanks)
        let items: Vec<String> = rows.iter().map(|r| {
            let typ = r.get(..4).unwrap_or("").trim().to_string();
            let rest = r.get(5..).unwrap_or("").trim_start();
            match rest.split_once("  ") { Some((n, name)) => format!("{}:{}:{}", hxs(name), n, typ), None => format!("?{}", r.replace(' ', "_")) }
        }).collect();
        dos_tie(drv, w, vd, "cat", Some(format!("ok {}", if items.is_empty() { "-".to_string() } else { items.join(",") })), desc);
    }
    if desc.starts_with("put ") && desc.ends_with("=> ok") {
        let name = desc.splitn(2, ' ').nth(1).unwrap_or("").split(" chunks=").next().unwrap_or("").to_string();
        let res = w.get(&name);
        dos_tie(drv, w, vd, &format!("get {}", hxs(&name)), Some(dos_get_answer(&res)), desc);
    }
}
