//! File-system family (properties C01-C06, C19): histories of operations on real `DiskFS` objects,
//! a reference map maintained by the harness (direct oracles), and per-step refinement checking
//! against the Lean-side independent readers + abstract volume spec (driver family `fs`).
use crate::util::*;
use a2kit::bios::{bpb, dpb};
use a2kit::fs::{cpm, dos3x, fat, pascal, prodos, DiskFS, FileImage};
use a2kit::img::{self, names, DiskImage, DiskKind};
use std::collections::{BTreeMap, BTreeSet};
use std::io::{BufRead, BufReader, Write};
use std::process::{Child, ChildStdin, ChildStdout, Command, Stdio};

#[derive(Clone, Copy, PartialEq, Eq, Debug)]
pub enum Focus { C01, C02, C03, C04, C05, C06, C19 }
impl Focus {
    pub fn id(&self) -> &'static str {
        match self { Focus::C01 => "c01", Focus::C02 => "c02", Focus::C03 => "c03", Focus::C04 => "c04", Focus::C05 => "c05", Focus::C06 => "c06", Focus::C19 => "c19" }
    }
}

#[derive(Clone, Copy, PartialEq, Eq, Debug)]
pub enum Fs { Dos33, Dos32, Prodos, Pascal, Cpm2, Cpm3, Fat }
impl Fs {
    fn id(&self) -> &'static str {
        match self { Fs::Dos33 => "dos33", Fs::Dos32 => "dos32", Fs::Prodos => "prodos", Fs::Pascal => "pascal", Fs::Cpm2 => "cpm2", Fs::Cpm3 => "cpm3", Fs::Fat => "fat" }
    }
    fn has_dirs(&self) -> bool { matches!(self, Fs::Prodos | Fs::Fat) }
    fn has_holes(&self) -> bool { matches!(self, Fs::Dos33 | Fs::Dos32 | Fs::Prodos | Fs::Cpm2 | Fs::Cpm3) }
    fn has_lock(&self) -> bool { !matches!(self, Fs::Pascal) }
    fn is_cpm(&self) -> bool { matches!(self, Fs::Cpm2 | Fs::Cpm3) }
    fn is_dos(&self) -> bool { matches!(self, Fs::Dos33 | Fs::Dos32) }
}

/// a volume configuration: file system + container + disk kind
#[derive(Clone)]
pub struct VolCfg { pub fs: Fs, pub container: &'static str, pub kind: DiskKind, pub kind_name: &'static str, pub flat: bool }

fn mk_img(container: &str, kind: DiskKind) -> Option<Box<dyn DiskImage>> {
    Some(match (container, kind) {
        ("d13", names::A2_DOS32_KIND) => Box::new(img::dsk_d13::D13::create(35)),
        ("do", names::A2_DOS33_KIND) => Box::new(img::dsk_do::DO::create(35, 16)),
        ("po", names::A2_DOS33_KIND) => Box::new(img::dsk_po::PO::create(280)),
        ("po", names::A2_400_KIND) => Box::new(img::dsk_po::PO::create(800)),
        ("po", names::A2_800_KIND) => Box::new(img::dsk_po::PO::create(1600)),
        ("po", names::A2_HD_MAX) => Box::new(img::dsk_po::PO::create(65535)),
        ("woz1", k) => Box::new(img::woz1::Woz1::create(254, k)),
        ("woz2", k) => Box::new(img::woz2::Woz2::create(254, k)),
        ("nib", k) => Box::new(img::nib::Nib::create(254, k)),
        ("2mg-do", k) => img::dot2mg::Dot2mg::create(254, k, Some(&"do".to_string())).ok()?,
        ("2mg-po", k) => img::dot2mg::Dot2mg::create(254, k, Some(&"po".to_string())).ok()?,
        ("2mg-nib", k) => img::dot2mg::Dot2mg::create(254, k, Some(&"nib".to_string())).ok()?,
        ("imd", k) => Box::new(img::imd::Imd::create(k)),
        ("td0", k) => Box::new(img::td0::Td0::create(k)),
        ("img", k) => Box::new(img::dsk_img::Img::create(k)),
        _ => return None,
    })
}

pub fn make_volume(cfg: &VolCfg) -> Result<Box<dyn DiskFS>, String> {
    let img = mk_img(cfg.container, cfg.kind).ok_or("no such container/kind")?;
    let e = |e: Box<dyn std::error::Error>| e.to_string();
    match cfg.fs {
        Fs::Dos33 => { let mut d = dos3x::Disk::from_img(img).map_err(e)?; d.init33(254, false).map_err(e)?; Ok(Box::new(d)) }
        Fs::Dos32 => { let mut d = dos3x::Disk::from_img(img).map_err(e)?; d.init32(254, false).map_err(e)?; Ok(Box::new(d)) }
        Fs::Prodos => {
            let floppy = matches!(cfg.kind, DiskKind::D35(_) | DiskKind::D525(_) | DiskKind::D8(_));
            let mut d = prodos::Disk::from_img(img).map_err(e)?; d.format("VERIF", floppy, None).map_err(e)?; Ok(Box::new(d))
        }
        Fs::Pascal => { let mut d = pascal::Disk::from_img(img).map_err(e)?; d.format("VERIF", 0xee, None).map_err(e)?; Ok(Box::new(d)) }
        Fs::Cpm2 => { let mut d = cpm::Disk::from_img(img, dpb::DiskParameterBlock::create(&cfg.kind), [2, 2, 3]).map_err(e)?; d.format("", None).map_err(e)?; Ok(Box::new(d)) }
        Fs::Cpm3 => {
            let t = chrono::NaiveDate::from_ymd_opt(2000, 1, 1).unwrap().and_hms_opt(0, 0, 0).unwrap();
            let mut d = cpm::Disk::from_img(img, dpb::DiskParameterBlock::create(&cfg.kind), [3, 1, 0]).map_err(e)?; d.format("VERIF", Some(t)).map_err(e)?; Ok(Box::new(d))
        }
        Fs::Fat => {
            let boot = bpb::BootSector::create(&cfg.kind).map_err(e)?;
            let mut d = fat::Disk::from_img(img, Some(boot)).map_err(e)?; d.format("VERIF", None).map_err(e)?; Ok(Box::new(d))
        }
    }
}

pub fn all_cfgs(thorough: bool) -> Vec<VolCfg> {
    let mut v = Vec::new();
    let mut add = |fs, container, kind, kind_name, flat| v.push(VolCfg { fs, container, kind, kind_name, flat });
    add(Fs::Dos33, "do", names::A2_DOS33_KIND, "a2-525-16", true);
    add(Fs::Dos32, "d13", names::A2_DOS32_KIND, "a2-525-13", true);
    add(Fs::Prodos, "po", names::A2_DOS33_KIND, "a2-525-16", true);
    add(Fs::Prodos, "po", names::A2_800_KIND, "a2-35-800", true);
    add(Fs::Pascal, "po", names::A2_DOS33_KIND, "a2-525-16", true);
    add(Fs::Cpm2, "do", names::A2_DOS33_KIND, "a2-525-16", false);
    add(Fs::Cpm2, "imd", names::OSBORNE1_DD_KIND, "osborne-dd", false);
    add(Fs::Cpm3, "imd", names::AMSTRAD_SS_KIND, "amstrad-ss", false);
    add(Fs::Cpm2, "imd", names::KAYPRO4_KIND, "kaypro4", false);
    add(Fs::Fat, "img", DiskKind::D525(names::IBM_SSDD_9), "ibm-ssdd-9", true);
    add(Fs::Fat, "img", DiskKind::D525(names::IBM_DSDD_9), "ibm-dsdd-9", true);
    add(Fs::Fat, "img", DiskKind::D35(names::IBM_720), "ibm-720", true);
    // non-flat containers: direct oracles only (no Lean reader tie)
    add(Fs::Dos33, "woz2", names::A2_DOS33_KIND, "a2-525-16", false);
    add(Fs::Prodos, "do", names::A2_DOS33_KIND, "a2-525-16", false);
    add(Fs::Pascal, "do", names::A2_DOS33_KIND, "a2-525-16", false);
    add(Fs::Fat, "imd", DiskKind::D525(names::IBM_DSDD_9), "ibm-dsdd-9", false);
    if thorough {
        add(Fs::Dos33, "nib", names::A2_DOS33_KIND, "a2-525-16", false);
        add(Fs::Dos33, "woz1", names::A2_DOS33_KIND, "a2-525-16", false);
        add(Fs::Dos32, "woz2", names::A2_DOS32_KIND, "a2-525-13", false);
        add(Fs::Dos32, "nib", names::A2_DOS32_KIND, "a2-525-13", false);
        add(Fs::Prodos, "po", names::A2_400_KIND, "a2-35-400", true);
        add(Fs::Prodos, "po", names::A2_HD_MAX, "a2-hd-max", false);
        add(Fs::Prodos, "woz2", names::A2_800_KIND, "a2-35-800", false);
        add(Fs::Prodos, "2mg-po", names::A2_800_KIND, "a2-35-800", false);
        add(Fs::Prodos, "2mg-do", names::A2_DOS33_KIND, "a2-525-16", false);
        add(Fs::Pascal, "woz2", names::A2_DOS33_KIND, "a2-525-16", false);
        add(Fs::Cpm2, "td0", names::OSBORNE1_SD_KIND, "osborne-sd", false);
        add(Fs::Cpm2, "imd", names::KAYPROII_KIND, "kayproii", false);
        add(Fs::Cpm2, "imd", names::IBM_CPM1_KIND, "ibm-cpm1", false);
        add(Fs::Cpm2, "imd", names::NABU_CPM_KIND, "nabu", false);
        add(Fs::Cpm2, "imd", names::TRS80_M2_CPM_KIND, "trs80-m2", false);
        add(Fs::Cpm3, "td0", names::AMSTRAD_SS_KIND, "amstrad-ss", false);
        add(Fs::Fat, "img", DiskKind::D525(names::IBM_SSDD_8), "ibm-ssdd-8", true);
        add(Fs::Fat, "img", DiskKind::D525(names::IBM_DSDD_8), "ibm-dsdd-8", true);
        add(Fs::Fat, "img", DiskKind::D525(names::IBM_SSQD), "ibm-ssqd", true);
        add(Fs::Fat, "img", DiskKind::D525(names::IBM_DSQD), "ibm-dsqd", true);
        add(Fs::Fat, "img", DiskKind::D525(names::IBM_DSHD), "ibm-dshd", true);
        add(Fs::Fat, "img", DiskKind::D35(names::IBM_1440), "ibm-1440", true);
        add(Fs::Fat, "img", DiskKind::D35(names::IBM_2880), "ibm-2880", true);
        add(Fs::Fat, "td0", DiskKind::D35(names::IBM_720), "ibm-720", false);
    }
    v
}

// ------------------------------------------------------------------------------------------
// synchronous client of the Lean driver
pub struct Drv { child: Child, sin: ChildStdin, sout: BufReader<ChildStdout>, pub requests: u64 }
impl Drv {
    pub fn spawn() -> Option<Drv> {
        let path = std::env::var("A2DRV").unwrap_or("/verif/lean/.lake/build/bin/a2drv".to_string());
        let mut cmd = Command::new(path);
        cmd.stdin(Stdio::piped()).stdout(Stdio::piped());
        die_with_parent(&mut cmd);
        let mut child = cmd.spawn().ok()?;
        let sin = child.stdin.take()?;
        let sout = BufReader::new(child.stdout.take()?);
        Some(Drv { child, sin, sout, requests: 0 })
    }
    pub fn ask(&mut self, req: &str) -> String {
        self.requests += 1;
        if let Ok(p) = std::env::var("A2V_LOG_REQ") { use std::io::Write as W2; if let Ok(mut f) = std::fs::OpenOptions::new().create(true).append(true).open(p) { let _ = writeln!(f, "{}", req); } }
        if writeln!(self.sin, "{}", req).is_err() { return "driver-dead".to_string(); }
        let _ = self.sin.flush();
        let mut line = String::new();
        match self.sout.read_line(&mut line) { Ok(0) | Err(_) => "driver-dead".to_string(), Ok(_) => line.trim_end().to_string() }
    }
}
impl Drop for Drv { fn drop(&mut self) { let _ = self.child.kill(); let _ = self.child.wait(); } }

// ------------------------------------------------------------------------------------------
// reference state

#[derive(Clone)]
pub struct RefFile { chunks: BTreeMap<usize, Vec<u8>>, eof: usize, ftype: Vec<u8>, aux: Vec<u8>, access: Vec<u8>, locked: bool }

/// generic record of the operation just executed, for the concrete-model ties in fs_<x>.rs
#[derive(Clone)]
pub struct OpRecord {
    /// put | delete | rename | lock | unlock | retype | mkdir | protect | unprotect
    pub kind: &'static str,
    /// path exactly as passed to the a2kit API, and its canonical form
    pub spelled: String,
    pub cpath: String,
    /// rename: new name as passed; retype: type string; protect: flags "r w d"
    pub arg2: String,
    /// retype: sub type / aux string
    pub arg3: String,
    /// put: the file image fields as passed
    pub fs_type: Vec<u8>, pub aux: Vec<u8>, pub access: Vec<u8>, pub created: Vec<u8>, pub modified: Vec<u8>, pub eof: usize,
    pub chunks: BTreeMap<usize, Vec<u8>>,
    /// Ok, or the error text of the real code ("PANIC" for a panic)
    pub result: Result<(), String>,
}
impl OpRecord {
    fn new<T>(kind: &'static str, spelled: &str, cpath: &str, arg2: &str, arg3: &str, res: &Result<Result<T, String>, String>) -> OpRecord {
        OpRecord { kind, spelled: spelled.to_string(), cpath: cpath.to_string(), arg2: arg2.to_string(), arg3: arg3.to_string(), fs_type: vec![], aux: vec![], access: vec![], created: vec![], modified: vec![], eof: 0, chunks: BTreeMap::new(),
            result: match res { Ok(Ok(_)) => Ok(()), Ok(Err(e)) => Err(e.clone()), Err(_) => Err("PANIC".to_string()) } }
    }
    fn with_fimg(mut self, f: &FileImage) -> OpRecord {
        self.fs_type = f.fs_type.clone(); self.aux = f.aux.clone(); self.access = f.access.clone(); self.created = f.created.clone(); self.modified = f.modified.clone(); self.eof = f.get_eof();
        self.chunks = f.chunks.iter().map(|(k, v)| (*k, v.clone())).collect();
        self
    }
}

pub struct World {
    pub cfg: VolCfg,
    pub disk: Box<dyn DiskFS>,
    pub files: BTreeMap<String, RefFile>,
    pub dirs: BTreeSet<String>,
    pub chunk_len: usize,
    pub hist: Vec<String>,
    /// the Lean-side description of the last operation (driver request `fs step …`)
    lean_op: Option<String>,
    pub last_op: Option<OpRecord>,
    /// Pascal on a flat PO image: the request for the concrete model (driver family `fsp`) describing the last
    /// operation, and — for queries — the answer the real code gave (None: a mutating operation, answer must be `ok`)
    pas_op: Option<(String, Option<String>)>,
    /// operations to execute before any generated one (last element first)
    forced: Vec<Op>,
    /// DOS 3.x on a flat DO / D13 image: the same for the concrete DOS model (driver family `fsd`)
    dos_op: Option<(String, Option<String>)>,
}

fn canon_path(fs: Fs, p: &str) -> String {
    match fs {
        Fs::Dos33 | Fs::Dos32 => p.to_string(),
        Fs::Prodos | Fs::Fat => p.trim_start_matches('/').to_uppercase(),
        Fs::Pascal => p.to_uppercase(),
        Fs::Cpm2 | Fs::Cpm3 => {
            let up = p.to_uppercase();
            let (user, name) = match up.split_once(':') { Some((u, n)) => (u.to_string(), n.to_string()), None => ("0".to_string(), up) };
            let name = if name.contains('.') { name } else { format!("{}.", name) };
            if user == "0" { name } else { format!("{}:{}", user, name) }
        }
    }
}

fn err_class(e: &str) -> &'static str {
    let l = e.to_lowercase();
    if l.contains("directory full") || l.contains("directory is full") || l.contains("no room in directory") { "dirfull" }
    else if l.contains("full") || l.contains("no room") || l.contains("insufficient space") || l.contains("no space") || l.contains("disk space") { "full" }
    else if l.contains("duplicate") || l.contains("exists") { "dup" }
    else if l.contains("lock") || l.contains("protect") || l.contains("read only") || l.contains("read-only") || l.contains("access") { "locked" }
    else if l.contains("not found") || l.contains("no file") { "nofile" }
    else { "other" }
}

impl World {
    pub fn fs(&self) -> Fs { self.cfg.fs }

    pub fn free(&mut self) -> Result<usize, String> { guarded(|| self.disk.stat().map(|s| s.free_blocks).map_err(|e| e.to_string())).and_then(|r| r) }

    /// tree(false) -> set of file paths and set of directory paths
    fn listing(&mut self) -> Result<(BTreeSet<String>, BTreeSet<String>), String> {
        let js = guarded(|| self.disk.tree(false, None).map_err(|e| e.to_string()))??;
        let root = json::parse(&js).map_err(|e| e.to_string())?;
        let mut files = BTreeSet::new();
        let mut dirs = BTreeSet::new();
        fn walk(node: &json::JsonValue, prefix: &str, files: &mut BTreeSet<String>, dirs: &mut BTreeSet<String>) {
            for (k, v) in node["files"].entries() {
                let p = if prefix.is_empty() { k.to_string() } else { format!("{}/{}", prefix, k) };
                if v.has_key("files") { dirs.insert(p.clone()); walk(v, &p, files, dirs); } else { files.insert(p); }
            }
        }
        walk(&root, "", &mut files, &mut dirs);
        if self.fs().is_cpm() {
            // user areas are rendered as one directory node per user number
            let files2: BTreeSet<String> = files.iter().map(|p| match p.split_once('/') { Some((u, n)) => format!("{}:{}", u, n), None => p.clone() }).collect();
            return Ok((files2, BTreeSet::new()));
        }
        Ok((files, dirs))
    }

    pub fn get(&mut self, path: &str) -> Result<Result<FileImage, String>, String> {
        guarded(|| self.disk.get(path).map_err(|e| e.to_string()))
    }

    /// compare a fetched file image with the reference; returns a description of the first difference
    fn compare(&self, path: &str, r: &RefFile, g: &FileImage) -> Option<String> {
        let fs = self.fs();
        let gi: BTreeSet<usize> = g.chunks.keys().cloned().collect();
        let ri: BTreeSet<usize> = r.chunks.keys().cloned().collect();
        if gi != ri { return Some(format!("chunk-indices path={} stored={:?} got={:?}", path, ri.iter().take(8).collect::<Vec<_>>(), gi.iter().take(8).collect::<Vec<_>>())); }
        for (i, d) in &r.chunks {
            let gd = &g.chunks[i];
            if gd.len() < d.len() || gd[..d.len()] != d[..] || gd.len() > self.chunk_len.max(d.len()) { return Some(format!("chunk-data path={} index={}", path, i)); }
            if gd[d.len()..].iter().any(|b| *b != 0) && false { return Some(format!("chunk-padding path={} index={}", path, i)); }
        }
        // metadata
        match fs {
            Fs::Dos33 | Fs::Dos32 => { if g.fs_type.first().map(|b| b & 0x7f) != r.ftype.first().map(|b| b & 0x7f) { return Some(format!("type path={}", path)); } }
            Fs::Prodos => {
                if g.fs_type != r.ftype { return Some(format!("type path={}", path)); }
                if g.aux != r.aux { return Some(format!("aux path={}", path)); }
                let m = |a: &Vec<u8>| a.first().map(|b| b & !0x20u8 & !0xC2u8);
                if m(&g.access) != m(&r.access) { return Some(format!("access path={}", path)); }
                if g.get_eof() != r.eof { return Some(format!("eof path={} stored={} got={}", path, r.eof, g.get_eof())); }
            }
            Fs::Pascal => {
                if g.fs_type != r.ftype { return Some(format!("type path={}", path)); }
                if g.get_eof() != r.eof { return Some(format!("eof path={} stored={} got={}", path, r.eof, g.get_eof())); }
            }
            Fs::Cpm2 => { let want = (r.eof + 127) / 128 * 128; if g.get_eof() != want { return Some(format!("eof path={} stored={} want={} got={}", path, r.eof, want, g.get_eof())); } }
            Fs::Cpm3 => { if g.get_eof() != r.eof { return Some(format!("eof path={} stored={} got={}", path, r.eof, g.get_eof())); } }
            Fs::Fat => {
                if g.get_eof() != r.eof { return Some(format!("eof path={} stored={} got={}", path, r.eof, g.get_eof())); }
            }
        }
        None
    }
}

// ------------------------------------------------------------------------------------------
// generators

fn gen_name(fs: Fs, rng: &mut Rng, dirs: &BTreeSet<String>) -> String {
    let letters = b"ABCDEFGHIJKLMNOPQRSTUVWXYZ";
    let alnum = b"ABCDEFGHIJKLMNOPQRSTUVWXYZ0123456789";
    let mut word = |rng: &mut Rng, lo: usize, hi: usize, set: &[u8]| -> String {
        let n = rng.range(lo, hi);
        let mut s = String::new();
        s.push(*rng.pick(letters) as char);
        for _ in 1..n { s.push(*rng.pick(set) as char); }
        s
    };
    match fs {
        Fs::Dos33 | Fs::Dos32 => {
            let n = *rng.pick(&[1usize, 2, 5, 8, 12, 29, 30]);
            let mut s = word(rng, n, n, b"ABCDEFGHIJKLMNOPQRSTUVWXYZ0123456789 .-");
            while s.ends_with(' ') { s.pop(); s.push('Z'); }
            s
        }
        Fs::Prodos => {
            let n = *rng.pick(&[1usize, 3, 8, 14, 15]);
            let base = word(rng, n, n, b"ABCDEFGHIJKLMNOPQRSTUVWXYZ0123456789.");
            let base = if rng.chance(20) { base.to_lowercase() } else { base };
            if !dirs.is_empty() && rng.chance(50) { let d: Vec<&String> = dirs.iter().collect(); format!("{}/{}", rng.pick(&d), base) } else { base }
        }
        Fs::Pascal => { let n = *rng.pick(&[1usize, 4, 9, 15]); let s = word(rng, n, n, b"ABCDEFGHIJKLMNOPQRSTUVWXYZ0123456789.-"); if rng.chance(20) { s.to_lowercase() } else { s } }
        Fs::Cpm2 | Fs::Cpm3 => {
            let b = word(rng, 1, 8, alnum);
            let e = if rng.chance(80) { word(rng, 1, 3, alnum) } else { String::new() };
            let s = if e.is_empty() { b } else { format!("{}.{}", b, e) };
            let s = if rng.chance(15) { s.to_lowercase() } else { s };
            if rng.chance(25) { format!("{}:{}", rng.range(1, 15), s) } else { s }
        }
        Fs::Fat => {
            let b = word(rng, 1, 8, alnum);
            let e = if rng.chance(80) { word(rng, 1, 3, alnum) } else { String::new() };
            let s = if e.is_empty() { b } else { format!("{}.{}", b, e) };
            let s = if rng.chance(15) { s.to_lowercase() } else { s };
            if !dirs.is_empty() && rng.chance(50) { let d: Vec<&String> = dirs.iter().collect(); format!("{}/{}", rng.pick(&d), s) } else { s }
        }
    }
}

fn gen_dirname(fs: Fs, rng: &mut Rng, dirs: &BTreeSet<String>) -> String {
    let letters = b"ABCDEFGHIJKLMNOPQRSTUVWXYZ";
    let n = rng.range(1, 6);
    let mut s = String::new();
    for _ in 0..n { s.push(*rng.pick(letters) as char); }
    s.push_str("D");
    let _ = fs;
    if !dirs.is_empty() && rng.chance(30) { let d: Vec<&String> = dirs.iter().collect(); format!("{}/{}", rng.pick(&d), s) } else { s }
}

/// sizes in chunks, biased towards structure boundaries and the remaining free space
fn gen_nchunks(fs: Fs, rng: &mut Rng, free: usize, focus: Focus) -> usize {
    let boundary: &[usize] = match fs {
        Fs::Dos33 | Fs::Dos32 => &[1, 2, 121, 122, 123, 244, 245],
        Fs::Prodos => &[1, 2, 3, 255, 256, 257, 258],
        Fs::Pascal => &[1, 2, 7, 33],
        Fs::Cpm2 | Fs::Cpm3 => &[1, 2, 7, 8, 9, 15, 16, 17, 31, 32, 33, 64, 65],
        Fs::Fat => &[1, 2, 3, 8, 17],
    };
    let near_full = matches!(focus, Focus::C04) || rng.chance(12);
    let r = rng.below(100);
    let n = if near_full && free > 0 { let d = rng.below(7); (free + 2).saturating_sub(d).max(1) }
        else if r < 45 { rng.range(1, 6) }
        else if r < 75 { let b = *rng.pick(boundary); if fs.is_dos() && rng.chance(40) { 122 * rng.range(1, 2) } else { b } }
        else { rng.range(1, (free / 3).max(2)) };
    n.max(1)
}

fn gen_chunk(rng: &mut Rng, len: usize) -> Vec<u8> {
    match rng.below(6) {
        0 => vec![rng.byte(); len],
        1 => { let mut v = vec![0u8; len]; if len > 0 { v[rng.below(len)] = rng.byte() | 1; } v }
        2 => {
            // uniform except one byte at the edge of a physical sector (run-length / uniformity tests of the containers)
            let c = rng.byte();
            let mut v = vec![c; len];
            let edges: Vec<usize> = [0usize, 1, 126, 127, 128, 129, 254, 255, 256, 257, 510, 511, 512, 513, 1022, 1023, 1024].iter().cloned().filter(|e| *e < len).collect();
            let mut picks = vec![len.saturating_sub(1)];
            if !edges.is_empty() { picks.push(*rng.pick(&edges)); if rng.chance(40) { picks.push(*rng.pick(&edges)); } }
            for p in picks { if p < len { v[p] = c ^ (1 + rng.byte() % 255); } }
            v
        }
        _ => rng.bytes(len),
    }
}

// ------------------------------------------------------------------------------------------
// operations

enum Op { Put { path: String, nchunks: usize, holes: bool, last_len: usize, ftype_sel: usize }, Delete(String), Rename(String, String), Lock(String), Unlock(String), Retype(String, usize), Mkdir(String), PutDup(String), RenameOnto(String, String), GetMissing(String), DeleteMissing(String), Protect(String), Unprotect(String), PutBad(usize) }

pub struct Verdicts<'a> { pub out: &'a mut Out, pub focus: Focus, pub idx: usize, pub cfgid: String }
impl<'a> Verdicts<'a> {
    pub fn v(&mut self, owner: Focus, pass: bool, oracle: &str, detail: &str, hist: &[String]) {
        // the byte-exact concrete models include the allocator, so their verdicts also count for C04
        // (usable free space); every concrete tie reports under C03 among others
        let owner = if oracle.starts_with("concrete-model") && owner == Focus::C03 && self.focus == Focus::C04 { Focus::C04 } else { owner };
        if owner != self.focus { return; }
        let sig = format!("{}/{}/{}", self.focus.id(), self.cfgid.split('/').next().unwrap_or(""), oracle);
        if pass { self.out.count(&format!("oracle-pass:{}", oracle)); self.out.oracle(true, oracle, &sig, &format!("idx={}", self.idx)); }
        else {
            let h = if hist.len() > 40 { format!("…{}", hist[hist.len() - 40..].join("; ")) } else { hist.join("; ") };
            self.out.oracle(false, oracle, &sig, &format!("idx={} cfg={} {} history=[{}]", self.idx, self.cfgid, detail, h));
        }
    }
    fn panic(&mut self, site: &str, what: &str, hist: &[String]) {
        let sig = format!("{}/{}/panic:{}", self.focus.id(), self.cfgid.split('/').next().unwrap_or(""), panic_site(site));
        let h = if hist.len() > 40 { format!("…{}", hist[hist.len() - 40..].join("; ")) } else { hist.join("; ") };
        self.out.oracle(false, "no-panic", &sig, &format!("idx={} cfg={} panic in {} at {} history=[{}]", self.idx, self.cfgid, what, site, h));
    }
}

fn ftype_for(fs: Fs, sel: usize, path: &str) -> (Vec<u8>, Vec<u8>, Option<Vec<u8>>) {
    // (fs_type, aux, access override)
    match fs {
        Fs::Dos33 | Fs::Dos32 => (vec![[0u8, 1, 2, 4][sel % 4]], vec![], None),
        Fs::Prodos => (vec![[0x04u8, 0x06, 0xFC, 0xFF, 0x00, 0xB3][sel % 6]], vec![(sel * 37 % 256) as u8, (sel * 11 % 256) as u8], Some(vec![0xC3])),
        Fs::Pascal => (vec![[2u8, 3, 5][sel % 3], 0], vec![], None),
        _ => { let _ = path; (vec![], vec![], None) }
    }
}

pub struct FsRun<'a> { pub ctx: &'a mut Ctx, pub focus: Focus }

pub fn run(ctx: &mut Ctx, focus: Focus) {
    let cfgs = all_cfgs(ctx.tier_thorough);
    let n_hist = match focus { Focus::C06 => ctx.n(90, 500), _ => ctx.n(120, 900) };
    let mut rng = Rng::new(ctx.seed ^ (focus as u64) << 32);
    let mut drv = Drv::spawn();
    if drv.is_none() { ctx.out.count("driver-missing"); }
    for idx in 0..n_hist {
        let mut crng = rng.fork(idx as u64);
        if !ctx.out.wants(idx) { continue; }
        // flat configurations (with the Lean tie) get two thirds of the histories
        let flats: Vec<&VolCfg> = cfgs.iter().filter(|c| c.flat || c.fs.is_cpm()).collect();
        let cfg = if idx % 3 != 2 { flats[(idx / 3 * 2 + idx % 3) % flats.len()].clone() } else { cfgs[(idx / 3) % cfgs.len()].clone() };
        let slow = matches!(cfg.container, "woz1" | "woz2" | "nib" | "2mg-nib") || cfg.kind == names::A2_HD_MAX;
        let steps = if slow { crng.range(4, 10) } else if ctx.tier_thorough { crng.range(10, 60) } else { crng.range(8, 36) };
        one_history(ctx, focus, idx, &cfg, steps, &mut crng, drv.as_mut(), Vec::new());
    }
    // once per run (too big to build per history): after one ordinary file, a Pascal file image with 65536 chunk keys
    if matches!(focus, Focus::C01 | Focus::C02 | Focus::C03 | Focus::C05) && ctx.out.wants(n_hist) {
        if let Some(cfg) = cfgs.iter().find(|c| c.fs == Fs::Pascal && c.flat && c.container == "po") {
            let cfg = cfg.clone();
            let mut crng = rng.fork(n_hist as u64);
            let forced = vec![Op::PutBad(9), Op::Put { path: "KEEP".to_string(), nchunks: 3, holes: false, last_len: 100, ftype_sel: 1 }];
            one_history(ctx, focus, n_hist, &cfg, 2, &mut crng, drv.as_mut(), forced);
        }
    }
    if let Some(d) = &drv { ctx.out.count_n("lean-requests", d.requests); }
}

fn dump_units(w: &mut World) -> Option<(usize, Vec<Vec<u8>>)> {
    // the raw volume as the independent reader sees it
    let fs = w.fs();
    if fs.is_cpm() {
        let st = guarded(|| w.disk.stat()).ok()?.ok()?;
        let mut units = Vec::new();
        for b in 0..st.block_end { match guarded(|| w.disk.read_block(&b.to_string())) { Ok(Ok(d)) => units.push(d), _ => return None } }
        return Some((st.block_size, units));
    }
    if !w.cfg.flat { return None; }
    let bytes = guarded(|| w.disk.get_img().to_bytes()).ok()?;
    let ul = if fs.is_dos() { 256 } else { 512 };
    Some((ul, bytes.chunks(ul).map(|c| c.to_vec()).collect()))
}

struct LeanTie { prev: Vec<Vec<u8>>, opened: bool }

fn lean_sync(drv: &mut Drv, tie: &mut LeanTie, w: &mut World) -> Option<String> {
    let (ul, units) = dump_units(w)?;
    if !tie.opened {
        let extra = lean_params(w);
        let a = drv.ask(&format!("fs open {} {} {} {}", w.fs().id(), ul, units.len(), extra));
        if a != "ok" { return Some(format!("open: {}", a)); }
        tie.opened = true;
        tie.prev = vec![vec![0u8; ul]; units.len()];
    }
    let mut req = String::from("fs set");
    let mut n = 0;
    for (i, u) in units.iter().enumerate() {
        if i >= tie.prev.len() || tie.prev[i] != *u { req.push_str(&format!(" {}:{}", i, hx(u))); n += 1; }
        if req.len() > 200_000 { let a = drv.ask(&req); if a != "ok" { return Some(format!("set: {}", a)); } req = String::from("fs set"); }
    }
    if n > 0 && req.len() > 6 { let a = drv.ask(&req); if a != "ok" { return Some(format!("set: {}", a)); } }
    tie.prev = units;
    None
}

fn lean_params(w: &mut World) -> String {
    // parameters the reader cannot find on the disk itself (CP/M: the DPB lives in the BIOS)
    if w.fs().is_cpm() {
        let d = dpb::DiskParameterBlock::create(&w.cfg.kind);
        format!("bsh={} exm={} dsm={} drm={} al0={} al1={} v3={}", d.bsh, d.exm, d.dsm, d.drm, d.al0, d.al1, if w.fs() == Fs::Cpm3 { 1 } else { 0 })
    } else { String::from("-") }
}

/// everything that follows one executed operation: API oracles, mirror of the saved image into the driver,
/// per-step refinement check, independent reading, and the byte-exact concrete-model ties
fn post_step(w: &mut World, vd: &mut Verdicts, drv: &mut Option<&mut Drv>, tie: &mut LeanTie, use_lean: bool, use_pas: bool, use_dos: bool, desc: &str) {
    let lean_op = w.lean_op.take().unwrap_or("other err".to_string());
    check_bystanders(w, vd, desc);
    check_listing(w, vd);
    if use_lean {
        if let Some(d) = drv.as_deref_mut() {
            if let Some(e) = lean_sync(d, tie, w) { vd.out.count(&format!("lean-sync-error:{}", e)); }
            else if !desc.starts_with("skip") && !desc.starts_with("ABORT") {
                let summary = lean_step(d, w, vd, &lean_op, desc);
                lean_check_answer(&summary, w, vd, desc);
            } else { lean_check(d, w, vd, desc, None); }
            if use_pas && !desc.starts_with("ABORT") {
                if let Some((req, expect)) = w.pas_op.take() { pas_tie(d, w, vd, &req, expect, desc); }
                pas_queries(d, w, vd, desc);
            }
            if !desc.starts_with("ABORT") && w.cfg.flat {
                match w.cfg.fs {
                    Fs::Prodos => super::fs_prodos::after_step(d, w, vd, desc),
                    Fs::Fat => super::fs_fat::after_step(d, w, vd, desc),
                    _ => {}
                }
            }
            if !desc.starts_with("ABORT") && w.cfg.fs.is_cpm() { super::fs_cpm::after_step(d, w, vd, desc); }
            if use_dos && !desc.starts_with("ABORT") {
                if let Some((req, expect)) = w.dos_op.take() { dos_tie(d, w, vd, &req, expect, desc); }
                dos_queries(d, w, vd, desc);
            }
        }
    }
}

fn one_history(ctx: &mut Ctx, focus: Focus, idx: usize, cfg: &VolCfg, steps: usize, rng: &mut Rng, mut drv: Option<&mut Drv>, forced: Vec<Op>) {
    let cfgid = format!("{}/{}/{}", cfg.fs.id(), cfg.container, cfg.kind_name);
    ctx.out.count(&format!("cfg:{}", cfgid));
    let disk = match guarded(|| make_volume(cfg)) {
        Ok(Ok(d)) => d,
        Ok(Err(e)) => { ctx.out.count(&format!("mkvol-error:{}:{}", cfgid, e)); return; }
        Err(p) => { let mut vd = Verdicts { out: &mut ctx.out, focus, idx, cfgid: cfgid.clone() }; vd.panic(&p, "format", &[]); return; }
    };
    let mut w = World { cfg: cfg.clone(), disk, files: BTreeMap::new(), dirs: BTreeSet::new(), chunk_len: 0, hist: Vec::new(), lean_op: None, last_op: None, pas_op: None, dos_op: None, forced: Vec::new() };
    w.forced = forced;
    w.chunk_len = match guarded(|| w.disk.new_fimg(None, false, if cfg.fs.is_cpm() || cfg.fs == Fs::Fat { "A.TXT" } else { "A" })) { Ok(Ok(f)) => f.chunk_len, _ => 512 };
    let mut tie = LeanTie { prev: Vec::new(), opened: false };
    let use_lean = drv.is_some() && (cfg.flat || cfg.fs.is_cpm()) && lean_supported(cfg.fs);
    // byte-exact tie of the concrete Pascal model (Lean `Model/Fs/Pascal.lean`): Pascal on a flat PO image only
    let use_pas = use_lean && cfg.fs == Fs::Pascal && cfg.flat && cfg.container == "po" && std::env::var("A2V_NO_FSP").is_err();
    // byte-exact tie of the concrete DOS 3.x model (Lean `Model/Fs/Dos3x.lean`): DOS 3.3 on flat DO, DOS 3.2 on flat D13
    let use_dos = use_lean && cfg.fs.is_dos() && cfg.flat && matches!(cfg.container, "do" | "d13") && std::env::var("A2V_NO_FSD").is_err();
    let mut canon: Vec<u8> = cfgid.as_bytes().to_vec();
    let mut nontrivial = false;
    let mut vd = Verdicts { out: &mut ctx.out, focus, idx, cfgid: cfgid.clone() };
    if use_lean {
        if let Some(d) = drv.as_deref_mut() {
            if let Some(e) = lean_sync(d, &mut tie, &mut w) { vd.out.count(&format!("lean-sync-error:{}", e)); }
            else {
                lean_check(d, &mut w, &mut vd, "format", None);
                if cfg.fs.is_cpm() { super::fs_cpm::after_step(d, &mut w, &mut vd, "format"); }
                if use_pas { pas_tie(d, &mut w, &mut vd, &format!("format {} {} {} ok", hxs("VERIF"), 0xee, hx(&pas_date())), None, "format"); pas_queries(d, &mut w, &mut vd, "format"); }
                if use_dos { dos_tie(d, &mut w, &mut vd, &format!("init {} 254 ok", if cfg.fs == Fs::Dos32 { 13 } else { 16 }), None, "format"); }
            }
        }
    }
    // CP/M 3 scenario: the same 8+3 name in two user areas, both password protected, then one of them unprotected
    // (entries of different user areas must never be confused; protection is per file)
    if cfg.fs == Fs::Cpm3 && rng.chance(60) {
        let base = format!("{}.{}", ["SAME", "TWIN", "DUP"][rng.below(3)], ["TXT", "BIN", "X"][rng.below(3)]);
        let (u1, u2) = (rng.range(0, 7), rng.range(8, 15));
        let n1 = if u1 == 0 { base.clone() } else { format!("{}:{}", u1, base) };
        let n2 = format!("{}:{}", u2, base);
        let mut script: Vec<Op> = vec![
            Op::Put { path: n1.clone(), nchunks: rng.range(1, 20), holes: false, last_len: 77, ftype_sel: 0 },
            Op::Put { path: n2.clone(), nchunks: rng.range(1, 3), holes: false, last_len: 99, ftype_sel: 0 },
            Op::Protect(canon_path(cfg.fs, &n1)), Op::Protect(canon_path(cfg.fs, &n2)),
        ];
        if rng.chance(50) { script.push(Op::Lock(canon_path(cfg.fs, &n2))); }
        script.push(Op::Unprotect(canon_path(cfg.fs, if rng.chance(50) { &n1 } else { &n2 })));
        for op in script {
            let free = w.free().unwrap_or(0);
            w.lean_op = None; w.last_op = None; w.pas_op = None; w.dos_op = None;
            let d = apply_op(&mut w, op, rng, free, &mut vd, &mut nontrivial);
            canon.extend_from_slice(d.as_bytes());
            if d.starts_with("ABORT") { break; }
            post_step(&mut w, &mut vd, &mut drv, &mut tie, use_lean, use_pas, use_dos, &d);
        }
        vd.out.count("cpm3-protect-scenario");
    }
    // pre-soil: fill the free space once with non-zero data and delete it, so that free units hold stale bytes
    // (a structure that is linked but never written then shows up as garbage instead of zeros)
    if !slow_cfg(cfg) && rng.chance(45) {
        if let Ok(free) = w.free() {
            let overhead = match cfg.fs { Fs::Dos33 | Fs::Dos32 => 1 + free / 122, Fs::Prodos => if free > 256 { 2 + free / 256 } else { 1 }, Fs::Pascal => 0, _ => 0 };
            let n = free.saturating_sub(overhead + 1).max(1);
            let name = if cfg.fs.is_cpm() || cfg.fs == Fs::Fat { "SOIL.BIN" } else { "SOIL" };
            let op = Op::Put { path: name.to_string(), nchunks: n, holes: false, last_len: w.chunk_len, ftype_sel: 1 };
            w.lean_op = None; w.last_op = None; w.pas_op = None; w.dos_op = None;
            let d1 = apply_op(&mut w, op, rng, free, &mut vd, &mut nontrivial);
            canon.extend_from_slice(d1.as_bytes());
            if !d1.starts_with("ABORT") { post_step(&mut w, &mut vd, &mut drv, &mut tie, use_lean, use_pas, use_dos, &d1); }
            let cp = canon_path(cfg.fs, name);
            if w.files.contains_key(&cp) {
                let f2 = w.free().unwrap_or(0);
                w.lean_op = None; w.last_op = None; w.pas_op = None; w.dos_op = None;
                let d2 = apply_op(&mut w, Op::Delete(cp), rng, f2, &mut vd, &mut nontrivial);
                canon.extend_from_slice(d2.as_bytes());
                if !d2.starts_with("ABORT") { post_step(&mut w, &mut vd, &mut drv, &mut tie, use_lean, use_pas, use_dos, &d2); }
            }
            vd.out.count("pre-soil");
        }
    }
    // directory-pressure burst: many one-chunk files into one directory, sized to cross the directory's
    // capacity / growth boundaries (catalog full, sub-directory growing into its 2nd and 3rd block or cluster)
    let mut burst: Option<(String, usize)> = None;
    if !slow_cfg(cfg) && rng.chance(40) {
        let fs = cfg.fs;
        let counts: &[usize] = match fs {
            Fs::Dos33 | Fs::Dos32 => &[20, 103, 104, 105, 106],
            Fs::Pascal => &[20, 76, 77, 78],
            Fs::Prodos => &[12, 13, 14, 25, 26, 27, 50, 51, 52],
            Fs::Cpm2 | Fs::Cpm3 => &[30, 46, 47, 48, 49, 62, 63, 64, 65],
            Fs::Fat => &[13, 14, 15, 16, 29, 30, 31, 32, 33, 46, 47, 62, 63, 64, 65, 110, 111, 112, 113],
        };
        let k = *rng.pick(counts);
        let dir = if fs.has_dirs() && rng.chance(60) { "BURSTD".to_string() } else { String::new() };
        burst = Some((dir, k));
    }
    let mut burst_started = false;
    let total_steps = steps + burst.as_ref().map(|b| b.1 + 1).unwrap_or(0);
    for step in 0..total_steps {
        let free = match w.free() { Ok(f) => f, Err(e) => { if e.contains(".rs:") { vd.panic(&e, "stat", &w.hist.clone()); } return; } };
        let op = match burst.as_mut() {
            Some((dir, left)) if *left > 0 && step >= 2 => {
                if !dir.is_empty() && !burst_started { burst_started = true; Op::Mkdir(dir.clone()) }
                else {
                    burst_started = true;
                    *left -= 1;
                    let base = gen_name(cfg.fs, rng, &BTreeSet::new());
                    let base = base.split(':').last().unwrap().to_string();
                    let path = if dir.is_empty() { base } else { format!("{}/{}", dir, base) };
                    // now and then the entry that makes the directory grow is itself a directory
                    if cfg.fs.has_dirs() && rng.chance(12) { Op::Mkdir(path) }
                    else { Op::Put { path, nchunks: 1, holes: false, last_len: rng.range(1, w.chunk_len.max(1)), ftype_sel: rng.below(64) } }
                }
            }
            _ => choose_op(&mut w, rng, free, focus),
        };
        w.lean_op = None; w.last_op = None;
        w.pas_op = None;
        w.dos_op = None;
        let desc = apply_op(&mut w, op, rng, free, &mut vd, &mut nontrivial);
        canon.extend_from_slice(desc.as_bytes());
        if desc.starts_with("ABORT") { break; }
        post_step(&mut w, &mut vd, &mut drv, &mut tie, use_lean, use_pas, use_dos, &desc);
    }
    // pressure fill: use up the remaining free space so that any unit wrongly marked free (by an earlier,
    // possibly refused, operation) is handed out again and the damage becomes visible in the files; then free
    // some space in the middle of the volume and fill it again exactly (allocator wrap-around paths)
    if !slow_cfg(cfg) && rng.chance(if focus == Focus::C04 { 85 } else { 50 }) {
        let mut phase = 0; // 0 = first fill, 1 = refill after a delete
        let mut rounds = 0;
        loop {
            rounds += 1;
            if rounds > 12 { break; }
            let free = match w.free() { Ok(f) => f, Err(_) => break };
            let op = if free == 0 || (phase == 0 && rounds > 6) {
                if phase == 1 { break; }
                phase = 1;
                let names: Vec<String> = w.files.iter().filter(|(_, r)| !r.locked).map(|(k, _)| k.clone()).collect();
                if names.is_empty() { break; }
                Op::Delete(names[rng.below(names.len())].clone())
            } else {
                let overhead = match cfg.fs { Fs::Dos33 | Fs::Dos32 => 1 + free / 122, Fs::Prodos => if free > 256 { 2 + free / 256 } else if free > 1 { 1 } else { 0 }, _ => 0 };
                let n = (if rounds % 3 == 1 && free > 8 { free / 2 } else { free.saturating_sub(overhead) }).max(1);
                Op::Put { path: gen_name(cfg.fs, rng, &BTreeSet::new()), nchunks: n, holes: false, last_len: w.chunk_len, ftype_sel: rng.below(64) }
            };
            w.lean_op = None; w.last_op = None; w.pas_op = None; w.dos_op = None;
            let desc = apply_op(&mut w, op, rng, free, &mut vd, &mut nontrivial);
            canon.extend_from_slice(desc.as_bytes());
            if desc.starts_with("ABORT") { break; }
            post_step(&mut w, &mut vd, &mut drv, &mut tie, use_lean, use_pas, use_dos, &desc);
            if desc.contains("=> err") && desc.starts_with("put") {
                if phase == 1 { break; }
                phase = 1;
                let names: Vec<String> = w.files.iter().filter(|(_, r)| !r.locked).map(|(k, _)| k.clone()).collect();
                if names.is_empty() { break; }
                let f0 = w.free().unwrap_or(0);
                w.lean_op = None; w.last_op = None; w.pas_op = None; w.dos_op = None;
                let d = apply_op(&mut w, Op::Delete(names[rng.below(names.len())].clone()), rng, f0, &mut vd, &mut nontrivial);
                canon.extend_from_slice(d.as_bytes());
                if d.starts_with("ABORT") { break; }
                post_step(&mut w, &mut vd, &mut drv, &mut tie, use_lean, use_pas, use_dos, &d);
            }
        }
        vd.out.count("pressure-fill");
    }
    // end of history: everything still reads back (C01), protected files are intact (C19), and the volume survives save/reload (C06)
    check_all_files(&mut w, &mut vd, Focus::C01, "all-files-read-back");
    check_all_files(&mut w, &mut vd, Focus::C19, "protected-files-intact");
    check_all_files(&mut w, &mut vd, Focus::C02, "all-files-intact-at-end");
    if focus == Focus::C06 { check_reload(&mut w, &mut vd, rng); }
    if w.hist.len() >= 3 { nontrivial = nontrivial || w.files.len() >= 2; }
    let sample = format!("idx={} cfg={} steps={} files={} history=[{}]", idx, cfgid, w.hist.len(), w.files.len(), w.hist.iter().take(12).cloned().collect::<Vec<_>>().join("; "));
    ctx.out.sample(&sample);
    ctx.out.case(&canon, nontrivial);
}

fn slow_cfg(cfg: &VolCfg) -> bool { matches!(cfg.container, "woz1" | "woz2" | "nib" | "2mg-nib") || cfg.kind == names::A2_HD_MAX }
fn lean_supported(fs: Fs) -> bool { std::env::var("A2V_LEAN_FS").map(|s| s.split(',').any(|x| x == fs.id())).unwrap_or(true) }

fn choose_op(w: &mut World, rng: &mut Rng, free: usize, focus: Focus) -> Op {
    if let Some(op) = w.forced.pop() { return op; }
    let fs = w.fs();
    let existing: Vec<String> = w.files.keys().cloned().collect();
    let r = rng.below(100);
    let have = !existing.is_empty();
    let pick = |rng: &mut Rng| existing[rng.below(existing.len())].clone();
    let lockw = if focus == Focus::C19 { 30 } else { 8 };
    if !have || r < 38 {
        if fs.has_dirs() && rng.chance(if w.dirs.len() < 2 { 25 } else { 6 }) { return Op::Mkdir(gen_dirname(fs, rng, &w.dirs)); }
        let n = gen_nchunks(fs, rng, free, focus);
        let mut path = gen_name(fs, rng, &w.dirs);
        if fs.is_cpm() && have && rng.chance(30) {
            // the same 8+3 name in another user area (entries of different users must never be confused)
            let other = pick(rng);
            let base = other.split(':').last().unwrap().to_string();
            let u = rng.range(0, 15);
            path = if u == 0 { base } else { format!("{}:{}", u, base) };
        }
        let holes = fs.has_holes() && rng.chance(25) && n > 2;
        return Op::Put { path, nchunks: n, holes, last_len: if rng.chance(40) { w.chunk_len } else { rng.range(1, w.chunk_len.max(1)) }, ftype_sel: rng.below(64) };
    }
    if r < 52 { return Op::Delete(pick(rng)); }
    if r < 62 { let p = pick(rng); let base = gen_name(fs, rng, &BTreeSet::new()); return Op::Rename(p, base); }
    if r < 62 + lockw && fs.has_lock() { let p = pick(rng); return if w.files[&p].locked || rng.chance(30) { Op::Unlock(p) } else { Op::Lock(p) }; }
    if r < 78 {
        if fs == Fs::Cpm3 { let p = pick(rng); return if rng.chance(55) { Op::Protect(p) } else { Op::Unprotect(p) }; }
        return Op::Retype(pick(rng), rng.below(64));
    }
    if r < 84 { return Op::PutDup(pick(rng)); }
    if r < 89 && existing.len() >= 2 { let a = pick(rng); let b = pick(rng); if a != b { return Op::RenameOnto(a, b); } }
    // Pascal: a file image the 16-bit directory fields cannot record (length beyond the chunks, over-long chunk, length too short)
    if fs == Fs::Pascal && r < 93 && rng.chance(40) { return Op::PutBad(rng.below(3)); }
    if r < 93 { return Op::GetMissing(gen_name(fs, rng, &w.dirs)); }
    if r < 96 { return Op::DeleteMissing(gen_name(fs, rng, &w.dirs)); }
    Op::Delete(pick(rng))
}

/// another legal spelling of an existing path: the case-insensitive file systems must treat it as the same file
fn spell(fs: Fs, cp: &str, rng: &mut Rng) -> String {
    if fs.is_dos() || !rng.chance(35) { return cp.to_string(); }
    let mut out = String::new();
    let all = rng.chance(50);
    for ch in cp.chars() { if ch.is_ascii_uppercase() && (all || rng.chance(50)) { out.push(ch.to_ascii_lowercase()); } else { out.push(ch); } }
    if fs.is_cpm() && !out.contains(':') && rng.chance(30) { out = format!("0:{}", out); }
    out
}
fn clone_fimg(f: &FileImage) -> FileImage {
    FileImage { fimg_version: f.fimg_version.clone(), file_system: f.file_system.clone(), chunk_len: f.chunk_len, eof: f.eof.clone(), fs_type: f.fs_type.clone(), aux: f.aux.clone(), access: f.access.clone(),
        accessed: f.accessed.clone(), created: f.created.clone(), modified: f.modified.clone(), version: f.version.clone(), min_version: f.min_version.clone(), full_path: f.full_path.clone(),
        chunks: f.chunks.iter().map(|(k, v)| (*k, v.clone())).collect() }
}
fn hxs(s: &str) -> String { hx(s.as_bytes()) }
fn type_num(fs: Fs, r: &RefFile) -> (usize, usize) {
    match fs {
        Fs::Dos33 | Fs::Dos32 => (r.ftype.first().map(|b| (*b & 0x7f) as usize).unwrap_or(0), 0),
        Fs::Prodos => (r.ftype.first().map(|b| *b as usize).unwrap_or(0), r.aux.get(0).map(|b| *b as usize).unwrap_or(0) + 256 * r.aux.get(1).map(|b| *b as usize).unwrap_or(0)),
        Fs::Pascal => (r.ftype.get(0).map(|b| *b as usize).unwrap_or(0) + 256 * r.ftype.get(1).map(|b| *b as usize).unwrap_or(0), 0),
        _ => (0, 0),
    }
}
fn res_tok<T>(r: &Result<Result<T, String>, String>) -> &'static str { match r { Ok(Ok(_)) => "ok", _ => "err" } }
fn hist_len_even(w: &World) -> bool { w.hist.len() % 2 == 0 }
fn parent_of(p: &str) -> Option<String> { p.rfind('/').map(|i| p[..i].to_string()) }
fn base_of(p: &str) -> String { match p.rfind('/') { Some(i) => p[i + 1..].to_string(), None => p.to_string() } }

fn build_fimg(w: &mut World, path: &str, nchunks: usize, holes: bool, last_len: usize, ftype_sel: usize, rng: &mut Rng) -> Result<(FileImage, RefFile), String> {
    let fs = w.fs();
    let mut fimg = guarded(|| w.disk.new_fimg(None, true, path).map_err(|e| e.to_string()))??;
    let cl = fimg.chunk_len;
    let mut chunks = BTreeMap::new();
    for i in 0..nchunks {
        let keep = !holes || i == 0 || i + 1 == nchunks || rng.chance(55);
        if keep {
            let len = if i + 1 == nchunks { last_len.min(cl).max(1) } else { cl };
            chunks.insert(i, gen_chunk(rng, len));
        }
    }
    let eof = (nchunks - 1) * cl + chunks[&(nchunks - 1)].len();
    let (ft, aux, acc) = ftype_for(fs, ftype_sel, path);
    if !ft.is_empty() { fimg.fs_type = ft; }
    if !aux.is_empty() { fimg.aux = aux; }
    if let Some(a) = acc { fimg.access = a; }
    for (i, d) in &chunks { fimg.chunks.insert(*i, d.clone()); }
    if !fs.is_dos() { fimg.set_eof(eof); }
    let r = RefFile { chunks, eof, ftype: fimg.fs_type.clone(), aux: fimg.aux.clone(), access: fimg.access.clone(), locked: false };
    Ok((fimg, r))
}

/// how many allocation units the file needs, counting the file system's own index overhead
fn need_units(w: &World, r: &RefFile) -> usize {
    let n = r.chunks.len();
    let end = r.chunks.keys().max().map(|m| m + 1).unwrap_or(0);
    match w.fs() {
        Fs::Dos33 | Fs::Dos32 => n + (end + 121) / 122,
        Fs::Prodos => { if end <= 1 { 1 } else if end <= 256 { n + 1 } else { let idx: BTreeSet<usize> = r.chunks.keys().map(|k| k / 256).collect(); n + idx.len().max(1) + 1 } }
        Fs::Pascal => end,
        // the chunk is the allocation block / cluster; CP/M extents and FAT directory slots are counted separately by a2kit
        Fs::Cpm2 | Fs::Cpm3 => n,
        Fs::Fat => end,
    }
}

fn apply_op(w: &mut World, op: Op, rng: &mut Rng, free: usize, vd: &mut Verdicts, nontrivial: &mut bool) -> String {
    let fs = w.fs();
    match op {
        Op::Put { path, nchunks, holes, last_len, ftype_sel } => {
            let (fimg, r) = match build_fimg(w, &path, nchunks, holes, last_len, ftype_sel, rng) {
                Ok(x) => x,
                Err(e) => { let d = format!("put {} n={} => new_fimg:{}", path, nchunks, err_class(&e)); if e.contains(".rs:") { vd.panic(&e, "new_fimg", &w.hist.clone()); } w.hist.push(d.clone()); return d; }
            };
            let cp = canon_path(fs, &path);
            let dup = w.files.contains_key(&cp) || w.dirs.contains(&cp);
            let res = guarded(|| w.disk.put(&fimg).map_err(|e| e.to_string()));
            let d = format!("put {} chunks={}{} eof={} type={} => {}", path, r.chunks.len(), if holes { "(holes)" } else { "" }, r.eof, hx(&r.ftype), match &res { Ok(Ok(_)) => "ok".to_string(), Ok(Err(e)) => format!("err:{}", err_class(e)), Err(_) => "PANIC".to_string() });
            w.hist.push(d.clone());
            {
                let (ty, aux) = type_num(fs, &r);
                let cs = if res_tok(&res) == "ok" { r.chunks.iter().map(|(i, c)| format!("{}:{}", i, hx(c))).collect::<Vec<_>>().join(",") } else { "-".to_string() };
                w.lean_op = Some(format!("put {} {} {} {} {} {}", hxs(&cp), res_tok(&res), r.eof, ty, aux, cs));
                w.last_op = Some(OpRecord::new("put", &path, &cp, "", "", &res).with_fimg(&fimg));
                if fs == Fs::Pascal {
                    let okp = res_tok(&res) == "ok";
                    let pcs = r.chunks.iter().map(|(i, c)| if okp { format!("{}:{}", i, hx(c)) } else { format!("{}:-", i) }).collect::<Vec<_>>().join(",");
                    w.pas_op = Some((format!("put {} {} {} {} {} {}", hxs(&path), fimg.get_ftype(), fimg.get_eof(), hx(&pas_date()), pas_res(&res), pcs), None));
                }
                if fs.is_dos() {
                    let okp = res_tok(&res) == "ok";
                    let dcs = r.chunks.iter().map(|(i, c)| if okp { format!("{}:{}", i, hx(c)) } else { format!("{}:-", i) }).collect::<Vec<_>>().join(",");
                    w.dos_op = Some((format!("put {} {} {} {}", hxs(&path), hx(&fimg.fs_type), dos_res(&res), dcs), None));
                }
            }
            match res {
                Err(p) => { vd.panic(&p, "put", &w.hist.clone()); return format!("ABORT {}", d); }
                Ok(Ok(_)) => {
                    if dup { vd.v(Focus::C05, false, "duplicate-put-refused", &format!("put onto existing {} succeeded", cp), &w.hist.clone()); return format!("ABORT {}", d); }
                    vd.v(Focus::C05, true, "duplicate-put-refused", "", &[]);
                    w.files.insert(cp.clone(), r.clone());
                    if r.chunks.len() > 1 { *nontrivial = true; }
                    // C01: immediate read-back
                    match w.get(&path) {
                        Err(p) => vd.panic(&p, "get", &w.hist.clone()),
                        Ok(Err(e)) => vd.v(Focus::C01, false, "get-after-put", &format!("get {} failed: {}", path, e), &w.hist.clone()),
                        Ok(Ok(g)) => match w.compare(&cp, &r, &g) { Some(diff) => vd.v(Focus::C01, false, "get-after-put", &diff, &w.hist.clone()), None => vd.v(Focus::C01, true, "get-after-put", "", &[]) }
                    }
                    // C04: free space went down by exactly the requirement where the unit is the chunk
                    let need = need_units(w, &r);
                    // a directory that had no free slot grows by one block/cluster during the put: that unit is reachable
                    // from the directory, so it is not a leak (the reader's accounting oracle checks exactly that)
                    let grow = if fs.has_dirs() && cp.contains('/') { 1 } else { 0 };
                    if need != usize::MAX { if let Ok(f2) = w.free() { let ok = free >= f2 && (free - f2 == need || free - f2 == need + grow); vd.v(Focus::C04, ok, "put-consumes-need", &format!("free {}->{} need={}", free, f2, need), &w.hist.clone()); } }
                }
                Ok(Err(e)) => {
                    // C04: a file that fits must be accepted
                    let need = need_units(w, &r);
                    let cls = err_class(&e);
                    // "for which a directory slot exists": DOS 3.x reports a full catalog as DISK FULL, so the catalog
                    // capacity (7 entries per catalog sector: 15 sectors on 16-sector disks, 12 on 13-sector disks) is checked here
                    let slot = match fs { Fs::Dos33 => w.files.len() < 105, Fs::Dos32 => w.files.len() < 84, _ => true };
                    // a ProDOS file is at most 128 index blocks x 256 blocks with a 24-bit end of file: beyond that the
                    // refusal (reported as DISK FULL) is correct however much room there is
                    let end_idx = r.chunks.keys().max().map(|m| m + 1).unwrap_or(0);
                    let representable = match fs { Fs::Prodos => end_idx <= 32768 && r.eof < (1 << 24), _ => true };
                    if !dup && need != usize::MAX && cls == "full" && slot && representable {
                        // a full sub-directory has to grow by one unit first: that is part of the file system's own overhead
                        let grow = if fs.has_dirs() && cp.contains('/') { 1 } else { 0 };
                        let fits = if fs == Fs::Pascal { false } else { need + grow <= free };
                        if fits { vd.v(Focus::C04, false, "fits-is-accepted", &format!("need={} free={} refused: {}", need, free, e), &w.hist.clone()); }
                        else { vd.v(Focus::C04, true, "fits-is-accepted", "", &[]); }
                        if need > free { *nontrivial = true; }
                    }
                }
            }
            d
        }
        Op::PutDup(cp) => {
            let r = w.files[&cp].clone();
            let sp = spell(fs, &cp, rng);
            let mut pas_args = None;
            let mut dos_args = None;
            let mut dup_fimg: Option<FileImage> = None;
            let res = match build_fimg(w, &sp, 1, false, 7, 1, rng) { Ok((f, _)) => { pas_args = Some((f.get_ftype(), f.get_eof())); dos_args = Some(hx(&f.fs_type)); dup_fimg = Some(clone_fimg(&f)); guarded(|| w.disk.put(&f).map_err(|e| e.to_string())) }, Err(e) => Ok(Err(e)) };
            let d = format!("put-dup {} => {}", sp, match &res { Ok(Ok(_)) => "ok".to_string(), Ok(Err(e)) => format!("err:{}", err_class(e)), Err(_) => "PANIC".to_string() });
            w.hist.push(d.clone());
            w.lean_op = Some(format!("put {} {} 0 0 0 -", hxs(&cp), res_tok(&res)));
            w.last_op = Some({ let mut o = OpRecord::new("put", &sp, &cp, "", "", &res); if let Some(f) = dup_fimg.as_ref() { o = o.with_fimg(f); } o });
            if let (true, Some(ft)) = (fs.is_dos(), dos_args) { w.dos_op = Some((format!("put {} {} {} 0:-", hxs(&sp), ft, dos_res(&res)), None)); }
            if let (Fs::Pascal, Some((ft, eof))) = (fs, pas_args) { w.pas_op = Some((format!("put {} {} {} {} {} 0:-", hxs(&sp), ft, eof, hx(&pas_date()), pas_res(&res)), None)); }
            match res {
                Err(p) => { vd.panic(&p, "put", &w.hist.clone()); return format!("ABORT {}", d); }
                Ok(Ok(_)) => { vd.v(Focus::C05, false, "duplicate-put-refused", &format!("put onto existing {} succeeded", cp), &w.hist.clone()); return format!("ABORT {}", d); }
                Ok(Err(_)) => {
                    vd.v(Focus::C05, true, "duplicate-put-refused", "", &[]);
                    if r.locked { vd.v(Focus::C19, true, "locked-refuses-overwrite", "", &[]); }
                }
            }
            d
        }
        Op::Delete(cp) => {
            let locked = w.files[&cp].locked;
            let sp = spell(fs, &cp, rng);
            let res = guarded(|| w.disk.delete(&sp).map_err(|e| e.to_string()));
            let d = format!("delete {}{} => {}", sp, if locked { "(locked)" } else { "" }, match &res { Ok(Ok(_)) => "ok".to_string(), Ok(Err(e)) => format!("err:{}", err_class(e)), Err(_) => "PANIC".to_string() });
            w.hist.push(d.clone());
            w.lean_op = Some(format!("delete {} {}", hxs(&cp), res_tok(&res)));
            w.last_op = Some(OpRecord::new("delete", &sp, &cp, "", "", &res));
            if fs == Fs::Pascal { w.pas_op = Some((format!("delete {} {}", hxs(&sp), pas_res(&res)), None)); }
            if fs.is_dos() { w.dos_op = Some((format!("delete {} {}", hxs(&sp), dos_res(&res)), None)); }
            match res {
                Err(p) => { vd.panic(&p, "delete", &w.hist.clone()); return format!("ABORT {}", d); }
                Ok(Ok(_)) => {
                    if locked { vd.v(Focus::C19, false, "locked-refuses-delete", &format!("locked file {} was deleted", cp), &w.hist.clone()); }
                    let r = w.files.remove(&cp).unwrap();
                    let need = need_units(w, &r);
                    if need != usize::MAX { if let Ok(f2) = w.free() { vd.v(Focus::C04, f2 == free + need, "delete-restores-free", &format!("free {}->{} need={}", free, f2, need), &w.hist.clone()); } }
                    match w.get(&cp) { Ok(Ok(_)) => vd.v(Focus::C05, false, "deleted-not-fetchable", &format!("{} still fetchable", cp), &w.hist.clone()), Err(p) => vd.panic(&p, "get", &w.hist.clone()), _ => vd.v(Focus::C05, true, "deleted-not-fetchable", "", &[]) }
                }
                Ok(Err(e)) => {
                    if locked { vd.v(Focus::C19, true, "locked-refuses-delete", "", &[]); }
                    else { vd.v(Focus::C05, false, "delete-existing-succeeds", &format!("delete {} refused: {}", cp, e), &w.hist.clone()); }
                }
            }
            d
        }
        Op::Rename(cp, newbase) => {
            let newbase_c = base_of(&canon_path(fs, &newbase));
            // CP/M: the new name is an xname; without a user prefix it means user 0 (rename can move a file between user areas)
            let newbase_arg = if fs.is_cpm() { let nb = base_of(&newbase).split(':').last().unwrap().to_string(); if cp.contains(':') && hist_len_even(w) { format!("{}:{}", cp.split(':').next().unwrap(), nb) } else { nb } } else { base_of(&newbase) };
            let target = if fs.is_cpm() { canon_path(fs, &newbase_arg) } else { match parent_of(&cp) { Some(par) => format!("{}/{}", par, newbase_c), None => newbase_c.clone() } };
            let locked = w.files[&cp].locked;
            let dup = w.files.contains_key(&target) || w.dirs.contains(&target);
            let sp = spell(fs, &cp, rng);
            let res = guarded(|| w.disk.rename(&sp, &newbase_arg).map_err(|e| e.to_string()));
            let d = format!("rename {}{} -> {} => {}", sp, if locked { "(locked)" } else { "" }, newbase_arg, match &res { Ok(Ok(_)) => "ok".to_string(), Ok(Err(e)) => format!("err:{}", err_class(e)), Err(_) => "PANIC".to_string() });
            w.hist.push(d.clone());
            w.lean_op = Some(format!("rename {} {} {}", hxs(&cp), hxs(&target), res_tok(&res)));
            w.last_op = Some(OpRecord::new("rename", &sp, &cp, &newbase_arg, &target, &res));
            if fs == Fs::Pascal { w.pas_op = Some((format!("rename {} {} {}", hxs(&sp), hxs(&newbase_arg), pas_res(&res)), None)); }
            if fs.is_dos() { w.dos_op = Some((format!("rename {} {} {}", hxs(&sp), hxs(&newbase_arg), dos_res(&res)), None)); }
            match res {
                Err(p) => { vd.panic(&p, "rename", &w.hist.clone()); return format!("ABORT {}", d); }
                Ok(Ok(_)) => {
                    if dup && target != cp { vd.v(Focus::C05, false, "rename-onto-existing-refused", &format!("{} -> {} succeeded", cp, target), &w.hist.clone()); return format!("ABORT {}", d); }
                    if locked { vd.v(Focus::C19, false, "locked-refuses-rename", &format!("locked file {} was renamed", cp), &w.hist.clone()); }
                    let mut r = w.files.remove(&cp).unwrap();
                    if fs.is_cpm() || fs == Fs::Fat { r.ftype = vec![]; }
                    w.files.insert(target, r);
                }
                Ok(Err(_)) => { if locked { vd.v(Focus::C19, true, "locked-refuses-rename", "", &[]); } }
            }
            d
        }
        Op::RenameOnto(a, b) => {
            let nb = base_of(&b);
            let nb_arg = if fs.is_cpm() { b.clone() } else { nb.clone() };
            let same_dir = if fs.is_cpm() { true } else { parent_of(&a) == parent_of(&b) };
            let res = guarded(|| w.disk.rename(&a, &nb_arg).map_err(|e| e.to_string()));
            let d = format!("rename-onto {} -> {} => {}", a, nb_arg, match &res { Ok(Ok(_)) => "ok".to_string(), Ok(Err(e)) => format!("err:{}", err_class(e)), Err(_) => "PANIC".to_string() });
            w.hist.push(d.clone());
            {
                let tgt = if fs.is_cpm() { canon_path(fs, &nb_arg) } else { match parent_of(&a) { Some(par) => format!("{}/{}", par, nb), None => nb.clone() } };
                w.lean_op = Some(format!("rename {} {} {}", hxs(&a), hxs(&tgt), res_tok(&res)));
                w.last_op = Some(OpRecord::new("rename", &a, &a, &nb_arg, &tgt, &res));
                if fs == Fs::Pascal { w.pas_op = Some((format!("rename {} {} {}", hxs(&a), hxs(&nb_arg), pas_res(&res)), None)); }
                if fs.is_dos() { w.dos_op = Some((format!("rename {} {} {}", hxs(&a), hxs(&nb_arg), dos_res(&res)), None)); }
            }
            match res {
                Err(p) => { vd.panic(&p, "rename", &w.hist.clone()); return format!("ABORT {}", d); }
                Ok(Ok(_)) => {
                    if same_dir { vd.v(Focus::C05, false, "rename-onto-existing-refused", &format!("{} -> {} succeeded", a, b), &w.hist.clone()); return format!("ABORT {}", d); }
                    let target = if fs.is_cpm() { let user = if a.contains(':') { a.split(':').next().unwrap().to_string() } else { "0".to_string() }; canon_path(fs, &format!("{}:{}", user, nb_arg)) } else { match parent_of(&a) { Some(par) => format!("{}/{}", par, nb), None => nb.clone() } };
                    if w.files.contains_key(&target) { vd.v(Focus::C05, false, "rename-onto-existing-refused", &format!("{} -> {} succeeded", a, target), &w.hist.clone()); return format!("ABORT {}", d); }
                    let mut r = w.files.remove(&a).unwrap();
                    if fs.is_cpm() || fs == Fs::Fat { r.ftype = vec![]; }
                    w.files.insert(target, r);
                }
                Ok(Err(_)) => { if same_dir { vd.v(Focus::C05, true, "rename-onto-existing-refused", "", &[]); } }
            }
            d
        }
        Op::Lock(cp) | Op::Unlock(cp) => toggle_lock(w, cp, vd, rng),
        Op::Retype(cp, sel) => {
            let (typ, sub) = match fs {
                Fs::Dos33 | Fs::Dos32 => ([ "txt", "bin", "atok", "itok" ][sel % 4].to_string(), String::new()),
                Fs::Prodos => ([ "txt", "bin", "atok", "sys" ][sel % 4].to_string(), format!("{}", sel * 97 % 65536)),
                Fs::Pascal => ([ "txt", "bin", "pcode" ][sel % 3].to_string(), String::new()),
                Fs::Cpm2 | Fs::Cpm3 => ([ "sys", "dir", "txt" ][sel % 3].to_string(), String::new()),
                _ => ("txt".to_string(), String::new()),
            };
            let locked = w.files[&cp].locked;
            let res = guarded(|| w.disk.retype(&cp, &typ, &sub).map_err(|e| e.to_string()));
            let d = format!("retype {} {} {} => {}", cp, typ, sub, match &res { Ok(Ok(_)) => "ok".to_string(), Ok(Err(e)) => format!("err:{}", err_class(e)), Err(_) => "PANIC".to_string() });
            w.hist.push(d.clone());
            w.lean_op = Some(format!("retype {} {}", hxs(&cp), res_tok(&res)));
            w.last_op = Some(OpRecord::new("retype", &cp, &cp, &typ, &sub, &res));
            if fs.is_dos() { let code = match typ.as_str() { "txt" => "0", "itok" => "1", "atok" => "2", "bin" => "4", _ => "none" }; w.dos_op = Some((format!("retype {} {} {}", hxs(&cp), code, dos_res(&res)), None)); }
            if fs == Fs::Pascal { let code = match typ.as_str() { "txt" => "3", "bin" => "5", "pcode" => "2", _ => "none" }; w.pas_op = Some((format!("retype {} {} {}", hxs(&cp), code, pas_res(&res)), None)); }
            match res {
                Err(p) => { vd.panic(&p, "retype", &w.hist.clone()); return format!("ABORT {}", d); }
                Ok(Ok(_)) => {
                    // rebase type/aux from what the volume now reports; content must be untouched (checked by bystander/all-files oracles)
                    if let Ok(Ok(g)) = w.get(&cp) { let r = w.files.get_mut(&cp).unwrap(); r.ftype = g.fs_type.clone(); r.aux = g.aux.clone(); if fs.is_dos() && locked { /* retype clears lock bit in a2kit's DOS: observed, see design */ r.locked = g.fs_type.first().map(|b| b & 0x80 != 0).unwrap_or(false); } }
                }
                Ok(Err(_)) => {}
            }
            d
        }
        Op::Protect(cp) => protect_op(w, cp, true, vd, rng),
        Op::Unprotect(cp) => protect_op(w, cp, false, vd, rng),
        Op::Mkdir(p) => {
            let cp = canon_path(fs, &p);
            let dup = w.files.contains_key(&cp) || w.dirs.contains(&cp);
            let res = guarded(|| w.disk.create(&p).map_err(|e| e.to_string()));
            let d = format!("mkdir {} => {}", p, match &res { Ok(Ok(_)) => "ok".to_string(), Ok(Err(e)) => format!("err:{}", err_class(e)), Err(_) => "PANIC".to_string() });
            w.hist.push(d.clone());
            w.lean_op = Some(format!("mkdir {} {}", hxs(&cp), res_tok(&res)));
            w.last_op = Some(OpRecord::new("mkdir", &p, &cp, "", "", &res));
            match res {
                Err(pn) => { vd.panic(&pn, "mkdir", &w.hist.clone()); return format!("ABORT {}", d); }
                Ok(Ok(_)) => { if dup { vd.v(Focus::C05, false, "duplicate-mkdir-refused", &format!("mkdir onto existing {}", cp), &w.hist.clone()); return format!("ABORT {}", d); } w.dirs.insert(cp); }
                Ok(Err(_)) => {}
            }
            d
        }
        Op::PutBad(kind) => {
            // a file image that cannot be recorded must be refused before anything is written (C01: never "stored as something else",
            // C02: the other files stay intact — checked by the bystander oracle and, byte for byte, by the concrete-model tie)
            let name = gen_name(fs, rng, &BTreeSet::new());
            let cp = canon_path(fs, &name);
            if w.files.contains_key(&cp) || w.dirs.contains(&cp) { return String::from("skip"); }
            let mut fimg = match guarded(|| w.disk.new_fimg(None, true, &name).map_err(|e| e.to_string())) { Ok(Ok(f)) => f, _ => return String::from("skip") };
            fimg.fs_type = vec![5, 0];
            match kind {
                0 => { fimg.chunks.insert(0, gen_chunk(rng, 512)); fimg.chunks.insert(1, gen_chunk(rng, 7)); fimg.set_eof(2 * 512 + 1 + rng.below(5000)); }
                1 => { fimg.chunks.insert(0, gen_chunk(rng, 513)); fimg.chunks.insert(1, gen_chunk(rng, 10)); fimg.set_eof(522); }
                2 => { for i in 0..200usize { fimg.chunks.insert(i, vec![(i & 0xff) as u8]); } fimg.set_eof(1 + rng.below(30000)); }
                _ => { for i in 0..65536usize { fimg.chunks.insert(i, vec![(i & 0xff) as u8]); } fimg.set_eof(512 * 65536 - 511); }
            }
            let res = guarded(|| w.disk.put(&fimg).map_err(|e| e.to_string()));
            let d = format!("put-bad {} kind={} chunks={} eof={} => {}", name, kind, fimg.chunks.len(), fimg.get_eof(), match &res { Ok(Ok(_)) => "ok".to_string(), Ok(Err(e)) => format!("err:{}", err_class(e)), Err(_) => "PANIC".to_string() });
            w.hist.push(d.clone());
            w.lean_op = Some(format!("put {} {} 0 0 0 -", hxs(&cp), res_tok(&res)));
            if fs == Fs::Pascal {
                let mut keys: Vec<usize> = fimg.chunks.keys().cloned().collect();
                keys.sort();
                let pcs = keys.iter().map(|i| format!("{}:{}", i, hx(&fimg.chunks[i]))).collect::<Vec<_>>().join(",");
                w.pas_op = Some((format!("put {} {} {} {} {} {}", hxs(&name), fimg.get_ftype(), fimg.get_eof(), hx(&pas_date()), pas_res(&res), pcs), None));
            }
            match res {
                Err(p) => { vd.panic(&p, "put", &w.hist.clone()); return format!("ABORT {}", d); }
                Ok(Ok(_)) => { for f in [Focus::C01, Focus::C02] { vd.v(f, false, "unrecordable-put-refused", &format!("put of a file image that cannot be recorded was accepted: {}", d), &w.hist.clone()); } return format!("ABORT {}", d); }
                Ok(Err(_)) => { for f in [Focus::C01, Focus::C02] { vd.v(f, true, "unrecordable-put-refused", "", &[]); } }
            }
            d
        }
        Op::GetMissing(p) => {
            let cp = canon_path(fs, &p);
            if w.files.contains_key(&cp) || w.dirs.contains(&cp) { return String::from("skip"); }
            let res = w.get(&p);
            let d = format!("get-missing {} => {}", p, match &res { Ok(Ok(_)) => "ok", Ok(Err(_)) => "err", Err(_) => "PANIC" });
            w.hist.push(d.clone());
            if fs == Fs::Pascal { w.pas_op = Some((format!("get {}", hxs(&p)), Some(pas_get_answer(&res)))); }
            if fs.is_dos() { w.dos_op = Some((format!("get {}", hxs(&p)), Some(dos_get_answer(&res)))); }
            match res { Err(pn) => vd.panic(&pn, "get", &w.hist.clone()), Ok(Ok(_)) => vd.v(Focus::C05, false, "unlisted-not-fetchable", &format!("{} fetched but never stored", cp), &w.hist.clone()), Ok(Err(_)) => vd.v(Focus::C05, true, "unlisted-not-fetchable", "", &[]) }
            d
        }
        Op::DeleteMissing(p) => {
            let cp = canon_path(fs, &p);
            if w.files.contains_key(&cp) || w.dirs.contains(&cp) { return String::from("skip"); }
            let res = guarded(|| w.disk.delete(&p).map_err(|e| e.to_string()));
            let d = format!("delete-missing {} => {}", p, match &res { Ok(Ok(_)) => "ok", Ok(Err(_)) => "err", Err(_) => "PANIC" });
            w.hist.push(d.clone());
            if fs == Fs::Pascal { w.pas_op = Some((format!("delete {} {}", hxs(&p), pas_res(&res)), None)); }
            if fs.is_dos() { w.dos_op = Some((format!("delete {} {}", hxs(&p), dos_res(&res)), None)); }
            match res { Err(pn) => vd.panic(&pn, "delete", &w.hist.clone()), Ok(Ok(_)) => vd.v(Focus::C05, false, "delete-missing-refused", &format!("delete of never-stored {} succeeded", cp), &w.hist.clone()), Ok(Err(_)) => vd.v(Focus::C05, true, "delete-missing-refused", "", &[]) }
            d
        }
    }
}

/// CP/M 3 password protection: only the frame is checked (the Lean reader sees the password entries of every
/// file; the step is a `retype`-like operation of the spec: content kept, every other record unchanged)
fn protect_op(w: &mut World, cp: String, protect: bool, vd: &mut Verdicts, rng: &mut Rng) -> String {
    let sp = spell(w.fs(), &cp, rng);
    let (pr, pw, pd) = (rng.chance(50), rng.chance(50), true);
    let res = if protect { guarded(|| w.disk.protect(&sp, "SECRET", pr, pw, pd).map_err(|e| e.to_string())) }
        else { guarded(|| w.disk.unprotect(&sp).map_err(|e| e.to_string())) };
    let d = format!("{} {} => {}", if protect { "protect" } else { "unprotect" }, sp, match &res { Ok(Ok(_)) => "ok".to_string(), Ok(Err(e)) => format!("err:{}", err_class(e)), Err(_) => "PANIC".to_string() });
    w.hist.push(d.clone());
    w.lean_op = Some(format!("retype {} {}", hxs(&cp), res_tok(&res)));
    w.last_op = Some(OpRecord::new(if protect { "protect" } else { "unprotect" }, &sp, &cp, &format!("SECRET {} {} {}", pr, pw, pd), "", &res));
    if let Err(p) = res { vd.panic(&p, "protect", &w.hist.clone()); return format!("ABORT {}", d); }
    d
}

fn toggle_lock(w: &mut World, cp: String, vd: &mut Verdicts, rng: &mut Rng) -> String {
    // lock if currently unlocked, otherwise unlock; then probe what protection means
    let was = w.files[&cp].locked;
    let sp = spell(w.fs(), &cp, rng);
    let res = if was { guarded(|| w.disk.unlock(&sp).map_err(|e| e.to_string())) } else { guarded(|| w.disk.lock(&sp).map_err(|e| e.to_string())) };
    let d = format!("{} {} => {}", if was { "unlock" } else { "lock" }, sp, match &res { Ok(Ok(_)) => "ok".to_string(), Ok(Err(e)) => format!("err:{}", err_class(e)), Err(_) => "PANIC".to_string() });
    w.hist.push(d.clone());
    w.lean_op = Some(format!("{} {} {}", if was { "unlock" } else { "lock" }, hxs(&cp), res_tok(&res)));
    w.last_op = Some(OpRecord::new(if was { "unlock" } else { "lock" }, &sp, &cp, "", "", &res));
    if w.fs().is_dos() { w.dos_op = Some((format!("{} {} {}", if was { "unlock" } else { "lock" }, hxs(&sp), dos_res(&res)), None)); }
    match res {
        Err(p) => { vd.panic(&p, "lock", &w.hist.clone()); return format!("ABORT {}", d); }
        Ok(Ok(_)) => {
            w.files.get_mut(&cp).unwrap().locked = !was;
            // reading is unaffected
            let r = w.files[&cp].clone();
            match w.get(&cp) {
                Err(p) => vd.panic(&p, "get", &w.hist.clone()),
                Ok(Err(e)) => vd.v(Focus::C19, false, "protected-still-readable", &format!("get {} failed: {}", cp, e), &w.hist.clone()),
                Ok(Ok(g)) => match w.compare(&cp, &r, &g) { Some(diff) => vd.v(Focus::C19, false, "protected-still-readable", &diff, &w.hist.clone()), None => vd.v(Focus::C19, true, "protected-still-readable", "", &[]) }
            }
        }
        Ok(Err(e)) => { vd.v(Focus::C19, false, "lock-unlock-succeeds", &format!("{} {} refused: {}", if was { "unlock" } else { "lock" }, cp, e), &w.hist.clone()); }
    }
    d
}

fn check_bystanders(w: &mut World, vd: &mut Verdicts, desc: &str) {
    if vd.focus != Focus::C02 { return; }
    // the operation's own target(s): second token of the description (and the rename target)
    let toks: Vec<&str> = desc.split(" => ").next().unwrap_or("").split(' ').collect();
    let fs = w.fs();
    let mut targets: BTreeSet<String> = BTreeSet::new();
    if desc.starts_with("put ") || desc.starts_with("put-dup ") || desc.starts_with("delete") || desc.starts_with("lock") || desc.starts_with("unlock") || desc.starts_with("retype") || desc.starts_with("mkdir") || desc.starts_with("get-missing") || desc.starts_with("protect") || desc.starts_with("unprotect") {
        // names may contain blanks (DOS): take everything between the verb and the first " chunks="/" => "
        let body = desc.splitn(2, ' ').nth(1).unwrap_or("");
        let name = body.split(" chunks=").next().unwrap_or(body).split(" => ").next().unwrap_or(body);
        let name = if desc.starts_with("retype") { let v: Vec<&str> = name.rsplitn(3, ' ').collect(); v.last().cloned().unwrap_or(name) } else { name };
        targets.insert(canon_path(fs, name.trim_end_matches("(locked)")));
    }
    let _ = toks;
    let renaming = desc.starts_with("rename");
    let paths: Vec<String> = w.files.keys().cloned().collect();
    let mut bad = None;
    for p in paths {
        if targets.contains(&p) || (renaming && desc.contains(&p)) { continue; }
        let r = w.files[&p].clone();
        match w.get(&p) {
            Err(pn) => { vd.panic(&pn, "get", &w.hist.clone()); return; }
            Ok(Err(e)) => { bad = Some(format!("get {} failed: {}", p, e)); break; }
            Ok(Ok(g)) => if let Some(diff) = w.compare(&p, &r, &g) { bad = Some(diff); break; }
        }
    }
    match bad { Some(b) => vd.v(Focus::C02, false, "bystanders-intact", &b, &w.hist.clone()), None => vd.v(Focus::C02, true, "bystanders-intact", "", &[]) }
}

fn check_all_files(w: &mut World, vd: &mut Verdicts, owner: Focus, oracle: &str) {
    if vd.focus != owner { return; }
    let paths: Vec<String> = w.files.keys().cloned().collect();
    let mut bad = None;
    for p in paths {
        let r = w.files[&p].clone();
        match w.get(&p) {
            Err(pn) => { vd.panic(&pn, "get", &w.hist.clone()); return; }
            Ok(Err(e)) => { bad = Some(format!("get {} failed: {}", p, e)); break; }
            Ok(Ok(g)) => if let Some(diff) = w.compare(&p, &r, &g) { bad = Some(diff); break; }
        }
    }
    match bad { Some(b) => vd.v(owner, false, oracle, &b, &w.hist.clone()), None => vd.v(owner, true, oracle, "", &[]) }
}

fn check_listing(w: &mut World, vd: &mut Verdicts) {
    if vd.focus != Focus::C05 { return; }
    match w.listing() {
        Err(e) => { if e.contains(".rs:") { vd.panic(&e, "tree", &w.hist.clone()); } else { vd.v(Focus::C05, false, "tree-succeeds", &e, &w.hist.clone()); } }
        Ok((files, dirs)) => {
            let fs = w.fs();
            let norm = |s: &String| canon_path(fs, s);
            let lf: BTreeSet<String> = files.iter().map(norm).collect();
            let ld: BTreeSet<String> = dirs.iter().map(norm).collect();
            let rf: BTreeSet<String> = w.files.keys().cloned().collect();
            if lf != rf {
                let missing: Vec<&String> = rf.difference(&lf).take(3).collect();
                let extra: Vec<&String> = lf.difference(&rf).take(3).collect();
                vd.v(Focus::C05, false, "listing-equals-history", &format!("missing={:?} extra={:?}", missing, extra), &w.hist.clone());
            } else if ld != w.dirs {
                vd.v(Focus::C05, false, "listing-equals-history", &format!("dirs listed={:?} expected={:?}", ld, w.dirs), &w.hist.clone());
            } else { vd.v(Focus::C05, true, "listing-equals-history", "", &[]); }
            // catalog rows and glob agree with the tree at the root
            if let Ok(Ok(rows)) = guarded(|| w.disk.catalog_to_vec("/").map_err(|e| e.to_string())) {
                let root_n = rf.iter().filter(|p| !p.contains('/')).count() + w.dirs.iter().filter(|p| !p.contains('/')).count();
                if !fs.is_cpm() { vd.v(Focus::C05, rows.len() == root_n, "catalog-row-count", &format!("rows={} expected={}", rows.len(), root_n), &w.hist.clone()); }
            }
        }
    }
}

fn check_reload(w: &mut World, vd: &mut Verdicts, rng: &mut Rng) {
    let st0 = match guarded(|| w.disk.stat().map_err(|e| e.to_string())) { Ok(Ok(s)) => s, _ => return };
    let tree0 = guarded(|| w.disk.tree(true, None).map_err(|e| e.to_string()));
    let kind0 = w.disk.get_img().kind();
    let typ0 = w.disk.get_img().what_am_i();
    let exts = w.disk.get_img().file_extensions();
    let bytes = match guarded(|| w.disk.get_img().to_bytes()) { Ok(b) => b, Err(p) => { vd.panic(&p, "to_bytes", &w.hist.clone()); return; } };
    let _ = rng;
    for hint in [Some(exts[0].clone()), None] {
        // CP/M volumes other than Apple's cannot be told from the bytes which DPB applies unless a2kit's heuristics find it: still required by the property
        let label = if hint.is_some() { "with-ext" } else { "no-ext" };
        let res = guarded(|| a2kit::create_fs_from_bytestream(&bytes, hint.as_deref()).map_err(|e| e.to_string()));
        match res {
            Err(p) => { vd.panic(&p, "create_fs_from_bytestream", &w.hist.clone()); }
            Ok(Err(e)) => vd.v(Focus::C06, false, &format!("reload-{}", label), &format!("not recognised: {}", e), &w.hist.clone()),
            Ok(Ok(mut d2)) => {
                let mut diff: Option<String> = None;
                match guarded(|| d2.stat().map_err(|e| e.to_string())) {
                    Ok(Ok(st)) => {
                        if st.fs_name != st0.fs_name { diff = Some(format!("fs {} vs {}", st.fs_name, st0.fs_name)); }
                        else if st.free_blocks != st0.free_blocks { diff = Some(format!("free {} vs {}", st.free_blocks, st0.free_blocks)); }
                        else if st.block_end != st0.block_end { diff = Some(format!("block_end {} vs {}", st.block_end, st0.block_end)); }
                    }
                    Ok(Err(e)) => diff = Some(format!("stat failed {}", e)),
                    Err(p) => { vd.panic(&p, "stat", &w.hist.clone()); return; }
                }
                if diff.is_none() && d2.get_img().what_am_i() != typ0 { diff = Some(format!("image type {} vs {}", d2.get_img().what_am_i(), typ0)); }
                if diff.is_none() && d2.get_img().kind() != kind0 {
                    // flat images and IMD/TD0 do not record the package (3/3.5/5.25/8 inch) nor, for flat images, more than a size:
                    // the property asks for the same kind "wherever the format records it" -> compare the track layout text
                    let lay = |k: &DiskKind| { let s = k.to_string(); s.split(" inch ").last().unwrap_or(&s).to_string() };
                    let recorded = matches!(w.cfg.container, "woz1" | "woz2" | "nib" | "2mg-nib");
                    if recorded || (matches!(w.cfg.container, "imd" | "td0") && lay(&d2.get_img().kind()) != lay(&kind0)) { diff = Some(format!("kind {} vs {}", d2.get_img().kind(), kind0)); }
                }
                if diff.is_none() {
                    let t2 = guarded(|| d2.tree(true, None).map_err(|e| e.to_string()));
                    if let (Ok(Ok(a)), Ok(Ok(b))) = (&tree0, &t2) { if a != b { diff = Some("tree differs".to_string()); } }
                }
                if diff.is_none() {
                    for (p, r) in w.files.clone() {
                        match guarded(|| d2.get(&p).map_err(|e| e.to_string())) {
                            Ok(Ok(g)) => {
                                if g.chunk_len != w.chunk_len { diff = Some(format!("chunk length {} vs {} after reload (different disk parameters chosen)", g.chunk_len, w.chunk_len)); break; }
                                if let Some(dd) = w.compare(&p, &r, &g) { diff = Some(dd); break; }
                            }
                            Ok(Err(e)) => { diff = Some(format!("get {} failed after reload: {}", p, e)); break; }
                            Err(pn) => { vd.panic(&pn, "get-after-reload", &w.hist.clone()); return; }
                        }
                    }
                }
                match diff { Some(dd) => vd.v(Focus::C06, false, &format!("reload-{}", label), &dd, &w.hist.clone()), None => vd.v(Focus::C06, true, &format!("reload-{}", label), "", &[]) }
            }
        }
    }
}

/// refinement check of the step just taken: the Lean spec must allow (previous reading, op, result, current reading)
fn lean_step(drv: &mut Drv, w: &mut World, vd: &mut Verdicts, lean_op: &str, desc: &str) -> String {
    let full = drv.ask(&format!("fs step {}", lean_op));
    let (ans, summary) = match full.split_once(" ;; ") { Some((a, b)) => (a.to_string(), b.to_string()), None => (full.clone(), String::from("?")) };
    lean_step_verdict(&ans, w, vd, desc);
    summary
}

fn lean_step_verdict(ans: &str, w: &mut World, vd: &mut Verdicts, desc: &str) {
    let hist = w.hist.clone();
    if ans == "ok" {
        for f in [Focus::C01, Focus::C02, Focus::C03, Focus::C05, Focus::C19] { vd.v(f, true, "step-allowed-by-spec", "", &[]); }
        return;
    }
    if !ans.starts_with("bad ") { vd.out.count(&format!("lean-step-answer:{}", ans.chars().take(40).collect::<String>())); return; }
    let why = ans[4..].to_string();
    let owners: &[Focus] = match why.as_str() {
        "bystanders-unchanged" if desc.starts_with("lock") || desc.starts_with("unlock") || desc.starts_with("retype") || desc.starts_with("protect") || desc.starts_with("unprotect") => &[Focus::C02, Focus::C19],
        "bystanders-unchanged" => &[Focus::C02],
        "refused-changes-nothing" => &[Focus::C02, Focus::C05],
        "put-content-reads-back" | "put-length-reads-back" | "put-type-reads-back" => &[Focus::C01],
        "put-uses-free-units-only" => &[Focus::C02, Focus::C03],
        "delete-target-not-protected" | "rename-source-not-protected" | "lock-sets-protection" | "unlock-clears-protection" => &[Focus::C19],
        "post-volume-well-formed" => &[Focus::C03],
        w if w.starts_with("unreadable:") => &[Focus::C03],
        "rename-keeps-content" | "retype-keeps-content" => &[Focus::C01, Focus::C02],
        _ => &[Focus::C05],
    };
    for f in owners { vd.v(*f, false, &format!("step-allowed-by-spec:{}", why.split(':').next().unwrap_or("")), &format!("spec refuses step [{}]: {}", desc, why), &hist); }
}

/// ask the Lean reader for its independent reading and compare with what a2kit reports
fn lean_check(drv: &mut Drv, w: &mut World, vd: &mut Verdicts, last: &str, _step: Option<usize>) {
    let ans = drv.ask("fs read");
    lean_check_answer(&ans, w, vd, last);
}

fn lean_check_answer(ans: &str, w: &mut World, vd: &mut Verdicts, last: &str) {
    let hist = w.hist.clone();
    if ans.starts_with("bad ") {
        // after a failed operation only soundness is required; after a successful one, also
        let why = ans[4..].split(' ').next().unwrap_or("?").to_string();
        vd.v(Focus::C03, false, &format!("independent-reader:{}", why), &format!("reader: {} after [{}]", ans, last), &hist);
        return;
    }
    if !ans.starts_with("ok ") { vd.out.count(&format!("lean-answer:{}", ans.chars().take(40).collect::<String>())); return; }
    vd.v(Focus::C03, true, "independent-reader", "", &[]);
    // ok free=<n> noleak=<0|1> files=<hexpath>:<isdir>:<nowned>:<eof>,...
    let mut free = None; let mut noleak = true; let mut files: BTreeSet<String> = BTreeSet::new(); let mut dirs: BTreeSet<String> = BTreeSet::new();
    for tok in ans.split(' ').skip(1) {
        if let Some(v) = tok.strip_prefix("free=") { free = v.parse::<usize>().ok(); }
        if let Some(v) = tok.strip_prefix("noleak=") { noleak = v == "1"; }
        if let Some(v) = tok.strip_prefix("files=") {
            if v != "-" { for f in v.split(',') { let parts: Vec<&str> = f.split(':').collect(); let p = String::from_utf8_lossy(&unhx(parts[0])).to_string(); if parts.get(1) == Some(&"1") { dirs.insert(p); } else { files.insert(p); } } }
        }
    }
    let ok_hist = !hist.iter().any(|h| h.contains("=> err") || h.contains("new_fimg"));
    if let (Some(lf), Ok(sf)) = (free, w.free()) {
        // free-space accounting is claimed for histories of successful operations
        // the count must agree always; "nothing leaks" is claimed for histories of successful operations only
        // (a refused DOS 3.x put on a full catalog keeps the T/S list sector it reserved: outside C04)
        if ok_hist { vd.v(Focus::C04, lf == sf && noleak, "free-equals-unreachable", &format!("stat.free={} reader.free={} noleak={}", sf, lf, noleak), &hist); }
        else { vd.v(Focus::C04, lf == sf, "free-count-agrees-with-reader", &format!("stat.free={} reader.free={}", sf, lf), &hist); }
    }
    let fs = w.fs();
    let lf: BTreeSet<String> = files.iter().map(|s| canon_path(fs, s)).collect();
    let rf: BTreeSet<String> = w.files.keys().cloned().collect();
    if lf != rf || dirs.iter().map(|s| canon_path(fs, s)).collect::<BTreeSet<String>>() != w.dirs {
        let missing: Vec<&String> = rf.difference(&lf).take(3).collect();
        let extra: Vec<&String> = lf.difference(&rf).take(3).collect();
        vd.v(Focus::C05, false, "reader-listing-equals-history", &format!("missing={:?} extra={:?} dirs={:?}", missing, extra, dirs), &hist);
    } else { vd.v(Focus::C05, true, "reader-listing-equals-history", "", &[]); }
}

// ------------------------------------------------------------------------------------------
// byte-exact tie of the concrete Pascal model (Lean `Model/Fs/Pascal.lean`, driver family `fsp`)

/// `pack_date(None)` of a2kit's Pascal module, recomputed from the (pinned) clock
fn pas_date() -> Vec<u8> {
    use chrono::Datelike;
    let now = chrono::Local::now().naive_local();
    let (_ce, year) = now.year_ce();
    let packed = (now.month() + (now.day() << 4) + ((year % 100) << 9)) as u16;
    packed.to_le_bytes().to_vec()
}

/// result class of a real Pascal operation in the vocabulary of the model (`Err.token`)
fn pas_err_tok(e: &str) -> String {
    match e {
        "no file" => "nofile", "error reading real or integer" => "badformat", "illegal filename" => "badtitle",
        "duplicate file" => "duplicate", "illegal operation" => "badmode", "insufficient space" => "noroom",
        "failed to complete read or write" => "deverr", "no device" => "nodev", _ => return format!("other({})", e.replace(' ', "_")),
    }.to_string()
}
fn pas_res<T>(r: &Result<Result<T, String>, String>) -> String {
    match r { Ok(Ok(_)) => "ok".to_string(), Ok(Err(e)) => format!("err:{}", pas_err_tok(e)), Err(_) => "err:panic".to_string() }
}
fn pas_adler(chunks: &BTreeMap<usize, Vec<u8>>) -> u64 {
    let (mut a, mut b) = (1u64, 0u64);
    for (_, c) in chunks { for x in c { a = (a + *x as u64) % 65521; b = (b + a) % 65521; } }
    b * 65536 + a
}
fn pas_get_answer(r: &Result<Result<FileImage, String>, String>) -> String {
    match r {
        Ok(Ok(g)) => { let cs: BTreeMap<usize, Vec<u8>> = g.chunks.iter().map(|(k, v)| (*k, v.clone())).collect(); format!("ok {} {} {} {}", g.get_ftype(), g.get_eof(), cs.len(), pas_adler(&cs)) }
        Ok(Err(e)) => format!("err:{}", pas_err_tok(e)),
        Err(_) => "err:panic".to_string(),
    }
}
fn pas_verdict(vd: &mut Verdicts, w: &World, pass: bool, kind: &str, detail: &str) {
    let hist = w.hist.clone();
    for f in [Focus::C01, Focus::C02, Focus::C03, Focus::C05] {
        if pass { vd.v(f, true, "concrete-model", "", &[]); } else { vd.v(f, false, &format!("concrete-model:{}", kind), detail, &hist); }
    }
}
/// send one operation to the concrete model; `expect` = the real answer of a query, None = a mutating operation
/// (the driver compares result class and the whole image with the mirror and answers `ok`)
fn pas_tie(drv: &mut Drv, w: &mut World, vd: &mut Verdicts, req: &str, expect: Option<String>, desc: &str) {
    let ans = drv.ask(&format!("fsp {}", req));
    let want = expect.unwrap_or("ok".to_string());
    if ans == want { pas_verdict(vd, w, true, "", ""); return; }
    let kind = if ans.starts_with("bad result") { "result" } else if ans.starts_with("bad block") { "image" } else { req.split(' ').next().unwrap_or("?") }.to_string();
    let short: String = req.chars().take(160).collect();
    pas_verdict(vd, w, false, &kind, &format!("concrete Pascal model disagrees after [{}]: request [{}] model answered [{}] expected [{}]", desc, short, ans, want));
}
/// after every step: free count, catalog, and (after a successful put) the file as `get` returns it
fn pas_queries(drv: &mut Drv, w: &mut World, vd: &mut Verdicts, desc: &str) {
    // free count and catalog are functions of the image, which the operation tie has just compared: ask for them
    // (one round trip) only after a step that changed it
    if !(desc.ends_with("=> ok") || desc == "format") { return; }
    if let (Ok(f), Ok(Ok(rows))) = (w.free(), guarded(|| w.disk.catalog_to_vec("/").map_err(|e| e.to_string()))) {
        let code = |t: &str| -> String { match t { "NONE" => "0".into(), "BAD" => "1".into(), "CODE" => "2".into(), "TEXT" => "3".into(), "INFO" => "4".into(), "DATA" => "5".into(), "GRAF" => "6".into(), "FOTO" => "7".into(), "SECURE" => "8".into(), x => u8::from_str_radix(x.trim_start_matches('$'), 16).map(|v| v.to_string()).unwrap_or(x.to_string()) } };
        let items: Vec<String> = rows.iter().map(|r| { let t: Vec<&str> = r.split_whitespace().collect(); if t.len() == 3 { format!("{}:{}:{}", hxs(t[2]), t[1], code(t[0])) } else { format!("?{}", r.replace(' ', "_")) } }).collect();
        pas_tie(drv, w, vd, "q", Some(format!("ok {} {}", f, if items.is_empty() { "-".to_string() } else { items.join(",") })), desc);
    }
    if desc.starts_with("put ") && desc.ends_with("=> ok") {
        let name = desc.splitn(2, ' ').nth(1).unwrap_or("").split(" chunks=").next().unwrap_or("").to_string();
        let res = w.get(&name);
        pas_tie(drv, w, vd, &format!("get {}", hxs(&name)), Some(pas_get_answer(&res)), desc);
    }
}

// ------------------------------------------------------------------------------------------
// byte-exact tie of the concrete DOS 3.x model (Lean `Model/Fs/Dos3x.lean`, driver family `fsd`)

/// result class of a real DOS 3.x operation in the vocabulary of the model (`Err.token`)
fn dos_err_tok(e: &str) -> String {
    match e {
        "RANGE ERROR" => "range", "END OF DATA" => "endofdata", "FILE NOT FOUND" => "filenotfound", "VOLUME MISMATCH" => "volumemismatch",
        "I/O ERROR" => "ioerror", "DISK FULL" => "diskfull", "FILE LOCKED" => "filelocked", "FILE TYPE MISMATCH" => "filetypemismatch",
        "WRITE PROTECTED" => "writeprotected", "SYNTAX ERROR" => "syntaxerror", _ => return format!("other({})", e.replace(' ', "_")),
    }.to_string()
}
fn dos_res<T>(r: &Result<Result<T, String>, String>) -> String {
    match r { Ok(Ok(_)) => "ok".to_string(), Ok(Err(e)) => format!("err:{}", dos_err_tok(e)), Err(_) => "err:panic".to_string() }
}
/// Adler-32 over (index low, index high, data…) of every chunk in index order
fn dos_adler(chunks: &BTreeMap<usize, Vec<u8>>) -> u64 {
    let (mut a, mut b) = (1u64, 0u64);
    for (i, c) in chunks {
        for x in [(*i % 256) as u8, (*i / 256 % 256) as u8].iter().chain(c.iter()) { a = (a + *x as u64) % 65521; b = (b + a) % 65521; }
    }
    b * 65536 + a
}
fn dos_get_answer(r: &Result<Result<FileImage, String>, String>) -> String {
    match r {
        Ok(Ok(g)) => { let cs: BTreeMap<usize, Vec<u8>> = g.chunks.iter().map(|(k, v)| (*k, v.clone())).collect(); format!("ok {} {} {}", g.fs_type.first().cloned().unwrap_or(0), cs.len(), dos_adler(&cs)) }
        Ok(Err(e)) => format!("err:{}", dos_err_tok(e)),
        Err(_) => "err:panic".to_string(),
    }
}
fn dos_verdict(vd: &mut Verdicts, w: &World, pass: bool, kind: &str, detail: &str) {
    let hist = w.hist.clone();
    for f in [Focus::C01, Focus::C02, Focus::C03, Focus::C05] {
        if pass { vd.v(f, true, "concrete-model", "", &[]); } else { vd.v(f, false, &format!("concrete-model:{}", kind), detail, &hist); }
    }
}
/// send one operation to the concrete model; `expect` = the real answer of a query, None = a mutating operation
/// (the driver compares result class and the whole flushed image with the mirror and answers `ok`)
fn dos_tie(drv: &mut Drv, w: &mut World, vd: &mut Verdicts, req: &str, expect: Option<String>, desc: &str) {
    let ans = drv.ask(&format!("fsd {}", req));
    let want = expect.unwrap_or("ok".to_string());
    if ans == want { dos_verdict(vd, w, true, "", ""); return; }
    let kind = if ans.starts_with("bad result") { "result" } else if ans.starts_with("bad sector") || ans.starts_with("bad flush") { "image" } else { req.split(' ').next().unwrap_or("?") }.to_string();
    let short: String = req.chars().take(160).collect();
    dos_verdict(vd, w, false, &kind, &format!("concrete DOS model disagrees after [{}]: request [{}] model answered [{}] expected [{}]", desc, short, ans, want));
}
/// after every step: free count, catalog, and (after a successful put) the file as `get` returns it
fn dos_queries(drv: &mut Drv, w: &mut World, vd: &mut Verdicts, desc: &str) {
    if let Ok(f) = w.free() { dos_tie(drv, w, vd, "free", Some(format!("ok {}", f)), desc); }
    if let Ok(Ok(rows)) = guarded(|| w.disk.catalog_to_vec("/").map_err(|e| e.to_string())) {
        // `universal_row`: "{:4} {:5}  {}" = type, sectors, name (names may contain blanks)
        let items: Vec<String> = rows.iter().map(|r| {
            let typ = r.get(..4).unwrap_or("").trim().to_string();
            let rest = r.get(5..).unwrap_or("").trim_start();
            match rest.split_once("  ") { Some((n, name)) => format!("{}:{}:{}", hxs(name), n, typ), None => format!("?{}", r.replace(' ', "_")) }
        }).collect();
        dos_tie(drv, w, vd, "cat", Some(format!("ok {}", if items.is_empty() { "-".to_string() } else { items.join(",") })), desc);
    }
    if desc.starts_with("put ") && desc.ends_with("=> ok") {
        let name = desc.splitn(2, ' ').nth(1).unwrap_or("").split(" chunks=").next().unwrap_or("").to_string();
        let res = w.get(&name);
        dos_tie(drv, w, vd, &format!("get {}", hxs(&name)), Some(dos_get_answer(&res)), desc);
    }
}
