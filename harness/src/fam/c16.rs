//! harness family c16: renumbering of Applesoft / Integer BASIC programs (property C16).
//!
//! * tie: what the real `gather_defs`/`gather_refs` return is serialised to the Lean model
//!   (`c16 renum ...`); the model's result must equal the real `Renumberer::renumber` result
//!   (`ok <hex>` / `err` / `panic`).  `c16 labelsok` checks the `LabelsOK` contract on the gathered labels.
//! * direct oracles (independent of the model): the generator knows every number it wrote (primary,
//!   reference, or plain text); the expected output is rendered from that knowledge and compared.
use crate::util::*;
use a2kit::lang::linenum::{LabelInformation, Renumber};
use std::collections::BTreeMap;

#[derive(Clone, Debug)]
enum Seg { Lit(String), Prim(usize), Ref(usize) }
type PLine = Vec<Seg>;

#[derive(Clone, Copy, PartialEq)]
enum Lang { Applesoft, Integer }
impl Lang {
    fn name(&self) -> &'static str { match self { Lang::Applesoft => "applesoft", Lang::Integer => "integer" } }
    fn max(&self) -> usize { match self { Lang::Applesoft => 63999, Lang::Integer => 32767 } }
}

struct Prog { lines: Vec<PLine>, crlf: bool, trailing: bool }

fn is_blank(l: &PLine) -> bool { !l.iter().any(|s| matches!(s, Seg::Prim(_))) }

fn render_line(l: &PLine, f: &dyn Fn(&Seg) -> String) -> String { l.iter().map(|s| f(s)).collect() }

fn plain(s: &Seg) -> String { match s { Seg::Lit(t) => t.clone(), Seg::Prim(n) | Seg::Ref(n) => n.to_string() } }

impl Prog {
    fn render_with(&self, lines: &Vec<String>) -> String {
        let sep = if self.crlf { "\r\n" } else { "\n" };
        let mut s = lines.join(sep);
        if self.trailing && !lines.is_empty() { s += sep; }
        s
    }
    fn text(&self) -> String { self.render_with(&self.lines.iter().map(|l| render_line(l, &plain)).collect()) }
    fn nums(&self) -> Vec<usize> {
        self.lines.iter().filter_map(|l| l.iter().find_map(|s| if let Seg::Prim(n) = s { Some(*n) } else { None })).collect()
    }
}

fn lit(s: &str) -> Seg { Seg::Lit(s.to_string()) }

/// one statement; `refs` draws a reference target
fn gen_statement(rng: &mut Rng, lang: Lang, target: &mut dyn FnMut(&mut Rng) -> usize, last: bool) -> Vec<Seg> {
    let sp = |rng: &mut Rng| -> &'static str { *rng.pick(&[" ", " ", " ", "", "  "]) };
    let comma = |rng: &mut Rng| -> &'static str { *rng.pick(&[",", ",", ", ", " ,", " , "]) };
    let lower = rng.chance(10);
    let kw = |s: &str| -> String { if lower { s.to_lowercase() } else { s.to_string() } };
    let mut v: Vec<Seg> = Vec::new();
    let k = rng.below(if lang == Lang::Applesoft { 20 } else { 16 });
    match (lang, k) {
        (_, 0) | (_, 1) | (_, 2) => { v.push(Seg::Lit(kw("GOTO") + sp(rng))); v.push(Seg::Ref(target(rng))); }
        (_, 3) | (_, 4) => { v.push(Seg::Lit(kw("GOSUB") + sp(rng))); v.push(Seg::Ref(target(rng))); }
        (_, 5) | (_, 6) => { v.push(Seg::Lit(kw("IF A=1 THEN") + sp(rng))); v.push(Seg::Ref(target(rng))); }
        (_, 7) => { v.push(Seg::Lit(kw("IF A>B THEN GOTO") + sp(rng))); v.push(Seg::Ref(target(rng))); }
        (_, 8) => v.push(lit(*rng.pick(&["PRINT \"GOTO 10\"", "PRINT \"20 GOSUB 30\"", "PRINT \"100\";A"]))),
        (_, 9) => v.push(Seg::Lit(format!("A={}", rng.pick(&[10usize, 20, 100, 63999, 7])))),
        (_, 10) => v.push(lit(*rng.pick(&["POKE 768,10", "PRINT 10", "PRINT 20;30", "FOR I=10 TO 20", "NEXT I", "END", "RETURN"]))),
        (_, 11) if last => v.push(lit(*rng.pick(&["REM GOTO 10", "REM 10 20 30 GOSUB 40", "REM", "rem then 100"]))),
        (_, 12) => v.push(lit(*rng.pick(&["IF A=10 THEN PRINT 20", "IF A=10 THEN A=20", "B=A*100+20"]))),
        (Lang::Integer, 13) => v.push(lit(*rng.pick(&["GOTO A*10", "GOSUB A+100", "GOTO 100+A", "IF A THEN B*10", "GOTO (100)"]))),
        (Lang::Applesoft, 13) | (Lang::Applesoft, 14) | (Lang::Applesoft, 15) => {
            v.push(Seg::Lit(kw(*rng.pick(&["ON X GOTO", "ON X GOSUB", "ON A+1 GOTO"])) + sp(rng)));
            let n = rng.range(1, 4);
            for i in 0..n {
                if i > 0 { v.push(lit(comma(rng))); }
                v.push(Seg::Ref(target(rng)));
            }
        }
        (Lang::Applesoft, 16) => { v.push(Seg::Lit(kw("ONERR GOTO") + sp(rng))); v.push(Seg::Ref(target(rng))); }
        (Lang::Applesoft, 17) => v.push(lit(*rng.pick(&["DATA 10,20,30", "DATA 100", "HOME", "HTAB 10: VTAB 20"]))),
        (Lang::Applesoft, 18) => { v.push(Seg::Lit(kw("IF B THEN") + sp(rng))); v.push(Seg::Ref(target(rng))); v.push(lit(" ")); }
        _ => v.push(lit(*rng.pick(&["PRINT A", "A=B", "TEXT", "B=B+1"]))),
    }
    v
}

fn gen_prog(rng: &mut Rng, lang: Lang) -> Prog {
    let max = lang.max();
    let nlines = match rng.below(10) { 0 => 1, 1 => 2, 2..=6 => rng.range(3, 7), _ => rng.range(8, 14) };
    let mut nums: Vec<usize> = Vec::new();
    let mut cur = match rng.below(6) { 0 => 0, 1 => rng.range(0, 9), 2 => rng.range(max - 200, max - 20), 3 => rng.range(900, 1100), _ => rng.range(1, 120) };
    for _ in 0..nlines {
        if cur > max { break; }
        nums.push(cur);
        cur += *rng.pick(&[1usize, 1, 2, 5, 10, 10, 10, 10, 90, 100, 1000]);
    }
    let pool = nums.clone();
    let mut target = move |rng: &mut Rng| -> usize {
        match rng.below(10) {
            0 => { let b = *rng.pick(&pool); if rng.chance(50) { b + 1 } else { b.saturating_sub(1) } }  // mostly missing
            1 => rng.range(0, max),
            _ => *rng.pick(&pool),
        }
    };
    let mut lines: Vec<PLine> = Vec::new();
    for n in &nums {
        if rng.chance(12) { lines.push(vec![lit(*rng.pick(&["", "", " ", "  "]))]); }
        let mut l: PLine = Vec::new();
        if rng.chance(6) { l.push(lit(" ")); }
        l.push(Seg::Prim(*n));
        l.push(lit(*rng.pick(&[" ", " ", " ", "  ", ""])));
        let ns = rng.range(1, 3);
        for i in 0..ns {
            if i > 0 { l.push(lit(*rng.pick(&[":", ": ", " : "]))); }
            let mut st = gen_statement(rng, lang, &mut target, i + 1 == ns);
            // a digit must never follow a number segment directly; a number directly after a primary
            // would fuse with it
            if let (Some(Seg::Lit(prev)), Some(Seg::Lit(first))) = (l.last(), st.first()) {
                if prev.is_empty() && first.chars().next().map(|c| c.is_ascii_digit()).unwrap_or(false) { st.insert(0, lit(" ")); }
            }
            l.append(&mut st);
        }
        lines.push(l);
    }
    if rng.chance(8) { lines.push(vec![lit("")]); }
    Prog { lines, crlf: rng.chance(25), trailing: rng.chance(50) }
}

struct Req { beg: usize, end: usize, first: usize, step: usize, flags: u64 }

fn gen_req(rng: &mut Rng, lang: Lang, nums: &Vec<usize>) -> Req {
    let max = lang.max();
    let near = |rng: &mut Rng| -> usize {
        if nums.is_empty() { return rng.range(0, 100); }
        let b = *rng.pick(nums);
        match rng.below(4) { 0 => b, 1 => b + 1, 2 => b.saturating_sub(1), _ => b + rng.range(0, 12) }
    };
    let (beg, end) = match rng.below(24) {
        0 | 1 | 2 => (0, usize::MAX),
        3 => (0, near(rng)),
        4 => (near(rng), usize::MAX),
        5 => { let b = near(rng); (b, b) }                                   // empty
        6 => { let b = near(rng); (b + 1, b.saturating_sub(1)) }             // beg > end
        7 => { let m = nums.iter().max().cloned().unwrap_or(0); (m + 1, m + 100) } // beyond the program
        _ => { let a = near(rng); let b = near(rng); (a.min(b), a.max(b) + rng.below(2)) }
    };
    let sel: Vec<usize> = nums.iter().cloned().filter(|n| *n >= beg && *n < end).collect();
    let first = match rng.below(12) {
        0 => 0,
        1 => rng.range(1, 9),
        2 => max,
        3 => rng.range(max - 30, max),
        4 => max + rng.range(1, 10),
        5 | 6 => near(rng),
        7 | 8 if !sel.is_empty() => { let s0 = sel[0]; match rng.below(3) { 0 => s0, 1 => s0 + 1, _ => s0.saturating_sub(rng.range(0, 9)) } }
        9 => rng.range(1000, 1010),
        _ => rng.range(0, 200),
    };
    let step = match rng.below(12) { 0 => 0, 1 | 2 | 3 => 1, 4 => 2, 5 => 5, 6 | 7 | 8 => 10, 9 => 100, 10 => rng.range(1, 2000), _ => if rng.chance(50) { max } else { max + 1 } };
    let flags = match rng.below(20) { 0..=9 => 0, 10..=17 => 1, 18 => 2, _ => 3 };
    Req { beg, end, first, step, flags }
}

fn gather(lang: Lang, src: &str) -> Result<(Vec<(usize, LabelInformation)>, Vec<(usize, LabelInformation)>), String> {
    let flat = |m: BTreeMap<usize, Vec<LabelInformation>>| -> Vec<(usize, LabelInformation)> {
        let mut v: Vec<(usize, LabelInformation)> = Vec::new();
        for (k, infos) in m { for i in infos { v.push((k, i)); } }
        // encounter order = row order, then column (stable: equal keys keep the Vec order)
        v.sort_by_key(|(_, i)| (i.rng.start.line, i.rng.start.character));
        v
    };
    let r = guarded(|| -> Result<_, String> {
        match lang {
            Lang::Applesoft => {
                let mut r = a2kit::lang::applesoft::renumber::Renumberer::new();
                let d = r.gather_defs(src, 0).map_err(|e| e.to_string())?;
                let s = r.gather_refs(src, 0).map_err(|e| e.to_string())?;
                Ok((d, s))
            }
            Lang::Integer => {
                let mut r = a2kit::lang::integer::renumber::Renumberer::new();
                let d = r.gather_defs(src, 0).map_err(|e| e.to_string())?;
                let s = r.gather_refs(src, 0).map_err(|e| e.to_string())?;
                Ok((d, s))
            }
        }
    });
    match r { Ok(Ok((d, s))) => Ok((flat(d), flat(s))), Ok(Err(e)) => Err(format!("err:{}", e)), Err(p) => Err(format!("panic:{}", panic_site(&p))) }
}

fn run_real(lang: Lang, src: &str, rq: &Req) -> Result<Result<String, String>, String> {
    guarded(|| match lang {
        Lang::Applesoft => {
            let mut r = a2kit::lang::applesoft::renumber::Renumberer::new();
            r.set_flags(rq.flags);
            r.renumber(src, rq.beg, rq.end, rq.first, rq.step).map_err(|e| e.to_string())
        }
        Lang::Integer => {
            let mut r = a2kit::lang::integer::renumber::Renumberer::new();
            r.set_flags(rq.flags);
            r.renumber(src, rq.beg, rq.end, rq.first, rq.step).map_err(|e| e.to_string())
        }
    })
}

fn ser_labels(v: &Vec<(usize, LabelInformation)>) -> String {
    if v.is_empty() { return "-".to_string(); }
    v.iter().map(|(n, i)| format!("{},{},{},{},{},{},{}", n, i.rng.start.line, i.rng.start.character, i.rng.end.line, i.rng.end.character, i.leading_space, i.trailing_space)).collect::<Vec<_>>().join(";")
}

/// where the generator put the numbers: (num,row,col0,col1) of the digits
fn known_positions(p: &Prog) -> (Vec<(usize, usize, usize, usize)>, Vec<(usize, usize, usize, usize)>) {
    let (mut prims, mut refs) = (Vec::new(), Vec::new());
    for (row, l) in p.lines.iter().enumerate() {
        let mut col = 0;
        for s in l {
            let t = plain(s);
            match s {
                Seg::Prim(n) => prims.push((*n, row, col, col + t.len())),
                Seg::Ref(n) => refs.push((*n, row, col, col + t.len())),
                _ => {}
            }
            col += t.len();
        }
    }
    (prims, refs)
}

fn digit_span(v: &Vec<(usize, LabelInformation)>) -> Vec<(usize, usize, usize, usize)> {
    v.iter().map(|(n, i)| (*n, i.rng.start.line as usize, i.rng.start.character as usize + i.leading_space, i.rng.end.character as usize - i.trailing_space)).collect()
}

/// split the way `str::lines` does
fn out_lines(s: &str) -> Vec<String> { s.lines().map(|l| l.to_string()).collect() }

/// read the numbers found in `actual` at the number segments of `l`; None if a literal segment differs
fn match_line(l: &PLine, actual: &str) -> Option<Vec<usize>> {
    let b = actual.as_bytes();
    let mut pos = 0;
    let mut nums = Vec::new();
    for s in l {
        match s {
            Seg::Lit(t) => { if !actual[pos..].starts_with(t.as_str()) { return None; } pos += t.len(); }
            _ => {
                let st = pos;
                while pos < b.len() && b[pos].is_ascii_digit() { pos += 1; }
                if st == pos || pos - st > 18 { return None; }
                nums.push(actual[st..pos].parse::<usize>().ok()?);
            }
        }
    }
    if pos != b.len() { return None; }
    Some(nums)
}

fn special_cases(lang: Lang) -> Vec<(Prog, Req)> {
    let mk = |txt: &[&str], crlf: bool, trailing: bool| -> Prog {
        // parse "N rest" lines with no references marked (used only for tie + weak oracles)
        let lines = txt.iter().map(|t| {
            let digits: String = t.chars().take_while(|c| c.is_ascii_digit()).collect();
            if digits.is_empty() { vec![lit(t)] } else { vec![Seg::Prim(digits.parse().unwrap()), lit(&t[digits.len()..])] }
        }).collect();
        Prog { lines, crlf, trailing }
    };
    let m = lang.max();
    vec![
        (Prog { lines: vec![], crlf: false, trailing: false }, Req { beg: 0, end: usize::MAX, first: 10, step: 10, flags: 0 }),
        (mk(&["", " "], false, true), Req { beg: 0, end: usize::MAX, first: 10, step: 10, flags: 0 }),
        // DESIGN §9 item 23: empty selection
        (mk(&["10 PRINT A", "20 PRINT B", "30 END"], false, false), Req { beg: 21, end: 29, first: 500, step: 1, flags: 0 }),
        (mk(&["10 PRINT A", "20 PRINT B", "30 END"], false, true), Req { beg: 100, end: 200, first: 500, step: 10, flags: 1 }),
        (mk(&["10 PRINT A", "20 PRINT B", "30 END"], true, true), Req { beg: 0, end: usize::MAX, first: m - 2, step: 1, flags: 0 }),
        (mk(&["10 PRINT A", "20 PRINT B", "30 END"], true, false), Req { beg: 0, end: usize::MAX, first: m - 1, step: 1, flags: 0 }),
        (mk(&["30 PRINT A", "40 PRINT B"], false, false), Req { beg: 10, end: 20, first: 5, step: 1, flags: 0 }),
        // move of the last row upward, with and without trailing newline
        (mk(&["10 PRINT A", "20 PRINT B", "30 END"], false, false), Req { beg: 30, end: 31, first: 5, step: 1, flags: 1 }),
        (mk(&["10 PRINT A", "20 PRINT B", "30 END"], false, true), Req { beg: 30, end: 31, first: 5, step: 1, flags: 1 }),
        (mk(&["10 PRINT A", "20 PRINT B", "30 END"], true, true), Req { beg: 10, end: 11, first: 25, step: 1, flags: 1 }),
        (mk(&["10 PRINT A", "", "20 PRINT B", "", "30 END"], false, true), Req { beg: 10, end: 11, first: 25, step: 1, flags: 1 }),
    ]
}

pub fn run(ctx: &mut Ctx) {
    let mut rng = Rng::new(ctx.seed ^ 0xC16);
    let n = ctx.n(10000, 200000);
    let mut idx = 0usize;
    for lang in [Lang::Applesoft, Lang::Integer] {
        let specials = special_cases(lang);
        let ns = specials.len();
        let mut specials = specials.into_iter();
        for k in 0..(n / 2 + ns) {
            let my = idx;
            idx += 1;
            let mut r = rng.fork(my as u64);
            let (prog, rq, marked) = if k < ns { let (p, q) = specials.next().unwrap(); (p, q, false) } else {
                let p = gen_prog(&mut r, lang);
                let q = gen_req(&mut r, lang, &p.nums());
                (p, q, true)
            };
            if !ctx.out.wants(my) { continue; }
            one_case(ctx, lang, my, &prog, &rq, marked);
        }
    }
}

fn one_case(ctx: &mut Ctx, lang: Lang, idx: usize, prog: &Prog, rq: &Req, marked: bool) {
    let ln = lang.name();
    let src = prog.text();
    let case = format!("idx={} lang={} beg={} end={} first={} step={} flags={} src={:?}", idx, ln, rq.beg, rq.end, rq.first, rq.step, rq.flags, src);
    let nums = prog.nums();
    let max = lang.max();
    let sel: Vec<usize> = nums.iter().cloned().filter(|x| *x >= rq.beg && *x < rq.end).collect();

    // ---- what the real code gathers (input of the model) --------------------------------------
    let (defs, refs) = match gather(lang, &src) {
        Ok(x) => x,
        Err(e) => { ctx.out.oracle(false, "gather", &format!("c16/{}/gather-{}", ln, e.split(':').next().unwrap_or("err")), &case); return; }
    };
    if marked {
        let (kp, kr) = known_positions(prog);
        let mut gp = digit_span(&defs); gp.sort_by_key(|x| (x.1, x.2));
        let mut gr = digit_span(&refs); gr.sort_by_key(|x| (x.1, x.2));
        ctx.out.oracle(gp == kp, "gather-defs", &format!("c16/{}/gather-defs-mismatch", ln), &case);
        ctx.out.oracle(gr == kr, "gather-refs", &format!("c16/{}/gather-refs-mismatch", ln), &case);
        ctx.out.q(&format!("c16 labelsok {} {} {}", hx(src.as_bytes()), ser_labels(&defs), ser_labels(&refs)), "true");
    }

    // ---- the real renumber --------------------------------------------------------------------
    let before = src.clone();
    let real = run_real(lang, &src, rq);
    let ans = match &real { Ok(Ok(t)) => format!("ok {}", hx(t.as_bytes())), Ok(Err(_)) => "err".to_string(), Err(_) => "panic".to_string() };
    // HEAD treats an empty selection as "whole document" (finding empty-selection-renumbered, reported by the
    // oracle below); that behaviour is compared with the legacy model so that the tie stays exact on both
    // the unfixed and the fixed code
    let op = if sel.is_empty() && !matches!(real, Ok(Err(_))) { "renum-legacy" } else { "renum" };
    ctx.out.q(&format!("c16 {} {} {} {} {} {} {} {} {} {}", op, max, rq.flags, rq.beg, rq.end, rq.first, rq.step, hx(src.as_bytes()), ser_labels(&defs), ser_labels(&refs)), &ans);
    ctx.out.oracle(src == before, "refusal-unmodified", &format!("c16/{}/source-modified", ln), &case);

    // ---- distribution -------------------------------------------------------------------------
    let outcome = match &real { Ok(Ok(_)) => "ok", Ok(Err(_)) => "refused", Err(_) => "panic" };
    ctx.out.count(&format!("{}:{}", ln, outcome));
    ctx.out.count(&format!("sel:{}", match sel.len() { 0 => "empty", 1 => "one", x if x == nums.len() => "all", _ => "part" }));
    if prog.crlf { ctx.out.count("crlf"); }
    if rq.flags & 1 == 1 { ctx.out.count("move-flag"); }
    let nrefs = refs.len();
    ctx.out.count(&format!("refs:{}", match nrefs { 0 => "0", 1..=2 => "1-2", 3..=6 => "3-6", _ => "7+" }));

    // ---- direct oracles -----------------------------------------------------------------------
    // expected mapping from the property text: selected lines, ascending, get first, first+step, ...
    let mapping: BTreeMap<usize, usize> = sel.iter().enumerate().map(|(i, x)| (*x, rq.first + i * rq.step)).collect();
    let digit_change = mapping.iter().any(|(a, b)| a.to_string().len() != b.to_string().len());
    match &real {
        Err(p) => {
            // a crash is not a refusal; the only crash the design knows is the empty document
            let empty_doc = src.lines().count() == 0;
            ctx.out.oracle(empty_doc, "no-panic", &format!("c16/{}/panic:{}", ln, panic_site(p).split(':').next().unwrap_or("?").rsplit('/').next().unwrap_or("?")), &case);
            if empty_doc { ctx.out.count("panic-empty-doc"); }
        }
        Ok(Err(_)) => {}
        Ok(Ok(out)) => {
            let olines = out_lines(out);
            if sel.is_empty() {
                ctx.out.oracle(*out == src, "empty-selection", &format!("c16/{}/empty-selection-renumbered", ln), &case);
            } else {
                // line structure: every non-blank output line must be one of the input lines with numbers replaced
                let src_nb: Vec<&PLine> = prog.lines.iter().filter(|l| !is_blank(l)).collect();
                let out_nb: Vec<&String> = olines.iter().filter(|l| !l.trim().is_empty()).collect();
                let moved = rq.flags & 1 == 1;
                // expected order of the non-blank lines
                let mut order: Vec<usize> = (0..src_nb.len()).collect();
                let newnum = |i: usize| -> usize { let old = nums[i]; *mapping.get(&old).unwrap_or(&old) };
                if moved { order.sort_by_key(|i| newnum(*i)); }  // stable
                if order.windows(2).any(|w| w[0] > w[1]) { ctx.out.count("moved-block"); }
                let mut ok_lines = out_nb.len() == src_nb.len();
                let mut ok_text = true; let mut ok_prim = true; let mut ok_ref = true; let mut ok_ref_other = true;
                let mut out_prims: Vec<usize> = Vec::new();
                if ok_lines {
                    for (pos, i) in order.iter().enumerate() {
                        match match_line(src_nb[*i], out_nb[pos]) {
                            None => { ok_text = false; }
                            Some(found) => {
                                let mut it = found.iter();
                                for s in src_nb[*i] {
                                    match s {
                                        Seg::Prim(old) => { let f = *it.next().unwrap(); out_prims.push(f); if f != *mapping.get(old).unwrap_or(old) { ok_prim = false; } }
                                        Seg::Ref(old) => {
                                            let f = *it.next().unwrap();
                                            let want = if rq.flags & 2 == 0 { *mapping.get(old).unwrap_or(old) } else { *old };
                                            if f != want { if mapping.contains_key(old) { ok_ref = false; } else { ok_ref_other = false; } }
                                        }
                                        _ => {}
                                    }
                                }
                            }
                        }
                    }
                } else { ok_lines = false; }
                let ascending = out_prims.windows(2).all(|w| w[0] < w[1]);
                ctx.out.oracle(ok_lines, "same-lines", &format!("c16/{}/lines-changed", ln), &case);
                if ok_lines {
                    ctx.out.oracle(ok_text, "text-unchanged", &format!("c16/{}/text-changed", ln), &case);
                    if ok_text {
                        ctx.out.oracle(ok_prim, "primary-sequence", &format!("c16/{}/primary-seq", ln), &case);
                        ctx.out.oracle(ok_ref, "refs-follow", &format!("c16/{}/ref-not-updated", ln), &case);
                        ctx.out.oracle(ok_ref_other, "refs-others", &format!("c16/{}/ref-wrongly-changed", ln), &case);
                        ctx.out.oracle(ascending, "refuses-dup-interleave", &format!("c16/{}/accepted-dup-or-interleave", ln), &case);
                        ctx.out.oracle(out_prims.iter().all(|x| *x <= max), "refuses-over-max", &format!("c16/{}/accepted-over-max", ln), &case);
                    }
                }
                if !moved {
                    // without move: exact text (blank lines, separators, trailing newline included)
                    let want_lines: Vec<String> = prog.lines.iter().map(|l| render_line(l, &|s: &Seg| match s {
                        Seg::Lit(t) => t.clone(),
                        Seg::Prim(o) => mapping.get(o).unwrap_or(o).to_string(),
                        Seg::Ref(o) => if rq.flags & 2 == 0 { mapping.get(o).unwrap_or(o).to_string() } else { o.to_string() },
                    })).collect();
                    let want = prog.render_with(&want_lines);
                    ctx.out.oracle(*out == want, "exact-text", &format!("c16/{}/text-changed", ln), &case);
                }
            }
        }
    }
    // must-refuse conditions stated on the request alone (independent of how the code decides)
    if !sel.is_empty() && rq.step >= 1 {
        let last = rq.first + rq.step * (sel.len() - 1);
        let unsel: Vec<usize> = nums.iter().cloned().filter(|x| !(*x >= rq.beg && *x < rq.end)).collect();
        let over = last > max;
        let collide = unsel.iter().any(|u| *u >= rq.first && *u <= last);
        if over || collide {
            let refused = matches!(real, Ok(Err(_)));
            ctx.out.oracle(refused, "must-refuse", &format!("c16/{}/{}", ln, if over { "accepted-over-max" } else { "accepted-dup-or-interleave" }), &case);
            ctx.out.count(if over { "req:over-max" } else { "req:collide" });
        }
    }
    let nontrivial = matches!(real, Ok(Ok(_))) && !sel.is_empty() && nrefs > 0;
    if digit_change && nontrivial { ctx.out.count("digit-count-change"); }
    let mut canon = src.clone().into_bytes();
    canon.extend_from_slice(format!("|{}|{}|{}|{}|{}", rq.beg, rq.end, rq.first, rq.step, rq.flags).as_bytes());
    ctx.out.case(&canon, nontrivial);
    if nontrivial && digit_change { ctx.out.sample(&case); }
}
