//! harness family c16: renumbering of Applesoft / Integer BASIC programs (property C16).
//!
//! * tie: what the real `gather_defs`/`gather_refs` return is serialised to the Lean model
//!   (`c16 renum ...`); the model's result must equal the real `Renumberer::renumber` result
//!   (`ok <hex>` / `err` / `panic`).  `c16 labelsok` checks the `LabelsOK` contract on the gathered labels.
//! * direct oracles (independent of the model): the generator knows every number it wrote (defining label,
//!   reference, or plain text), which lines a request selects and where they have to go.  From that knowledge it
//!   renders the ONE text an accepted request may return (`expected_text`, the statement of `renumber_correct` /
//!   `moved_block_placed`) and decides whether the request must be refused (`expect_refuse`, the statement of
//!   `refused_iff`); both are compared with what the real code does.
//! * object reuse: sessions of 2-5 calls on ONE `Renumberer` (accepted, refused, aborted in the middle of a gather
//!   pass) compared call by call with a fresh object (`renumber_history_independent`).
use crate::util::*;
use a2kit::lang::linenum::{LabelInformation, Renumber};
use std::collections::BTreeMap;

/// a piece of a line: literal text, a defining line number, or a reference; numbers carry the text they were
/// written with (`0010`, `1 0`)
#[derive(Clone, Debug)]
enum Seg { Lit(String), Prim(usize, String), Ref(usize, String) }
type PLine = Vec<Seg>;

#[derive(Clone, Copy, PartialEq)]
enum Lang { Applesoft, Integer }
impl Lang {
    fn name(&self) -> &'static str { match self { Lang::Applesoft => "applesoft", Lang::Integer => "integer" } }
    fn max(&self) -> usize { match self { Lang::Applesoft => 63999, Lang::Integer => 32767 } }
}

/// `seps[i]` terminates line `i`; the last line has one only if `trailing`
struct Prog { lines: Vec<PLine>, seps: Vec<&'static str>, trailing: bool }

fn prim_of(l: &PLine) -> Option<usize> { l.iter().find_map(|s| if let Seg::Prim(n, _) = s { Some(*n) } else { None }) }
fn is_blank(l: &PLine) -> bool { prim_of(l).is_none() }

fn plain(s: &Seg) -> String { match s { Seg::Lit(t) => t.clone(), Seg::Prim(_, t) | Seg::Ref(_, t) => t.clone() } }
fn render_line(l: &PLine, f: &dyn Fn(&Seg) -> String) -> String { l.iter().map(|s| f(s)).collect() }

impl Prog {
    fn text(&self) -> String {
        let mut s = String::new();
        for (i, l) in self.lines.iter().enumerate() {
            s += &render_line(l, &plain);
            if i + 1 < self.lines.len() || self.trailing { s += self.seps[i]; }
        }
        s
    }
    /// what `apply_edits` takes the document for: CRLF iff every `\n` is preceded by `\r` (also when there is none)
    fn crlf_doc(&self) -> bool {
        let n = if self.trailing { self.lines.len() } else { self.lines.len().saturating_sub(1) };
        self.seps.iter().take(n).all(|s| *s == "\r\n")
    }
    fn mixed(&self) -> bool {
        let n = if self.trailing { self.lines.len() } else { self.lines.len().saturating_sub(1) };
        let c = self.seps.iter().take(n).filter(|s| **s == "\r\n").count();
        c != 0 && c != n
    }
    fn nums(&self) -> Vec<usize> { self.lines.iter().filter_map(prim_of).collect() }
}

fn lit(s: &str) -> Seg { Seg::Lit(s.to_string()) }

/// the text a number is written with: plain, leading zeros, blanks between the digits
fn num_text(rng: &mut Rng, n: usize) -> String {
    let t = n.to_string();
    match rng.below(40) {
        0 => format!("0{}", t),
        1 => format!("00{}", t),
        2 if t.len() >= 2 => { let k = rng.range(1, t.len() - 1); format!("{} {}", &t[..k], &t[k..]) }
        _ => t,
    }
}
fn rf(rng: &mut Rng, n: usize) -> Seg { let t = num_text(rng, n); Seg::Ref(n, t) }

/// one statement; `target` draws a reference target
fn gen_statement(rng: &mut Rng, lang: Lang, target: &mut dyn FnMut(&mut Rng) -> usize, last: bool) -> Vec<Seg> {
    let sp = |rng: &mut Rng| -> &'static str { *rng.pick(&[" ", " ", " ", "", "  "]) };
    let comma = |rng: &mut Rng| -> &'static str { *rng.pick(&[",", ",", ", ", " ,", " , "]) };
    let lower = rng.chance(10);
    let kw = |s: &str| -> String { if lower { s.to_lowercase() } else { s.to_string() } };
    let mut v: Vec<Seg> = Vec::new();
    let k = rng.below(if lang == Lang::Applesoft { 24 } else { 18 });
    match (lang, k) {
        (_, 0) | (_, 1) => { v.push(Seg::Lit(kw("GOTO") + sp(rng))); let t = target(rng); v.push(rf(rng, t)); }
        (Lang::Applesoft, 2) => { v.push(Seg::Lit(kw("GO TO") + sp(rng))); let t = target(rng); v.push(rf(rng, t)); }
        (Lang::Integer, 2) => { v.push(Seg::Lit(kw("GOTO") + sp(rng))); let t = target(rng); v.push(rf(rng, t)); }
        (_, 3) | (_, 4) => { v.push(Seg::Lit(kw("GOSUB") + sp(rng))); let t = target(rng); v.push(rf(rng, t)); }
        (_, 5) | (_, 6) => { v.push(Seg::Lit(kw("IF A=1 THEN") + sp(rng))); let t = target(rng); v.push(rf(rng, t)); }
        (_, 7) => { v.push(Seg::Lit(kw("IF A>B THEN GOTO") + sp(rng))); let t = target(rng); v.push(rf(rng, t)); }
        (_, 8) => v.push(lit(*rng.pick(&["PRINT \"GOTO 10\"", "PRINT \"20 GOSUB 30\"", "PRINT \"100\";A"]))),
        (_, 9) => v.push(Seg::Lit(format!("A={}", rng.pick(&[10usize, 20, 100, 63999, 7])))),
        (_, 10) => v.push(lit(*rng.pick(&["POKE 768,10", "PRINT 10", "PRINT 20;30", "FOR I=10 TO 20", "NEXT I", "END", "RETURN"]))),
        (_, 11) if last => v.push(lit(*rng.pick(&["REM GOTO 10", "REM 10 20 30 GOSUB 40", "REM", "rem then 100"]))),
        (_, 12) => v.push(lit(*rng.pick(&["IF A=10 THEN PRINT 20", "IF A=10 THEN A=20", "B=A*100+20"]))),
        // computed targets are not references
        (Lang::Integer, 13) => v.push(lit(*rng.pick(&["GOTO A*10", "GOSUB A+100", "GOTO 100+A", "IF A THEN B*10", "GOTO (100)"]))),
        (Lang::Integer, 14) => {
            // LIST a,b is a statement of the Integer grammar
            v.push(Seg::Lit(kw("LIST") + sp(rng))); let t = target(rng); v.push(rf(rng, t));
            if rng.chance(60) { v.push(lit(comma(rng))); let t = target(rng); v.push(rf(rng, t)); }
        }
        (Lang::Applesoft, 13) | (Lang::Applesoft, 14) | (Lang::Applesoft, 15) => {
            v.push(Seg::Lit(kw(*rng.pick(&["ON X GOTO", "ON X GOSUB", "ON A+1 GOTO"])) + sp(rng)));
            let n = rng.range(1, 5);
            let mut prev: Option<usize> = None;
            for i in 0..n {
                if i > 0 { v.push(lit(comma(rng))); }
                // duplicate targets in one list
                let t = match prev { Some(p) if rng.chance(30) => p, _ => target(rng) };
                prev = Some(t);
                v.push(rf(rng, t));
            }
        }
        (Lang::Applesoft, 16) => { v.push(Seg::Lit(kw("ONERR GOTO") + sp(rng))); let t = target(rng); v.push(rf(rng, t)); }
        (Lang::Applesoft, 17) => v.push(lit(*rng.pick(&["DATA 10,20,30", "DATA 100", "HOME", "HTAB 10: VTAB 20"]))),
        (Lang::Applesoft, 18) => { v.push(Seg::Lit(kw("IF B THEN") + sp(rng))); let t = target(rng); v.push(rf(rng, t)); v.push(lit(" ")); }
        (Lang::Applesoft, 19) => {
            // LIST a , b  /  LIST a - b  /  LIST a
            v.push(Seg::Lit(kw("LIST") + sp(rng))); let t = target(rng); v.push(rf(rng, t));
            if rng.chance(60) { v.push(lit(*rng.pick(&[",", "-", " , ", " - "]))); let t = target(rng); v.push(rf(rng, t)); }
        }
        (Lang::Applesoft, 20) => {
            v.push(Seg::Lit(kw("DEL") + sp(rng))); let t = target(rng); v.push(rf(rng, t));
            v.push(lit(comma(rng))); let t = target(rng); v.push(rf(rng, t));
        }
        (Lang::Applesoft, 21) => { v.push(Seg::Lit(kw("RUN") + sp(rng))); let t = target(rng); v.push(rf(rng, t)); }
        _ => v.push(lit(*rng.pick(&["PRINT A", "A=B", "TEXT", "B=B+1"]))),
    }
    v
}

#[derive(Clone, Copy, PartialEq)]
enum Size { Normal, Long }

fn gen_prog(rng: &mut Rng, lang: Lang, size: Size) -> Prog {
    let max = lang.max();
    let nlines = match size {
        Size::Long => rng.range(2000, 2400),
        Size::Normal => match rng.below(10) { 0 => 1, 1 => 2, 2..=6 => rng.range(3, 7), _ => rng.range(8, 14) },
    };
    let mut nums: Vec<usize> = Vec::new();
    let mut cur = match (size, rng.below(6)) {
        (Size::Long, _) => rng.range(0, 50),
        (_, 0) => 0, (_, 1) => rng.range(0, 9), (_, 2) => rng.range(max - 200, max - 20), (_, 3) => rng.range(900, 1100), _ => rng.range(1, 120) };
    for _ in 0..nlines {
        if cur > max { break; }
        nums.push(cur);
        cur += match size { Size::Long => *rng.pick(&[1usize, 1, 2, 5, 10, 10]), Size::Normal => *rng.pick(&[1usize, 1, 2, 5, 10, 10, 10, 10, 90, 100, 1000]) };
    }
    let pool = nums.clone();
    let mut target = move |rng: &mut Rng| -> usize {
        match rng.below(10) {
            0 => { let b = *rng.pick(&pool); if rng.chance(50) { b + 1 } else { b.saturating_sub(1) } }  // mostly missing
            1 => rng.range(0, max),
            _ => *rng.pick(&pool),
        }
    };
    let mut lines: Vec<PLine> = Vec::new();
    for n in &nums {
        if rng.chance(if size == Size::Long { 2 } else { 12 }) { lines.push(vec![lit(*rng.pick(&["", "", " ", "  "]))]); }
        let mut l: PLine = Vec::new();
        if rng.chance(6) { l.push(lit(" ")); }
        let t = num_text(rng, *n);
        l.push(Seg::Prim(*n, t));
        l.push(lit(*rng.pick(&[" ", " ", " ", "  ", ""])));
        let ns = if size == Size::Long { 1 } else { rng.range(1, 3) };
        for i in 0..ns {
            if i > 0 { l.push(lit(*rng.pick(&[":", ": ", " : "]))); }
            let mut st = gen_statement(rng, lang, &mut target, i + 1 == ns);
            // a digit must never follow a number segment directly; a number directly after a primary
            // would fuse with it
            if let (Some(Seg::Lit(prev)), Some(Seg::Lit(first))) = (l.last(), st.first()) {
                if prev.is_empty() && first.chars().next().map(|c| c.is_ascii_digit()).unwrap_or(false) { st.insert(0, lit(" ")); }
            }
            l.append(&mut st);
        }
        lines.push(l);
    }
    if rng.chance(8) { lines.push(vec![lit("")]); }
    let style = rng.below(20);   // 0..=3 CRLF, 4 mixed, else LF
    let seps: Vec<&'static str> = (0..lines.len()).map(|_| match style { 0..=3 => "\r\n", 4 => if rng.chance(50) { "\r\n" } else { "\n" }, _ => "\n" }).collect();
    Prog { lines, seps, trailing: rng.chance(50) }
}

#[derive(Clone)]
struct Req { beg: usize, end: usize, first: usize, step: usize, flags: u64 }

fn gen_req(rng: &mut Rng, lang: Lang, nums: &Vec<usize>) -> Req {
    let max = lang.max();
    let near = |rng: &mut Rng| -> usize {
        if nums.is_empty() { return rng.range(0, 100); }
        let b = *rng.pick(nums);
        match rng.below(4) { 0 => b, 1 => b + 1, 2 => b.saturating_sub(1), _ => b + rng.range(0, 12) }
    };
    let (beg, end) = match rng.below(28) {
        0 | 1 | 2 => (0, usize::MAX),
        3 => (0, near(rng)),
        4 => (near(rng), usize::MAX),
        5 => { let b = near(rng); (b, b) }                                   // empty
        6 => { let b = near(rng); (b + 1, b.saturating_sub(1)) }             // beg > end
        7 => { let m = nums.iter().max().cloned().unwrap_or(0); (m + 1, m + 100) } // beyond the program
        8 | 9 | 10 if !nums.is_empty() => { let b = *rng.pick(nums); (b, b + 1) }  // exactly one line
        11 if !nums.is_empty() => (0, nums[0] + 1),                           // the first line
        12 if !nums.is_empty() => (*nums.last().unwrap(), usize::MAX),        // the last line
        _ => { let a = near(rng); let b = near(rng); (a.min(b), a.max(b) + rng.below(2)) }
    };
    let sel: Vec<usize> = nums.iter().cloned().filter(|n| *n >= beg && *n < end).collect();
    let lo = nums.first().cloned().unwrap_or(0);
    let hi = nums.last().cloned().unwrap_or(0);
    let first = match rng.below(16) {
        0 => 0,
        1 => rng.range(1, 9),
        2 => max,
        3 => rng.range(max - 30, max),
        4 => max + rng.range(1, 10),
        5 | 6 => near(rng),
        7 | 8 if !sel.is_empty() => { let s0 = sel[0]; match rng.below(3) { 0 => s0, 1 => s0 + 1, _ => s0.saturating_sub(rng.range(0, 9)) } }
        9 => rng.range(1000, 1010),
        10 => lo.saturating_sub(rng.range(1, 12)),        // in front of the whole program
        11 | 12 => hi + rng.range(1, 40),                 // behind the whole program
        13 if !sel.is_empty() && sel.len() >= 1 => { let n = sel.len(); max.saturating_sub(n - 1) }  // last new number == max
        _ => rng.range(0, 200),
    };
    let step = match rng.below(12) { 0 => 0, 1 | 2 | 3 | 4 => 1, 5 => 2, 6 => 5, 7 | 8 => 10, 9 => 100, 10 => rng.range(1, 2000), _ => if rng.chance(50) { max } else { max + 1 } };
    let flags = match rng.below(20) { 0..=8 => 0, 9..=17 => 1, 18 => 2, _ => 3 };
    Req { beg, end, first, step, flags }
}

fn gather(lang: Lang, src: &str) -> Result<(Vec<(usize, LabelInformation)>, Vec<(usize, LabelInformation)>), String> {
    let flat = |m: BTreeMap<usize, Vec<LabelInformation>>| -> Vec<(usize, LabelInformation)> {
        let mut v: Vec<(usize, LabelInformation)> = Vec::new();
        for (k, infos) in m { for i in infos { v.push((k, i)); } }
        // encounter order = row order, then column (stable: equal keys keep the Vec order)
        v.sort_by_key(|(_, i)| (i.rng.start.line, i.rng.start.character));
        v
    };
    let r = guarded(|| -> Result<_, String> {
        match lang {
            Lang::Applesoft => {
                let mut r = a2kit::lang::applesoft::renumber::Renumberer::new();
                let d = r.gather_defs(src, 0).map_err(|e| e.to_string())?;
                let s = r.gather_refs(src, 0).map_err(|e| e.to_string())?;
                Ok((d, s))
            }
            Lang::Integer => {
                let mut r = a2kit::lang::integer::renumber::Renumberer::new();
                let d = r.gather_defs(src, 0).map_err(|e| e.to_string())?;
                let s = r.gather_refs(src, 0).map_err(|e| e.to_string())?;
                Ok((d, s))
            }
        }
    });
    match r { Ok(Ok((d, s))) => Ok((flat(d), flat(s))), Ok(Err(e)) => Err(format!("err:{}", e)), Err(p) => Err(format!("panic:{}", panic_site(&p))) }
}

/// one `Renumberer` of either dialect
enum Obj { A(a2kit::lang::applesoft::renumber::Renumberer), I(a2kit::lang::integer::renumber::Renumberer) }
impl Obj {
    fn new(lang: Lang) -> Obj { match lang { Lang::Applesoft => Obj::A(a2kit::lang::applesoft::renumber::Renumberer::new()), Lang::Integer => Obj::I(a2kit::lang::integer::renumber::Renumberer::new()) } }
    fn renumber(&mut self, src: &str, rq: &Req) -> Result<String, String> {
        match self {
            Obj::A(r) => { r.set_flags(rq.flags); r.renumber(src, rq.beg, rq.end, rq.first, rq.step).map_err(|e| e.to_string()) }
            Obj::I(r) => { r.set_flags(rq.flags); r.renumber(src, rq.beg, rq.end, rq.first, rq.step).map_err(|e| e.to_string()) }
        }
    }
    fn gather_only(&mut self, src: &str, defs: bool) -> bool {
        match (self, defs) {
            (Obj::A(r), true) => r.gather_defs(src, 0).is_ok(), (Obj::A(r), false) => r.gather_refs(src, 0).is_ok(),
            (Obj::I(r), true) => r.gather_defs(src, 0).is_ok(), (Obj::I(r), false) => r.gather_refs(src, 0).is_ok(),
        }
    }
}

fn run_real(lang: Lang, src: &str, rq: &Req) -> Result<Result<String, String>, String> {
    guarded(|| Obj::new(lang).renumber(src, rq))
}

fn ser_labels(v: &Vec<(usize, LabelInformation)>) -> String {
    if v.is_empty() { return "-".to_string(); }
    v.iter().map(|(n, i)| format!("{},{},{},{},{},{},{}", n, i.rng.start.line, i.rng.start.character, i.rng.end.line, i.rng.end.character, i.leading_space, i.trailing_space)).collect::<Vec<_>>().join(";")
}

/// where the generator put the numbers: (num,row,col0,col1) from the first to the last digit
fn known_positions(p: &Prog) -> (Vec<(usize, usize, usize, usize)>, Vec<(usize, usize, usize, usize)>) {
    let (mut prims, mut refs) = (Vec::new(), Vec::new());
    for (row, l) in p.lines.iter().enumerate() {
        let mut col = 0;
        for s in l {
            let t = plain(s);
            match s {
                Seg::Prim(n, _) => prims.push((*n, row, col, col + t.len())),
                Seg::Ref(n, _) => refs.push((*n, row, col, col + t.len())),
                _ => {}
            }
            col += t.len();
        }
    }
    (prims, refs)
}

fn digit_span(v: &Vec<(usize, LabelInformation)>) -> Vec<(usize, usize, usize, usize)> {
    v.iter().map(|(n, i)| (*n, i.rng.start.line as usize, i.rng.start.character as usize + i.leading_space, i.rng.end.character as usize - i.trailing_space)).collect()
}

/// split the way `str::lines` does
fn out_lines(s: &str) -> Vec<String> { s.lines().map(|l| l.to_string()).collect() }

// ---------------------------------------------------------------------------------------------------------
// what the generator knows about a request
// ---------------------------------------------------------------------------------------------------------

struct Know {
    sel_rows: Vec<usize>,          // rows of the selected numbered lines, ascending
    mapping: BTreeMap<usize, usize>,
    last_new: usize,
    ins: usize,                    // row in front of which the block has to stand
    needs_move: bool,
}

fn row_blank(l: &PLine) -> bool { render_line(l, &plain).chars().all(|c| c.is_whitespace()) }

fn know(prog: &Prog, rq: &Req) -> Option<Know> {
    let numbered: Vec<(usize, usize)> = prog.lines.iter().enumerate().filter_map(|(r, l)| prim_of(l).map(|n| (r, n))).collect();
    let sel: Vec<(usize, usize)> = numbered.iter().cloned().filter(|(_, n)| *n >= rq.beg && *n < rq.end).collect();
    if sel.is_empty() { return None; }
    let mapping: BTreeMap<usize, usize> = sel.iter().enumerate().map(|(i, (_, n))| (*n, rq.first.saturating_add(i.saturating_mul(rq.step)))).collect();
    let last_new = rq.first.saturating_add(rq.step.saturating_mul(sel.len() - 1));
    let a = sel[0].0;
    // behind the last unselected line whose number is below `first`, then past blank rows
    let mut ins = numbered.iter().filter(|(_, n)| !(*n >= rq.beg && *n < rq.end) && *n < rq.first).map(|(r, _)| r + 1).max().unwrap_or(0);
    while ins < prog.lines.len() && row_blank(&prog.lines[ins]) { ins += 1; }
    Some(Know { sel_rows: sel.iter().map(|(r, _)| *r).collect(), mapping, last_new, ins, needs_move: ins != a })
}

/// the statement of `refused_iff`, decided on the generator's knowledge; `None` = no reason to refuse
fn expect_refuse(prog: &Prog, rq: &Req, max: usize) -> Option<&'static str> {
    let nums = prog.nums();
    let k = match know(prog, rq) { None => return Some("empty-selection"), Some(k) => k };
    let mut sorted = nums.clone(); sorted.sort(); sorted.dedup();
    if sorted.len() != nums.len() { return Some("duplicate-source-number"); }
    if rq.first > max || rq.step < 1 || rq.step > max { return Some("bad-parameters"); }
    if k.last_new > max { return Some("over-max"); }
    if nums.iter().any(|n| !(*n >= rq.beg && *n < rq.end) && *n >= rq.first && *n <= k.last_new) { return Some("dup-or-interleave"); }
    if k.needs_move && rq.flags & 1 == 0 { return Some("move-not-allowed"); }
    if k.needs_move && !prog.trailing && *k.sel_rows.last().unwrap() + 1 == prog.lines.len() { return Some("move-last-row-no-newline"); }
    None
}

/// the one text an accepted request may return (`renumber_correct`, `moved_block_placed`)
fn expected_text(prog: &Prog, rq: &Req, k: &Know) -> String {
    let upd = rq.flags & 2 == 0;
    let new_rows: Vec<String> = prog.lines.iter().map(|l| render_line(l, &|s: &Seg| match s {
        Seg::Lit(t) => t.clone(),
        Seg::Prim(o, t) => k.mapping.get(o).map(|n| n.to_string()).unwrap_or(t.clone()),
        Seg::Ref(o, t) => if upd { k.mapping.get(o).map(|n| n.to_string()).unwrap_or(t.clone()) } else { t.clone() },
    })).collect();
    if !k.needs_move {
        // same rows, same separators unless mixed (then LF), same final-newline state
        let mut s = String::new();
        for (i, l) in new_rows.iter().enumerate() {
            s += l;
            if i + 1 < new_rows.len() || prog.trailing { s += if prog.mixed() { "\n" } else { prog.seps[i] }; }
        }
        return s;
    }
    let (a, b) = (k.sel_rows[0], *k.sel_rows.last().unwrap());
    let block: Vec<String> = new_rows[a..=b].to_vec();
    let mut rows: Vec<String> = Vec::new();
    for (r, l) in new_rows.iter().enumerate() {
        if r >= a && r <= b { continue; }
        if r == k.ins { rows.extend(block.iter().cloned()); }
        rows.push(l.clone());
    }
    if prog.trailing { rows.push(String::new()); }
    if k.ins == new_rows.len() { rows.extend(block.iter().cloned()); }
    let sep = if prog.crlf_doc() { "\r\n" } else { "\n" };
    let mut s = rows.join(sep);
    s += sep;
    s
}

/// numbers found in `actual` at the number segments of `l` (blanks inside a number ignored); None if a literal differs
fn match_line(l: &PLine, actual: &str) -> Option<Vec<usize>> {
    let b = actual.as_bytes();
    let mut pos = 0;
    let mut nums = Vec::new();
    for (i, s) in l.iter().enumerate() {
        match s {
            Seg::Lit(t) => { if !actual[pos..].starts_with(t.as_str()) { return None; } pos += t.len(); }
            _ => {
                let st = pos;
                while pos < b.len() && (b[pos].is_ascii_digit() || b[pos] == b' ') { pos += 1; }
                // give back blanks (and nothing else) until the following literal fits
                let next: String = l[i + 1..].iter().take_while(|s| matches!(s, Seg::Lit(_))).map(plain).collect();
                while pos > st && !(actual[pos..].starts_with(next.as_str()) && b[pos - 1].is_ascii_digit()) { pos -= 1; }
                let digits: String = actual[st..pos].chars().filter(|c| *c != ' ').collect();
                if digits.is_empty() || digits.len() > 18 { return None; }
                nums.push(digits.parse::<usize>().ok()?);
            }
        }
    }
    if pos != b.len() { return None; }
    Some(nums)
}

fn special_cases(lang: Lang) -> Vec<(Prog, Req)> {
    let mk = |txt: &[&str], crlf: bool, trailing: bool| -> Prog {
        // parse "N rest" lines with no references marked (used only for tie + weak oracles)
        let lines: Vec<PLine> = txt.iter().map(|t| {
            let digits: String = t.chars().take_while(|c| c.is_ascii_digit()).collect();
            if digits.is_empty() { vec![lit(t)] } else { vec![Seg::Prim(digits.parse().unwrap(), digits.clone()), lit(&t[digits.len()..])] }
        }).collect();
        let n = lines.len();
        Prog { lines, seps: vec![if crlf { "\r\n" } else { "\n" }; n], trailing }
    };
    let m = lang.max();
    vec![
        (Prog { lines: vec![], seps: vec![], trailing: false }, Req { beg: 0, end: usize::MAX, first: 10, step: 10, flags: 0 }),
        (mk(&["", " "], false, true), Req { beg: 0, end: usize::MAX, first: 10, step: 10, flags: 0 }),
        // DESIGN §9 item 23: empty selection
        (mk(&["10 PRINT A", "20 PRINT B", "30 END"], false, false), Req { beg: 21, end: 29, first: 500, step: 1, flags: 0 }),
        (mk(&["10 PRINT A", "20 PRINT B", "30 END"], false, true), Req { beg: 100, end: 200, first: 500, step: 10, flags: 1 }),
        (mk(&["10 PRINT A", "20 PRINT B", "30 END"], true, true), Req { beg: 0, end: usize::MAX, first: m - 2, step: 1, flags: 0 }),
        (mk(&["10 PRINT A", "20 PRINT B", "30 END"], true, false), Req { beg: 0, end: usize::MAX, first: m - 1, step: 1, flags: 0 }),
        (mk(&["30 PRINT A", "40 PRINT B"], false, false), Req { beg: 10, end: 20, first: 5, step: 1, flags: 0 }),
        // move of the last row upward, with and without trailing newline
        (mk(&["10 PRINT A", "20 PRINT B", "30 END"], false, false), Req { beg: 30, end: 31, first: 5, step: 1, flags: 1 }),
        (mk(&["10 PRINT A", "20 PRINT B", "30 END"], false, true), Req { beg: 30, end: 31, first: 5, step: 1, flags: 1 }),
        (mk(&["10 PRINT A", "20 PRINT B", "30 END"], true, true), Req { beg: 10, end: 11, first: 25, step: 1, flags: 1 }),
        (mk(&["10 PRINT A", "", "20 PRINT B", "", "30 END"], false, true), Req { beg: 10, end: 11, first: 25, step: 1, flags: 1 }),
        // move of the first row behind the program end, with and without trailing newline, LF and CRLF
        (mk(&["10 PRINT A", "20 PRINT B", "30 END"], false, false), Req { beg: 10, end: 11, first: 40, step: 1, flags: 1 }),
        (mk(&["10 PRINT A", "20 PRINT B", "30 END"], false, true), Req { beg: 10, end: 11, first: 40, step: 1, flags: 1 }),
        (mk(&["10 PRINT A", "20 PRINT B", "30 END"], true, false), Req { beg: 10, end: 11, first: 40, step: 1, flags: 1 }),
        (mk(&["10 PRINT A", "20 PRINT B", "30 END", "", " "], false, true), Req { beg: 10, end: 21, first: 40, step: 1, flags: 1 }),
        // bounds: last new number == max / max+1
        (mk(&["10 PRINT A", "20 PRINT B"], false, true), Req { beg: 0, end: usize::MAX, first: m - 1, step: 1, flags: 0 }),
        (mk(&["10 PRINT A", "20 PRINT B"], false, true), Req { beg: 0, end: usize::MAX, first: m, step: 1, flags: 0 }),
        (mk(&["10 PRINT A", "20 PRINT B"], false, true), Req { beg: 20, end: 21, first: m, step: 1, flags: 0 }),
        // a line number twice in the source
        (mk(&["10 PRINT A", "10 PRINT B", "30 END"], false, true), Req { beg: 30, end: 31, first: 40, step: 1, flags: 0 }),
    ]
}

pub fn run(ctx: &mut Ctx) {
    let mut rng = Rng::new(ctx.seed ^ 0xC16);
    let n = ctx.n(9000, 200000);
    let nlong = ctx.n(2, 12);
    let nsess = ctx.n(1200, 20000);
    let mut idx = 0usize;
    for lang in [Lang::Applesoft, Lang::Integer] {
        let specials = special_cases(lang);
        let ns = specials.len();
        let mut specials = specials.into_iter();
        for k in 0..(n / 2 + ns + nlong) {
            let my = idx;
            idx += 1;
            let mut r = rng.fork(my as u64);
            let (prog, rq, marked) = if k < ns { let (p, q) = specials.next().unwrap(); (p, q, false) } else {
                let p = gen_prog(&mut r, lang, if k < ns + nlong { Size::Long } else { Size::Normal });
                let q = gen_req(&mut r, lang, &p.nums());
                (p, q, true)
            };
            if !ctx.out.wants(my) { continue; }
            one_case(ctx, lang, my, &prog, &rq, marked);
        }
        for _ in 0..nsess / 2 {
            let my = idx;
            idx += 1;
            let mut r = rng.fork(my as u64);
            if !ctx.out.wants(my) { continue; }
            session(ctx, lang, my, &mut r);
        }
    }
}

/// a program in which one gather pass aborts: a number of 20+ digits as a line number (not on the first numbered
/// line) or as a branch target (after an ordinary reference)
fn poison(rng: &mut Rng, lang: Lang) -> String {
    let p = gen_prog(rng, lang, Size::Normal);
    let mut rows: Vec<String> = p.lines.iter().map(|l| render_line(l, &plain)).collect();
    let huge = *rng.pick(&["99999999999999999999", "18446744073709551616", "123456789012345678901234567890"]);
    let numbered: Vec<usize> = p.lines.iter().enumerate().filter(|(_, l)| !is_blank(l)).map(|(r, _)| r).collect();
    let at = if numbered.len() >= 2 { numbered[rng.range(1, numbered.len() - 1)] } else { rows.len() };
    let kw = match lang { Lang::Applesoft => "HOME", Lang::Integer => "TEXT" };
    let bad = match rng.below(3) {
        0 => format!("{} {}", huge, kw),                                 // a line number that does not fit
        1 => format!("{} GOTO {}", 64000 + rng.below(100), huge),        // a branch target that does not fit
        _ => format!("{} GOSUB {}: GOTO {}", 64000 + rng.below(100), rng.range(0, 5000), huge),
    };
    if at >= rows.len() { rows.push(bad); } else { rows.insert(at, bad); }
    let mut s = rows.join("\n");
    s.push('\n');
    s
}

/// 2-5 calls on ONE object; every result must be the result of the same call on a fresh object
fn session(ctx: &mut Ctx, lang: Lang, idx: usize, rng: &mut Rng) {
    let ln = lang.name();
    let ncalls = rng.range(2, 5);
    let mut obj = Obj::new(lang);
    let mut log: Vec<String> = Vec::new();
    let mut canon: Vec<u8> = Vec::new();
    let mut aborted = false;
    let mut compared = 0;
    for c in 0..ncalls {
        let kind = if c + 1 == ncalls { 0 } else { rng.below(10) };
        match kind {
            // a gather pass on its own (the trait methods are public), aborting or not
            7 => {
                let src = if rng.chance(70) { poison(rng, lang) } else { gen_prog(rng, lang, Size::Normal).text() };
                let defs = rng.chance(50);
                let r = guarded(|| obj.gather_only(&src, defs));
                log.push(format!("gather_{}({:?})={:?}", if defs { "defs" } else { "refs" }, src, r));
                if !matches!(r, Ok(true)) { aborted = true; }
                canon.extend_from_slice(src.as_bytes());
            }
            // a program that is refused in the middle of a pass
            8 | 9 => {
                let src = poison(rng, lang);
                let rq = gen_req(rng, lang, &vec![10, 20, 1000]);
                let r = guarded(|| obj.renumber(&src, &rq));
                log.push(format!("renumber({:?},{},{},{},{},f{})={}", src, rq.beg, rq.end, rq.first, rq.step, rq.flags, match &r { Ok(Ok(_)) => "ok", Ok(Err(_)) => "err", Err(_) => "panic" }));
                let fresh = run_real(lang, &src, &rq);
                ctx.out.oracle(same_result(&r, &fresh), "object-reuse", &format!("c16/{}/object-reuse/result-differs", ln), &format!("idx={} lang={} session: {}", idx, ln, log.join(" ; ")));
                compared += 1;
                aborted = true;
                canon.extend_from_slice(src.as_bytes());
            }
            // an ordinary call: accepted, or refused for one of the ordinary reasons
            _ => {
                let p = gen_prog(rng, lang, Size::Normal);
                let src = p.text();
                let mut rq = gen_req(rng, lang, &p.nums());
                // partial selections are the ones a stale map can widen
                if rng.chance(60) { let ns = p.nums(); if ns.len() >= 2 { let k = rng.range(1, ns.len() - 1); rq.beg = ns[k]; rq.end = usize::MAX; rq.first = ns[k] + rng.range(0, 3); rq.step = 1; } }
                let r = guarded(|| obj.renumber(&src, &rq));
                log.push(format!("renumber({:?},{},{},{},{},f{})={}", src, rq.beg, rq.end, rq.first, rq.step, rq.flags, match &r { Ok(Ok(t)) => format!("ok {:?}", t), Ok(Err(_)) => "err".to_string(), Err(_) => "panic".to_string() }));
                let fresh = run_real(lang, &src, &rq);
                ctx.out.oracle(same_result(&r, &fresh), "object-reuse", &format!("c16/{}/object-reuse/result-differs", ln), &format!("idx={} lang={} session: {} ; fresh={:?}", idx, ln, log.join(" ; "), fresh.as_ref().map(|x| x.as_ref().ok())));
                compared += 1;
                canon.extend_from_slice(src.as_bytes());
                canon.extend_from_slice(format!("|{}|{}|{}|{}|{}", rq.beg, rq.end, rq.first, rq.step, rq.flags).as_bytes());
            }
        }
    }
    ctx.out.count("session");
    if aborted { ctx.out.count("session:with-aborted-pass"); }
    ctx.out.count_n("session:calls-compared", compared);
    ctx.out.case(&canon, aborted);
}

fn same_result(a: &Result<Result<String, String>, String>, b: &Result<Result<String, String>, String>) -> bool {
    match (a, b) {
        (Ok(Ok(x)), Ok(Ok(y))) => x == y,
        (Ok(Err(_)), Ok(Err(_))) => true,
        (Err(_), Err(_)) => true,
        _ => false,
    }
}

fn one_case(ctx: &mut Ctx, lang: Lang, idx: usize, prog: &Prog, rq: &Req, marked: bool) {
    let ln = lang.name();
    let src = prog.text();
    let long = prog.lines.len() > 500;
    let case = if long {
        format!("idx={} lang={} beg={} end={} first={} step={} flags={} src=<{} lines, fnv {:016x}>", idx, ln, rq.beg, rq.end, rq.first, rq.step, rq.flags, prog.lines.len(), fnv(src.as_bytes()))
    } else {
        format!("idx={} lang={} beg={} end={} first={} step={} flags={} src={:?}", idx, ln, rq.beg, rq.end, rq.first, rq.step, rq.flags, src)
    };
    let nums = prog.nums();
    let max = lang.max();
    let sel: Vec<usize> = nums.iter().cloned().filter(|x| *x >= rq.beg && *x < rq.end).collect();

    // ---- what the real code gathers (input of the model) --------------------------------------
    let (defs, refs) = match gather(lang, &src) {
        Ok(x) => x,
        Err(e) => { ctx.out.oracle(false, "gather", &format!("c16/{}/gather-{}", ln, e.split(':').next().unwrap_or("err")), &case); return; }
    };
    if marked {
        let (kp, kr) = known_positions(prog);
        let mut gp = digit_span(&defs); gp.sort_by_key(|x| (x.1, x.2));
        let mut gr = digit_span(&refs); gr.sort_by_key(|x| (x.1, x.2));
        ctx.out.oracle(gp == kp, "gather-defs", &format!("c16/{}/gather-defs-mismatch", ln), &case);
        ctx.out.oracle(gr == kr, "gather-refs", &format!("c16/{}/gather-refs-mismatch", ln), &case);
        ctx.out.q(&format!("c16 labelsok {} {} {}", hx(src.as_bytes()), ser_labels(&defs), ser_labels(&refs)), "true");
    }

    // ---- the real renumber --------------------------------------------------------------------
    let before = src.clone();
    let real = run_real(lang, &src, rq);
    let ans = match &real { Ok(Ok(t)) => format!("ok {}", hx(t.as_bytes())), Ok(Err(_)) => "err".to_string(), Err(_) => "panic".to_string() };
    // HEAD treats an empty selection as "whole document" (finding empty-selection-renumbered, reported by the
    // oracle below); that behaviour is compared with the legacy model so that the tie stays exact on both
    // the unfixed and the fixed code
    let op = if sel.is_empty() && !matches!(real, Ok(Err(_))) { "renum-legacy" } else { "renum" };
    ctx.out.q(&format!("c16 {} {} {} {} {} {} {} {} {} {}", op, max, rq.flags, rq.beg, rq.end, rq.first, rq.step, hx(src.as_bytes()), ser_labels(&defs), ser_labels(&refs)), &ans);
    // a refusal hands nothing back and the caller's text is what it was
    ctx.out.oracle(src == before, "refusal-unmodified", &format!("c16/{}/source-modified", ln), &case);

    // ---- distribution -------------------------------------------------------------------------
    let outcome = match &real { Ok(Ok(_)) => "ok", Ok(Err(_)) => "refused", Err(_) => "panic" };
    ctx.out.count(&format!("{}:{}", ln, outcome));
    ctx.out.count(&format!("sel:{}", match sel.len() { 0 => "empty", 1 => "one", x if x == nums.len() => "all", _ => "part" }));
    if prog.crlf_doc() && prog.lines.len() > 1 { ctx.out.count("crlf"); }
    if prog.mixed() { ctx.out.count("mixed-line-ends"); }
    if long { ctx.out.count("long-program"); }
    if rq.flags & 1 == 1 { ctx.out.count("move-flag"); }
    if rq.flags & 2 == 2 { ctx.out.count("pass-over-refs"); }
    if src.contains(" 0") && marked && prog.lines.iter().flatten().any(|s| matches!(s, Seg::Prim(_, t) | Seg::Ref(_, t) if t.starts_with('0') && t.len() > 1)) { ctx.out.count("leading-zero-number"); }
    if marked && prog.lines.iter().flatten().any(|s| matches!(s, Seg::Prim(_, t) | Seg::Ref(_, t) if t.contains(' '))) { ctx.out.count("blank-inside-number"); }
    let nrefs = refs.len();
    ctx.out.count(&format!("refs:{}", match nrefs { 0 => "0", 1..=2 => "1-2", 3..=6 => "3-6", _ => "7+" }));

    // ---- direct oracles -----------------------------------------------------------------------
    let empty_doc = src.lines().count() == 0;
    let kn = know(prog, rq);
    // (1) refused exactly when the request has to be refused (`refused_iff`)
    if !empty_doc {
        let want = expect_refuse(prog, rq, max);
        match (&real, want) {
            (Ok(Ok(_)), Some(why)) if !(why == "empty-selection") =>
                ctx.out.oracle(false, "refused-iff", &format!("c16/{}/{}", ln, match why { "over-max" | "bad-parameters" => "accepted-over-max", "move-not-allowed" | "dup-or-interleave" | "duplicate-source-number" => "accepted-dup-or-interleave", _ => "accepted-must-refuse" }), &format!("{} must-refuse={}", case, why)),
            (Ok(Ok(out)), Some(_)) =>
                // empty selection: the known finding of round 1 keeps its signature
                ctx.out.oracle(*out == src, "empty-selection", &format!("c16/{}/empty-selection-renumbered", ln), &case),
            (Ok(Err(_)), None) => ctx.out.oracle(false, "refused-iff", &format!("c16/{}/refused-without-reason", ln), &case),
            _ => ctx.out.oracle(true, "refused-iff", "", &case),
        }
        if let Some(why) = want { ctx.out.count(&format!("must-refuse:{}", why)); }
    }
    match &real {
        Err(p) => {
            // a crash is not a refusal; the only crash the design knows is the empty document
            ctx.out.oracle(empty_doc, "no-panic", &format!("c16/{}/panic:{}", ln, panic_site(p).split(':').next().unwrap_or("?").rsplit('/').next().unwrap_or("?")), &case);
            if empty_doc { ctx.out.count("panic-empty-doc"); }
        }
        Ok(Err(_)) => {}
        Ok(Ok(out)) => {
            if let Some(k) = &kn {
                // (2) the text: the one rendering the generator's knowledge allows
                let want = expected_text(prog, rq, k);
                let exact = *out == want;
                if k.needs_move { ctx.out.count("moved-block"); if k.ins < k.sel_rows[0] { ctx.out.count("moved-up"); } else { ctx.out.count("moved-down"); }
                    if k.ins == 0 { ctx.out.count("moved-to-program-start"); }
                    if k.ins == prog.lines.len() { ctx.out.count("moved-to-program-end"); } }
                // classify a deviation by clause
                let olines = out_lines(out);
                let wlines = out_lines(&want);
                let src_nb = prog.lines.iter().filter(|l| !is_blank(l)).count();
                let out_nb: Vec<&String> = olines.iter().filter(|l| !l.trim().is_empty()).collect();
                let ok_lines = out_nb.len() == src_nb;
                // expected order of the source rows in the output
                let mut order: Vec<usize> = Vec::new();
                if k.needs_move {
                    let (a, b) = (k.sel_rows[0], *k.sel_rows.last().unwrap());
                    for r in 0..prog.lines.len() { if r >= a && r <= b { continue; } if r == k.ins { order.extend(a..=b); } order.push(r); }
                    if k.ins == prog.lines.len() { order.extend(a..=b); }
                } else { order.extend(0..prog.lines.len()); }
                let order_nb: Vec<usize> = order.into_iter().filter(|r| !is_blank(&prog.lines[*r])).collect();
                let (mut ok_text, mut ok_prim, mut ok_ref, mut ok_ref_other) = (true, true, true, true);
                let mut out_prims: Vec<usize> = Vec::new();
                if ok_lines && !exact {
                    for (pos, r) in order_nb.iter().enumerate() {
                        match match_line(&prog.lines[*r], out_nb[pos]) {
                            None => { ok_text = false; }
                            Some(found) => {
                                let mut it = found.iter();
                                for s in &prog.lines[*r] {
                                    match s {
                                        Seg::Prim(old, _) => { let f = *it.next().unwrap(); out_prims.push(f); if f != *k.mapping.get(old).unwrap_or(old) { ok_prim = false; } }
                                        Seg::Ref(old, _) => {
                                            let f = *it.next().unwrap();
                                            let w = if rq.flags & 2 == 0 { *k.mapping.get(old).unwrap_or(old) } else { *old };
                                            if f != w { if k.mapping.contains_key(old) { ok_ref = false; } else { ok_ref_other = false; } }
                                        }
                                        _ => {}
                                    }
                                }
                            }
                        }
                    }
                }
                let ascending = out_prims.windows(2).all(|w| w[0] < w[1]);
                ctx.out.oracle(ok_lines, "same-lines", &format!("c16/{}/lines-changed", ln), &case);
                ctx.out.oracle(exact || !ok_lines || ok_text, "text-unchanged", &format!("c16/{}/text-changed", ln), &case);
                ctx.out.oracle(exact || ok_prim, "primary-sequence", &format!("c16/{}/primary-seq", ln), &case);
                ctx.out.oracle(exact || ok_ref, "refs-follow", &format!("c16/{}/ref-not-updated", ln), &case);
                ctx.out.oracle(exact || ok_ref_other, "refs-others", &format!("c16/{}/ref-wrongly-changed", ln), &case);
                ctx.out.oracle(exact || ascending, "ascending", &format!("c16/{}/accepted-dup-or-interleave", ln), &case);
                // everything else (separators, blank rows, where the block stands, final newline)
                let sig = if k.needs_move && olines.len() == wlines.len() && { let mut a = olines.clone(); let mut b = wlines.clone(); a.sort(); b.sort(); a == b } { "block-misplaced" } else { "text-changed" };
                ctx.out.oracle(exact, "exact-text", &format!("c16/{}/{}", ln, sig), &format!("{} want={:?}", case, if long { "<long>".to_string() } else { want.clone() }));
            }
        }
    }
    let nontrivial = matches!(real, Ok(Ok(_))) && !sel.is_empty() && nrefs > 0;
    let digit_change = kn.as_ref().map(|k| k.mapping.iter().any(|(a, b)| a.to_string().len() != b.to_string().len())).unwrap_or(false);
    if digit_change && nontrivial { ctx.out.count("digit-count-change"); }
    let mut canon = src.clone().into_bytes();
    canon.extend_from_slice(format!("|{}|{}|{}|{}|{}", rq.beg, rq.end, rq.first, rq.step, rq.flags).as_bytes());
    ctx.out.case(&canon, nontrivial);
    if nontrivial && digit_change && !long { ctx.out.sample(&case); }
}
