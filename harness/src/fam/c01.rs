//! harness family c01: the file-system engine (fam/fs.rs) with the oracles of property C01 switched on
use crate::util::*;

pub fn run(ctx: &mut Ctx) { super::fs::run(ctx, super::fs::Focus::C01) }
