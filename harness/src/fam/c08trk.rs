//! harness family c08trk (property C08, bit-level half lifted to whole images):
//! real `create`d NIB / WOZ1 / WOZ2 5.25 inch images (16 and 13 sectors) against `Model.TrackImg`.
//!
//! idx 0..5    `new`: TMAP, TRKS entries and the bits of every formatted track vs the model's formatter
//!             (digest of all 35 tracks + two tracks bit for bit); direct oracles: address fields of every
//!             track (volume, track, sector order, checksum), TMAP whole-track injectivity, TRKS ranges.
//! idx 100..   `seq`: random read/write sequences over whole images (random track order, optionally all
//!             tracks rotated first so that the head starts somewhere else), answers + digest of every
//!             track buffer after each write vs the model; reference-map oracle (read-after-write, frame in
//!             the track and across tracks on the raw bytes, invalid addresses refused and harmless).
//! Track buffers are cut out of `to_bytes()` at the fixed offsets the formatter established (the reference
//! map track -> storage), not through the image's own TMAP lookup.
use crate::util::*;
use a2kit::img::{names, DiskImage, NibbleError};
use std::collections::BTreeMap;

const SKEW13: [u8; 13] = [0, 10, 7, 4, 1, 11, 8, 5, 2, 12, 9, 6, 3];
const KINDS: [&str; 4] = ["nib", "woz1", "woz2", "nb2"];

fn make(kind: &str, six: bool, vol: u8) -> Box<dyn DiskImage> {
    let k = if six { names::A2_DOS33_KIND } else { names::A2_DOS32_KIND };
    match kind {
        "nib" => Box::new(a2kit::img::nib::Nib::create(vol, k)),
        "nb2" => {
            // NB2 = 35 tracks of 6384 bytes; only `from_bytes` makes one: cut a created NIB's tracks
            let nib = a2kit::img::nib::Nib::create(vol, k).to_bytes();
            let mut b: Vec<u8> = Vec::new();
            for t in 0..35 { b.extend_from_slice(&nib[t * 6656..t * 6656 + 6384]); }
            Box::new(a2kit::img::nib::Nib::from_bytes(&b).expect("nb2 from_bytes"))
        }
        "woz1" => Box::new(a2kit::img::woz1::Woz1::create(vol, k)),
        _ => Box::new(a2kit::img::woz2::Woz2::create(vol, k)),
    }
}

/// (offset of track 0's buffer in `to_bytes()`, stride, buffer length)
fn layout(kind: &str) -> (usize, usize, usize) {
    match kind {
        "nib" => (0, 6656, 6656),
        "nb2" => (0, 6384, 6384),
        "woz1" => (256, 6656, 6646),
        _ => (1536, 13 * 512, 13 * 512),
    }
}

fn bit_count(kind: &str, six: bool) -> usize {
    let (sync, secs, nibs) = match (kind, six) { ("nib" | "nb2", true) => (8, 16, 343), ("nib" | "nb2", false) => (8, 13, 411), (_, true) => (10, 16, 343), (_, false) => (9, 13, 411) };
    if kind == "nib" { 6656 * 8 } else if kind == "nb2" { 6384 * 8 } else { 40 * sync + secs * (14 * 8 + 10 * sync + (6 + nibs) * 8 + 20 * sync) }
}

fn raw_tracks(img: &mut Box<dyn DiskImage>, kind: &str) -> Vec<Vec<u8>> {
    let bytes = img.to_bytes();
    let (o, stride, len) = layout(kind);
    (0..35).map(|t| bytes[o + t * stride..o + t * stride + len].to_vec()).collect()
}

fn combine(ds: &[u64]) -> u64 {
    let mut v: Vec<u8> = Vec::new();
    for d in ds { v.extend_from_slice(&d.to_le_bytes()); }
    fnv(&v)
}

fn rotate_bits(buf: &mut Vec<u8>, n: usize, k: usize) {
    let get = |b: &Vec<u8>, p: usize| (b[p / 8] >> (7 - p % 8)) & 1;
    let orig = buf.clone();
    for j in 0..n {
        let v = get(&orig, (j + k) % n);
        let m = 1u8 << (7 - j % 8);
        if v == 1 { buf[j / 8] |= m } else { buf[j / 8] &= !m }
    }
}

fn err_str(e: &Box<dyn std::error::Error>) -> String {
    match e.downcast_ref::<NibbleError>() {
        Some(NibbleError::BadTrack) => "nib:bad-track".into(),
        Some(NibbleError::SectorNotFound) => "nib:sector-not-found".into(),
        Some(NibbleError::InvalidByte) => "nib:invalid-byte".into(),
        Some(NibbleError::BadChecksum) => "nib:bad-checksum".into(),
        Some(_) => "nib:other".into(),
        None => "err".into(),
    }
}

/// nibbles of one revolution by a plain 8-bit latch over the first `n` bits, started at bit `start`
fn latch(buf: &[u8], n: usize, start: usize) -> Vec<u8> {
    let get = |p: usize| (buf[(p % n) / 8] >> (7 - (p % n) % 8)) & 1;
    let mut out = Vec::new();
    let mut p = start;
    while p < start + n {
        if get(p) == 0 { p += 1; continue; }
        let mut v = 0u8;
        for j in 0..8 { v = (v << 1) | get(p + j); }
        out.push(v);
        p += 8;
    }
    out
}

fn dec44(a: u8, b: u8) -> u8 { ((a << 1) | 1) & b }

fn new_case(ctx: &mut Ctx, idx: usize, rng: &mut Rng) {
    let kind = KINDS[idx % 4];
    let six = idx / 4 == 0;
    let vol = rng.byte();
    let desc = format!("idx={} new {} {} vol={}", idx, kind, if six { "16" } else { "13" }, vol);
    let sig = |s: &str| format!("c08/{}/{}", kind, s);
    let res = guarded(|| {
        let mut img = make(kind, six, vol);
        let bytes = img.to_bytes();
        let tracks = raw_tracks(&mut img, kind);
        let (tmap, ents, off): (Vec<u8>, Vec<(usize, usize, usize)>, usize) = match kind {
            "nib" | "nb2" => (vec![], vec![], 0),
            "woz1" => (bytes[88..248].to_vec(), (0..35).map(|t| { let e = 256 + t * 6656 + 6646; (0, 0, u16::from_le_bytes([bytes[e + 2], bytes[e + 3]]) as usize) }).collect(), 0),
            _ => (bytes[88..248].to_vec(), (0..160).map(|t| { let e = 256 + t * 8; (u16::from_le_bytes([bytes[e], bytes[e + 1]]) as usize, u16::from_le_bytes([bytes[e + 2], bytes[e + 3]]) as usize, u32::from_le_bytes([bytes[e + 4], bytes[e + 5], bytes[e + 6], bytes[e + 7]]) as usize) }).collect(), 1536),
        };
        let total: usize = match kind { "nib" | "nb2" => bytes.len(), "woz1" => 35 * 6646, _ => bytes.len() - 1536 };
        let ent_s = if ents.is_empty() { "-".to_string() } else { ents.iter().map(|e| format!("{}.{}.{}", e.0, e.1, e.2)).collect::<Vec<_>>().join(",") };
        let ans = format!("tmap:{};ents:{};off:{};len:{};trk:{}", hx(&tmap), ent_s, off, total,
            tracks.iter().map(|t| fnv(t).to_string()).collect::<Vec<_>>().join(","));
        // direct oracles (no model)
        let mut fails: Vec<(String, String)> = Vec::new();
        let n = bit_count(kind, six);
        let nsec = if six { 16 } else { 13 };
        for (t, buf) in tracks.iter().enumerate() {
            let nibs = latch(buf, n, 0);
            let p3 = if six { 0x96 } else { 0xb5 };
            let mut secs: Vec<u8> = Vec::new();
            let mut ok = true;
            let mut i = 0;
            while i + 14 <= nibs.len() {
                if nibs[i] == 0xd5 && nibs[i + 1] == 0xaa && nibs[i + 2] == p3 {
                    let v = dec44(nibs[i + 3], nibs[i + 4]);
                    let tr = dec44(nibs[i + 5], nibs[i + 6]);
                    let sc = dec44(nibs[i + 7], nibs[i + 8]);
                    let ck = dec44(nibs[i + 9], nibs[i + 10]);
                    if v != vol || tr as usize != t || ck != v ^ tr ^ sc || nibs[i + 11] != 0xde || nibs[i + 12] != 0xaa { ok = false; }
                    secs.push(sc);
                    i += 14;
                } else { i += 1; }
            }
            let want: Vec<u8> = if six { (0..16).collect() } else { SKEW13.to_vec() };
            if !ok || secs != want { fails.push(("format-address-fields".into(), sig("format-address-field"))); }
            // a fresh track reads as zeros everywhere
            for s in 0..nsec {
                match img.read_sector(t, 0, s) {
                    Ok(v) => if v != vec![0u8; 256] { fails.push(("format-fresh-read".into(), sig("fresh-sector-not-zero"))); },
                    Err(_) => fails.push(("format-fresh-read".into(), sig("fresh-sector-refused"))),
                }
            }
        }
        if kind != "nib" && kind != "nb2" {
            // whole tracks map to pairwise different entries, each with bits
            let idxs: Vec<u8> = (0..35).map(|t| tmap[4 * t]).collect();
            let mut s = idxs.clone(); s.sort(); s.dedup();
            if s.len() != 35 || idxs.iter().any(|&i| i == 0xff || (i as usize) >= ents.len() || ents[i as usize].2 == 0) { fails.push(("tmap-injective".into(), sig("tmap-not-injective"))); }
            if kind == "woz2" {
                let mut rs: Vec<(usize, usize)> = idxs.iter().filter(|&&i| (i as usize) < ents.len()).map(|&i| (ents[i as usize].0, ents[i as usize].0 + ents[i as usize].1)).collect();
                rs.sort();
                if rs.windows(2).any(|w| w[0].1 > w[1].0) || rs.iter().any(|r| r.0 < 3 || (r.1 - 3) * 512 > total) { fails.push(("trks-disjoint".into(), sig("trks-overlap"))); }
            }
        }
        let t1 = rng.below(35);
        let t2 = (t1 + 1 + rng.below(34)) % 35;
        let fm: Vec<(String, String)> = [t1, t2].iter().map(|&t| (format!("c08trk fmt {} {} {} {}", kind, six as u8, vol, t), hx(&tracks[t]))).collect();
        (format!("c08trk new {} {} {}", kind, six as u8, vol), ans, fm, fails)
    });
    match res {
        Ok((req, ans, fm, mut fails)) => {
            ctx.out.q(&req, &ans);
            for (r, a) in &fm { ctx.out.q(r, a); }
            fails.sort(); fails.dedup();
            if fails.is_empty() { ctx.out.oracle(true, "format", "-", &desc); }
            for (o, s) in &fails { ctx.out.oracle(false, o, s, &desc); }
            ctx.out.sample(&desc);
            ctx.out.count(&format!("new:{}/{}", kind, if six { 16 } else { 13 }));
            ctx.out.case(desc.as_bytes(), true);
        }
        Err(p) => { ctx.out.oracle(false, "no-panic", &format!("panic:{}", panic_site(&p)), &desc); ctx.out.case(desc.as_bytes(), false); }
    }
}

fn seq_case(ctx: &mut Ctx, idx: usize, rng: &mut Rng) {
    let kind = KINDS[idx % 4];
    let six = rng.chance(60);
    let vol = rng.byte();
    let nsec = if six { 16 } else { 13 };
    let n = bit_count(kind, six);
    let mut desc = format!("idx={} seq {} {} vol={} ops=", idx, kind, nsec, vol);
    let sig = |s: &str| format!("c08/{}/{}", kind, s);
    let nops = 5 + rng.below(if ctx.tier_thorough { 14 } else { 8 });
    let res = guarded(|| {
        let mut fails: Vec<(String, String)> = Vec::new();
        let mut img = make(kind, six, vol);
        let mut ops: Vec<String> = Vec::new();
        let mut ans: Vec<String> = Vec::new();
        let mut expect: BTreeMap<(usize, usize), Vec<u8>> = BTreeMap::new();
        let mut writes = 0;
        let mut cross_reads = 0;
        // all tracks rotated by the same amount: the carried head position stays meaningful, the first
        // operation starts somewhere else on the track (NIB cannot re-synchronise: whole bytes only)
        let mut aligned = true;
        if rng.chance(50) {
            let k = if kind == "nib" || kind == "nb2" { 8 * rng.below(n / 8) } else if rng.chance(50) { let s = if six { 10 } else { 9 }; n - s * rng.below(21) } else { aligned = false; rng.below(n) };
            for t in 0..35 {
                let mut b = img.get_track_buf(t, 0).expect("track buf");
                rotate_bits(&mut b, n, k % n);
                // a buffer of the track's own size must be accepted
                if img.set_track_buf(t, 0, &b).is_err() { fails.push(("track-buf".into(), sig("set-track-buf-refused"))); }
            }
            ops.push(format!("rot:{}", k));
            desc += &format!("ROT{} ", k);
            ans.push(format!("@{}", combine(&raw_tracks(&mut img, kind).iter().map(|t| fnv(t)).collect::<Vec<_>>())));
        }
        let mut hot: Vec<usize> = (0..3).map(|_| rng.below(35)).collect();
        let mut last_w: Option<(usize, usize)> = None;
        for _ in 0..nops {
            let invalid = rng.chance(12);
            let (c, h, s) = if invalid {
                match rng.below(4) { 0 => (35 + rng.below(300), 0, rng.below(nsec)), 1 => (rng.below(35), 1 + rng.below(3), rng.below(nsec)),
                    2 => (rng.below(35), 0, nsec + rng.below(256 - nsec)), _ => (rng.below(35), 0, 256 + rng.below(1000)) }
            } else {
                let c = if rng.chance(70) { hot[rng.below(hot.len())] } else { let c = rng.below(35); hot.push(c); c };
                (c, 0, rng.below(nsec))
            };
            let before = raw_tracks(&mut img, kind);
            if rng.chance(45) {
                let len = *rng.pick(&[0usize, 1, 17, 255, 256, 256, 256, 257, 300]);
                let dat = if rng.chance(15) { vec![rng.byte(); len] } else { rng.bytes(len) };
                ops.push(format!("w:{}:{}:{}:{}", c, h, s, hx(&dat)));
                desc += &format!("W{}/{}/{}#{} ", c, h, s, len);
                let r = img.write_sector(c, h, s, &dat);
                let after = raw_tracks(&mut img, kind);
                match r {
                    Ok(()) => {
                        if invalid { fails.push(("invalid-refused".into(), sig("invalid-accepted"))); }
                        else { let mut d = dat.clone(); d.resize(256, 0); d.truncate(256); expect.insert((c, s), d); writes += 1; last_w = Some((c, s)); }
                        for t in 0..35 { if t != c && before[t] != after[t] { fails.push(("frame-across-tracks".into(), sig("frame-across-tracks"))); } }
                        if !invalid && before[c][(n + 7) / 8..] != after[c][(n + 7) / 8..] { fails.push(("frame-in-track".into(), sig("write-outside-bit-count"))); }
                    }
                    Err(e) => {
                        if !invalid && aligned { fails.push(("valid-accepted".into(), sig(&format!("valid-write-refused/{}", err_str(&e))))); }
                        if before != after { fails.push(("refused-harmless".into(), sig("refused-changed-image"))); }
                        ans.push(format!("{}@{}", err_str(&e), combine(&after.iter().map(|t| fnv(t)).collect::<Vec<_>>())));
                        continue;
                    }
                }
                ans.push(format!("ok@{}", combine(&after.iter().map(|t| fnv(t)).collect::<Vec<_>>())));
            } else {
                ops.push(format!("r:{}:{}:{}", c, h, s));
                desc += &format!("R{}/{}/{} ", c, h, s);
                let r = img.read_sector(c, h, s);
                let after = raw_tracks(&mut img, kind);
                if before != after { fails.push(("read-harmless".into(), sig("read-changed-image"))); }
                match r {
                    Ok(v) => {
                        if invalid { fails.push(("invalid-refused".into(), sig("invalid-accepted"))); }
                        else {
                            let want = expect.get(&(c, s)).cloned().unwrap_or(vec![0u8; 256]);
                            if v != want { fails.push((if expect.contains_key(&(c, s)) { "read-after-write" } else { "frame-in-track" }.into(), sig(if expect.contains_key(&(c, s)) { "read-after-write" } else { "unwritten-sector-changed" }))); }
                            if let Some(w) = last_w { if w != (c, s) { cross_reads += 1; } }
                        }
                        ans.push(format!("ok:{}", hx(&v)));
                    }
                    Err(e) => {
                        if !invalid && aligned { fails.push(("valid-accepted".into(), sig(&format!("valid-read-refused/{}", err_str(&e))))); }
                        ans.push(err_str(&e));
                    }
                }
            }
        }
        // final sweep (oracle only): every sector of the tracks in play and of three bystander tracks
        let mut sweep: Vec<usize> = expect.keys().map(|k| k.0).collect();
        for _ in 0..3 { sweep.push(rng.below(35)); }
        sweep.sort(); sweep.dedup();
        for &t in &sweep {
            for s in 0..nsec {
                let want = expect.get(&(t, s)).cloned().unwrap_or(vec![0u8; 256]);
                match img.read_sector(t, 0, s) {
                    Ok(v) => if v != want { fails.push(("final-sweep".into(), sig(if expect.contains_key(&(t, s)) { "read-after-write" } else { "frame-in-track" }))); },
                    Err(e) => if aligned { fails.push(("final-sweep".into(), sig(&format!("valid-read-refused/{}", err_str(&e))))); },
                }
            }
        }
        (format!("c08trk seq {} {} {} {}", kind, six as u8, vol, ops.join(";")), ans.join(";"), fails, desc.clone(), writes > 0 && cross_reads > 0, aligned)
    });
    match res {
        Ok((req, ans, mut fails, d, nontrivial, aligned)) => {
            ctx.out.q(&req, &ans);
            fails.sort(); fails.dedup();
            if fails.is_empty() { ctx.out.oracle(true, "image-seq", "-", &d); }
            for (o, s) in &fails { ctx.out.oracle(false, o, s, &d); }
            ctx.out.sample(&d);
            ctx.out.count(&format!("seq:{}/{}{}", kind, nsec, if aligned { "" } else { "/unaligned-start" }));
            ctx.out.case(d.as_bytes(), nontrivial);
        }
        Err(p) => { ctx.out.oracle(false, "no-panic", &format!("panic:{}", panic_site(&p)), &desc); ctx.out.case(desc.as_bytes(), false); }
    }
}

/// Seam sweep (idx 50..57): the track is rotated so that the DATA nibbles of one sector straddle the end of
/// the track buffer, the nibbles starting `1606 + j` bits before the end, for every bit alignment j = 0..7
/// (13-sector WOZ tracks have 48694 bits: not a multiple of 8, so the last byte of the track is partial).
/// For each alignment: write the straddling sector, read it back, read another sector of the track and the
/// same sector of another track; finally every sector of the track.  Real vs model + reference oracle.
fn sweep_case(ctx: &mut Ctx, idx: usize, rng: &mut Rng) {
    let k = idx - 50;
    let kind = ["woz1", "woz2"][k % 2];
    let six = (k / 2) % 2 == 0;
    let slot = if k / 4 == 0 { 0 } else if six { 9 } else { 7 };
    let vol = rng.byte();
    let nsec = if six { 16 } else { 13 };
    let n = bit_count(kind, six);
    let (sync, nibs) = if six { (10, 343) } else { (9, 411) };
    let sec_bits = 14 * 8 + 10 * sync + (6 + nibs) * 8 + 20 * sync;
    let field = 40 * sync + slot * sec_bits + 14 * 8 + 10 * sync + 24; // first data nibble of the slot's sector
    let sid = if six { slot } else { SKEW13[slot] as usize };
    let t = rng.below(35);
    let t2 = (t + 1 + rng.below(34)) % 35;
    let other = (sid + 1 + rng.below(nsec - 1)) % nsec;
    let desc = format!("idx={} sweep {} {} vol={} track={} sector={} (slot {}) other={} track2={}", idx, kind, nsec, vol, t, sid, slot, other, t2);
    let sig = |s: &str| format!("c08/{}/{}", kind, s);
    let res = guarded(|| {
        let mut fails: Vec<(String, String)> = Vec::new();
        let mut img = make(kind, six, vol);
        let mut ops: Vec<String> = Vec::new();
        let mut ans: Vec<String> = Vec::new();
        let mut expect: BTreeMap<(usize, usize), Vec<u8>> = BTreeMap::new();
        let digest = |img: &mut Box<dyn DiskImage>| combine(&raw_tracks(img, kind).iter().map(|t| fnv(t)).collect::<Vec<_>>());
        for j in 0..8 {
            let rot = if j == 0 { (field + 1606) % n } else { 1 };
            for c in [t, t2] {
                let mut b = img.get_track_buf(c, 0).expect("track buf");
                rotate_bits(&mut b, n, rot);
                if img.set_track_buf(c, 0, &b).is_err() { fails.push(("track-buf".into(), sig("set-track-buf-refused"))); }
            }
            ops.push(format!("rott:{}:{}:{}", rot, t, t2));
            ans.push(format!("@{}", digest(&mut img)));
            let dat = rng.bytes(256);
            ops.push(format!("w:{}:0:{}:{}", t, sid, hx(&dat)));
            let before = raw_tracks(&mut img, kind);
            match img.write_sector(t, 0, sid, &dat) {
                Ok(()) => { expect.insert((t, sid), dat.clone()); ans.push(format!("ok@{}", digest(&mut img))); }
                Err(e) => { fails.push(("valid-accepted".into(), sig(&format!("valid-write-refused/{}", err_str(&e))))); ans.push(format!("{}@{}", err_str(&e), digest(&mut img))); }
            }
            let after = raw_tracks(&mut img, kind);
            for c in 0..35 { if c != t && before[c] != after[c] { fails.push(("frame-across-tracks".into(), sig("frame-across-tracks"))); } }
            if before[t][(n + 7) / 8..] != after[t][(n + 7) / 8..] { fails.push(("frame-in-track".into(), sig("write-outside-bit-count"))); }
            if n % 8 != 0 { let m = 0xffu8 >> (n % 8); if (before[t][n / 8] ^ after[t][n / 8]) & m != 0 { fails.push(("frame-in-track".into(), sig("write-outside-bit-count"))); } }
            for (c, s) in [(t, sid), (t, other), (t2, sid)] {
                ops.push(format!("r:{}:0:{}", c, s));
                let want = expect.get(&(c, s)).cloned().unwrap_or(vec![0u8; 256]);
                match img.read_sector(c, 0, s) {
                    Ok(v) => { if v != want { fails.push((if (c, s) == (t, sid) { "read-after-write" } else { "frame-in-track" }.into(), sig(if (c, s) == (t, sid) { "read-after-write" } else { "unwritten-sector-changed" }))); } ans.push(format!("ok:{}", hx(&v))); }
                    Err(e) => { fails.push((if (c, s) == (t, sid) { "read-after-write" } else { "valid-accepted" }.into(), sig(&format!("valid-read-refused/{}", err_str(&e))))); ans.push(err_str(&e)); }
                }
            }
        }
        for s in 0..nsec {
            let want = expect.get(&(t, s)).cloned().unwrap_or(vec![0u8; 256]);
            match img.read_sector(t, 0, s) {
                Ok(v) => if v != want { fails.push(("final-sweep".into(), sig(if s == sid { "read-after-write" } else { "frame-in-track" }))); },
                Err(e) => fails.push(("final-sweep".into(), sig(&format!("valid-read-refused/{}", err_str(&e))))),
            }
        }
        (format!("c08trk seq {} {} {} {}", kind, six as u8, vol, ops.join(";")), ans.join(";"), fails)
    });
    match res {
        Ok((req, ans, mut fails)) => {
            ctx.out.q(&req, &ans);
            fails.sort(); fails.dedup();
            if fails.is_empty() { ctx.out.oracle(true, "seam-sweep", "-", &desc); }
            for (o, s) in &fails { ctx.out.oracle(false, o, s, &desc); }
            ctx.out.sample(&desc);
            ctx.out.count(&format!("sweep:{}/{}", kind, nsec));
            ctx.out.case(desc.as_bytes(), true);
        }
        Err(p) => { ctx.out.oracle(false, "no-panic", &format!("panic:{}", panic_site(&p)), &desc); ctx.out.case(desc.as_bytes(), false); }
    }
}

pub fn run(ctx: &mut Ctx) {
    let mut rng = Rng::new(ctx.seed ^ 0xC08_7124);
    for idx in 0..8 {
        let mut r = rng.fork(idx as u64);
        if ctx.out.wants(idx) { new_case(ctx, idx, &mut r); }
    }
    // seam sweep: WOZ1/WOZ2 x 16/13 sectors x two sector slots, all 8 bit alignments each
    for k in 0..8 {
        let idx = 50 + k;
        let mut r = rng.fork(idx as u64);
        if ctx.out.wants(idx) { sweep_case(ctx, idx, &mut r); }
    }
    let nseq = ctx.n(20, 300);
    for k in 0..nseq {
        let idx = 100 + k;
        let mut r = rng.fork(idx as u64);
        if ctx.out.wants(idx) { seq_case(ctx, idx, &mut r); }
    }
}
