//! harness family c08trk — stub until the family is built
use crate::util::*;

pub fn run(ctx: &mut Ctx) { ctx.out.case(b"c08trk-stub", false); }
