//! harness family c12fs — stub until the family is built
use crate::util::*;

pub fn run(ctx: &mut Ctx) { ctx.out.case(b"c12fs-stub", false); }
