//! harness family c12fs: the file-system READ PATHS of C12 on adversarial images, tied to the concrete
//! panic-explicit models (`lean/A2Verif/Model/Fs/*.lean` + `Model/C12FsId.lean`).
//!
//! Per file system: a small valid volume is built by the real code, then exactly the pointer / count /
//! length fields that the read paths use are corrupted (1-3 fields per case, boundary values).  For every
//! image: identify (`test_img`) + mount (`from_img`) of that file system, `stat`, `catalog_to_vec`, `tree`,
//! `glob`, `get` of every listed name and of the seed's own names, each under `catch_unwind`, the whole case in
//! a watched thread inside a child process (as family c12).  The outcome class of every call
//! (ok / err / panic) is compared with the Lean model's (`Q` lines, family word `c12fs`); the direct oracle
//! `no-crash` requires that no call of a *mounted* image (test_img = true, i.e. what the CLI can reach) panics
//! or hangs, sig `panic:<file>:<msg>` / `hang:<front>` / `abort:<front>`.
use crate::util::*;
use a2kit::fs::DiskFS;
use a2kit::img::DiskImage;
use a2kit::commands::ItemType;
use std::sync::mpsc;
use std::time::Duration;

const ORACLE: &str = "no-crash";

// ------------------------------------------------------------------------------------------------
// guarded + watched calls (same discipline as family c12)
// ------------------------------------------------------------------------------------------------

#[derive(Clone, Debug, PartialEq)]
enum Outc { Done(String), Hang }

fn panic_sig(p: &str) -> String {
    let (loc, msg) = match p.find(" [") { Some(i) => (&p[..i], &p[i + 2..]), None => (p, "") };
    let file = loc.rsplitn(2, ':').last().unwrap_or(loc);
    let file = match file.find("src/") { Some(i) => &file[i..], None => file };
    let mut m = String::new();
    let mut last_digit = false;
    for c in msg.trim_end_matches(']').chars() {
        if c.is_ascii_digit() { if !last_digit { m.push('N'); } last_digit = true; }
        else if c.is_ascii_alphanumeric() { m.push(c.to_ascii_lowercase()); last_digit = false; }
        else { if !m.ends_with('-') { m.push('-'); } last_digit = false; }
    }
    let m: String = m.trim_matches('-').chars().take(48).collect();
    format!("panic:{}:{}", file, m)
}

fn watched<F>(ms: u64, f: F) -> Outc
where F: FnOnce() -> String + Send + 'static {
    let (tx, rx) = mpsc::channel();
    let h = std::thread::Builder::new().stack_size(16 << 20).spawn(move || { let r = f(); let _ = tx.send(r); });
    let h = match h { Ok(h) => h, Err(_) => return Outc::Hang };
    match rx.recv_timeout(Duration::from_millis(ms)) {
        Ok(s) => { let _ = h.join(); Outc::Done(s) }
        Err(_) => Outc::Hang,
    }
}

/// one guarded call: class + panic site
struct Call { op: String, class: &'static str, site: String }

fn call<T, E>(op: &str, calls: &mut Vec<Call>, f: impl FnOnce() -> Result<T, E>) -> Option<T> {
    match guarded(f) {
        Ok(Ok(v)) => { calls.push(Call { op: op.to_string(), class: "ok", site: String::new() }); Some(v) }
        Ok(Err(_)) => { calls.push(Call { op: op.to_string(), class: "err", site: String::new() }); None }
        Err(p) => { calls.push(Call { op: op.to_string(), class: "panic", site: p }); None }
    }
}

// ------------------------------------------------------------------------------------------------
// cases
// ------------------------------------------------------------------------------------------------

#[derive(Clone)]
struct Case {
    fs: &'static str,
    /// flat image bytes (PO / DO / IMG order = the model's unit order)
    bytes: Vec<u8>,
    unit: usize,
    desc: String,
    /// names whose `get` is tried whatever the listing says
    names: Vec<String>,
    /// extra tokens of the model request (geometry etc.), without the units
    extra: String,
    trivial: bool,
}

/// a field of the on-disk structures: byte offset in the flat image, width, name, boundary values
#[derive(Clone)]
struct Field { off: usize, width: usize, name: String, vals: Vec<u64> }

fn poke(b: &mut [u8], off: usize, width: usize, v: u64) {
    for k in 0..width { if off + k < b.len() { b[off + k] = ((v >> (8 * k)) & 0xff) as u8; } }
}
fn peek(b: &[u8], off: usize, width: usize) -> u64 {
    let mut v = 0u64; for k in 0..width { if off + k < b.len() { v |= (b[off + k] as u64) << (8 * k); } } v
}

fn dedup(mut v: Vec<u64>, width: usize) -> Vec<u64> {
    let m = if width >= 8 { u64::MAX } else { (1u64 << (8 * width)) - 1 };
    for x in v.iter_mut() { *x &= m; }
    v.sort(); v.dedup(); v
}

/// units of the flat image that are not all zero, as `i:HEX,i:HEX` (`-` if none)
fn sparse_units(bytes: &[u8], unit: usize) -> String {
    let mut parts: Vec<String> = Vec::new();
    for (i, ch) in bytes.chunks(unit).enumerate() {
        if ch.iter().any(|x| *x != 0) { parts.push(format!("{}:{}", i, hex::encode_upper(ch))); }
    }
    if parts.is_empty() { "-".to_string() } else { parts.join(",") }
}

/// from all fields: every single (field, value); then `n_multi` random 2-3 field combinations
fn cases_from_fields(fs: &'static str, seed: &[u8], unit: usize, names: &[String], extra: &str, fields: &[Field],
                     rng: &mut Rng, n_single: usize, n_multi: usize) -> Vec<Case> {
    let mut out = Vec::new();
    let mut singles: Vec<(usize, u64)> = Vec::new();
    for (i, f) in fields.iter().enumerate() { for v in &f.vals { if *v != peek(seed, f.off, f.width) { singles.push((i, *v)); } } }
    // deterministic sample of the singles
    if singles.len() > n_single {
        for i in 0..n_single { let j = i + rng.below(singles.len() - i); singles.swap(i, j); }
        singles.truncate(n_single);
        singles.sort();
    }
    for (i, v) in singles {
        let f = &fields[i];
        let mut b = seed.to_vec(); poke(&mut b, f.off, f.width, v);
        out.push(Case { fs, bytes: b, unit, desc: format!("{}:={}", f.name, v), names: names.to_vec(), extra: extra.to_string(), trivial: false });
    }
    for _ in 0..n_multi {
        let k = 2 + rng.below(2);
        let mut b = seed.to_vec(); let mut d: Vec<String> = Vec::new();
        for _ in 0..k {
            let f = rng.pick(fields).clone();
            if f.vals.is_empty() { continue; }
            let v = *rng.pick(&f.vals);
            poke(&mut b, f.off, f.width, v); d.push(format!("{}:={}", f.name, v));
        }
        let trivial = b == seed;
        out.push(Case { fs, bytes: b, unit, desc: d.join(" "), names: names.to_vec(), extra: extra.to_string(), trivial });
    }
    out
}

// ------------------------------------------------------------------------------------------------
// Pascal
// ------------------------------------------------------------------------------------------------

fn pascal_seed() -> Option<(Vec<u8>, Vec<String>)> {
    let img = a2kit::img::dsk_po::PO::create(280);
    let mut d = a2kit::fs::pascal::Disk::from_img(Box::new(img)).ok()?;
    d.format("TEST", 0, None).ok()?;
    let mut disk: Box<dyn DiskFS> = Box::new(d);
    let mut names = Vec::new();
    if disk.write_text("HELLO.TEXT", "HELLO WORLD\nSECOND LINE\n").is_ok() { names.push("HELLO.TEXT".to_string()); }
    let data: Vec<u8> = (0..700u32).map(|i| (i * 7 % 251) as u8).collect();
    if disk.bsave("BIN1.CODE", &data, Some(0x300), None).is_ok() { names.push("BIN1.CODE".to_string()); }
    let big: Vec<u8> = (0..3000u32).map(|i| (i % 253) as u8).collect();
    if disk.bsave("BIG.DATA", &big, Some(0x2000), None).is_ok() { names.push("BIG.DATA".to_string()); }
    if disk.bsave("LAST.DATA", &[1, 2, 3], Some(0x2000), None).is_ok() { names.push("LAST.DATA".to_string()); }
    if names.len() < 3 { return None; }
    names.push("NOSUCH".to_string());
    Some((disk.get_img().to_bytes(), names))
}

fn pascal_cases(rng: &mut Rng, n_single: usize, n_multi: usize) -> Vec<Case> {
    let Some((seed, names)) = pascal_seed() else { return vec![] };
    let dir = 2 * 512;
    let nfiles = peek(&seed, dir + 16, 2) as usize;
    let hdr_end = peek(&seed, dir + 2, 2);
    let total = peek(&seed, dir + 14, 2);
    let blk16 = |extra: &[u64]| -> Vec<u64> {
        let mut v = vec![0, 1, 2, 3, 5, 6, 7, 19, 20, 21, hdr_end.wrapping_sub(1), hdr_end, hdr_end + 1, total - 1, total, total + 1, 0x7fff, 0x8000, 0xfffe, 0xffff];
        v.extend_from_slice(extra); dedup(v, 2)
    };
    let mut fields: Vec<Field> = Vec::new();
    fields.push(Field { off: dir, width: 2, name: "hdr.begin".into(), vals: blk16(&[]) });
    fields.push(Field { off: dir + 2, width: 2, name: "hdr.end".into(), vals: blk16(&[4, 8, 279, 281, 300]) });
    fields.push(Field { off: dir + 4, width: 2, name: "hdr.type".into(), vals: dedup(vec![0, 1, 0xff, 0x100, 0xffff], 2) });
    fields.push(Field { off: dir + 6, width: 1, name: "hdr.name_len".into(), vals: vec![0, 1, 4, 7, 8, 15, 16, 0x80, 0xff] });
    for k in 0..7 { fields.push(Field { off: dir + 7 + k, width: 1, name: format!("hdr.name[{}]", k), vals: vec![0, 0x1f, 0x20, 0x7e, 0x7f, 0x80, 0xc3, 0xff] }); }
    fields.push(Field { off: dir + 14, width: 2, name: "hdr.total".into(), vals: blk16(&[279, 281, 300]) });
    fields.push(Field { off: dir + 16, width: 2, name: "hdr.num_files".into(), vals: dedup(vec![0, 1, nfiles as u64 - 1, nfiles as u64, nfiles as u64 + 1, 76, 77, 78, 79, 0xff, 0x100, 0xffff], 2) });
    fields.push(Field { off: dir + 18, width: 2, name: "hdr.access".into(), vals: vec![0, 0xffff] });
    fields.push(Field { off: dir + 20, width: 2, name: "hdr.date".into(), vals: vec![0, 1, 0x0010, 0xffff, 0x01ed] });
    // entries: the live ones, the first free slot, the slot that straddles blocks 2/3, the last slot
    let mut slots: Vec<usize> = (0..nfiles + 1).collect();
    slots.extend_from_slice(&[18, 76]);
    for s in slots {
        let e = dir + 26 * (s + 1);
        let beg = peek(&seed, e, 2); let end = peek(&seed, e + 2, 2);
        fields.push(Field { off: e, width: 2, name: format!("e{}.begin", s), vals: blk16(&[beg.wrapping_sub(1), beg + 1, end, end + 1]) });
        fields.push(Field { off: e + 2, width: 2, name: format!("e{}.end", s), vals: blk16(&[beg, beg + 1, beg.wrapping_sub(1), end + 1, end.wrapping_sub(1)]) });
        fields.push(Field { off: e + 4, width: 2, name: format!("e{}.type", s), vals: dedup(vec![0, 1, 2, 3, 5, 8, 9, 0xff, 0x100, 0xffff], 2) });
        fields.push(Field { off: e + 6, width: 1, name: format!("e{}.name_len", s), vals: vec![0, 1, 5, 14, 15, 16, 0x7f, 0x80, 0xff] });
        for k in [0usize, 1, 9, 14] { fields.push(Field { off: e + 7 + k, width: 1, name: format!("e{}.name[{}]", s, k), vals: vec![0, 0x1f, 0x20, 0x2e, 0x7e, 0x7f, 0x80, 0xc3, 0xff] }); }
        fields.push(Field { off: e + 22, width: 2, name: format!("e{}.bytes_remaining", s), vals: dedup(vec![0, 1, 511, 512, 513, 1023, 1024, 0x7fff, 0xffff], 2) });
        fields.push(Field { off: e + 24, width: 2, name: format!("e{}.date", s), vals: vec![0, 1, 0x0010, 0x01ed, 0xffff] });
    }
    // probe: does the real code have repair `c12fs-pascal-name-conversion`? (witness: stale slot with name_len 16)
    let fixed = {
        let mut b = seed.clone();
        let e = dir + 26 * (nfiles + 1);
        poke(&mut b, e, 2, 200); poke(&mut b, e + 2, 2, 201); b[e + 6] = 16;
        let r = guarded(|| { let img = a2kit::img::dsk_po::PO::from_bytes(&b).ok()?; let mut d = a2kit::fs::pascal::Disk::from_img(Box::new(img)).ok()?; d.catalog_to_vec("/").ok() });
        if r.is_ok() { "1" } else { "0" }
    };
    let mut out = vec![Case { fs: "pas", bytes: seed.clone(), unit: 512, desc: "seed".into(), names: names.clone(), extra: fixed.into(), trivial: true }];
    // hand-made: a live-looking entry behind num_files (stale slot) with a name the listing cannot convert
    for (what, len, ch) in [("stale-slot-name_len-16", 16u8, b'A'), ("stale-slot-name-byte-ff", 5u8, 0xffu8), ("stale-slot-valid", 5u8, b'A')] {
        let mut b = seed.clone();
        let e = dir + 26 * (nfiles + 1);
        poke(&mut b, e, 2, 200); poke(&mut b, e + 2, 2, 201); poke(&mut b, e + 4, 2, 5); b[e + 6] = len;
        for k in 0..15 { b[e + 7 + k] = ch; }
        poke(&mut b, e + 22, 2, 512);
        out.push(Case { fs: "pas", bytes: b, unit: 512, desc: what.into(), names: names.clone(), extra: fixed.into(), trivial: false });
    }
    out.extend(cases_from_fields("pas", &seed, 512, &names, fixed, &fields, rng, n_single, n_multi));
    // second seed: the first unused slot still describes a file (what a delete of the last file leaves behind when
    // only num_files is decremented); the listing walks it, test_img does not
    let mut seed2 = seed.clone();
    {
        let e = dir + 26 * (nfiles + 1);
        poke(&mut seed2, e, 2, 200); poke(&mut seed2, e + 2, 2, 203); poke(&mut seed2, e + 4, 2, 5); seed2[e + 6] = 9;
        for (k, c) in b"STALE.ONE".iter().enumerate() { seed2[e + 7 + k] = *c; }
        poke(&mut seed2, e + 22, 2, 100);
    }
    let tag = format!("e{}.", nfiles);
    let f2: Vec<Field> = fields.iter().filter(|f| f.name.starts_with(&tag) || f.name == "hdr.num_files" || f.name == "hdr.total").cloned().collect();
    let mut names2 = names.clone(); names2.push("STALE.ONE".to_string());
    out.push(Case { fs: "pas", bytes: seed2.clone(), unit: 512, desc: "stale-seed".into(), names: names2.clone(), extra: fixed.into(), trivial: false });
    for mut c in cases_from_fields("pas", &seed2, 512, &names2, fixed, &f2, rng, n_single / 4, n_multi / 4) { c.desc = format!("stale-seed {}", c.desc); out.push(c); }
    out
}

/// identify + mount + read-only queries of the Pascal module; one token per call
fn pascal_exercise(bytes: &Vec<u8>, names: &[String]) -> (Vec<Call>, bool) {
    let mut calls = Vec::new();
    let mut mounted = false;
    let Ok(img) = a2kit::img::dsk_po::PO::from_bytes(bytes) else { return (calls, false) };
    let mut bimg: Box<dyn DiskImage> = Box::new(img);
    if let Some(t) = call("id", &mut calls, || Ok::<bool, ()>(a2kit::fs::pascal::Disk::test_img(&mut bimg))) {
        mounted = t;
        if let Some(c) = calls.last_mut() { c.op = format!("id={}", if t { "T" } else { "F" }); }
    }
    let Some(d) = call("mount", &mut calls, || a2kit::fs::pascal::Disk::from_img(bimg)) else { return (calls, mounted) };
    let mut disk: Box<dyn DiskFS> = Box::new(d);
    read_queries(&mut disk, names, &mut calls, false, &|_| true);
    (calls, mounted)
}

/// stat, catalog, tree, glob, get of the fixed names and of every listed name (at most 12 more)
fn read_queries(disk: &mut Box<dyn DiskFS>, names: &[String], calls: &mut Vec<Call>, hier: bool, tied: &dyn Fn(&str) -> bool) {
    if let Some(s) = call("stat", calls, || disk.stat()) { let _ = guarded(|| s.to_json(None)); }
    let cat = call("cat", calls, || disk.catalog_to_vec("/"));
    call("tree", calls, || disk.tree(true, None));
    let mut listed: Vec<String> = Vec::new();
    if let Some(g) = call("glob", calls, || disk.glob("*", false)) { listed.extend(g); }
    if hier { if let Some(g) = call("glob2", calls, || disk.glob("*/*", false)) { listed.extend(g); } }
    if let Some(rows) = &cat { for row in rows { if row.len() > 12 { listed.push(row[12..].to_string()); } } }
    listed.sort(); listed.dedup();
    listed.retain(|n| !names.contains(n) && !n.is_empty());
    let mut all: Vec<String> = names.to_vec();
    all.extend(listed.into_iter().take(12));
    for n in all {
        // names the model does not cover (non-ASCII, escapes) are fetched for the oracle only (`xget`)
        let op = if n.is_ascii() && tied(&n) { "get" } else { "xget" };
        if let Some(f) = call(&format!("{}:{}", op, hx(n.as_bytes())), calls, || disk.get(&n)) { let _ = guarded(|| { let _ = f.unpack_raw(true); f.to_json(None) }); }
    }
}


// ------------------------------------------------------------------------------------------------
// DOS 3.x
// ------------------------------------------------------------------------------------------------

fn dos_seed(c: usize) -> Option<(Vec<u8>, Vec<String>)> {
    let mut d = if c == 16 {
        let mut d = a2kit::fs::dos3x::Disk::from_img(Box::new(a2kit::img::dsk_do::DO::create(35, 16))).ok()?;
        d.init33(254, false).ok()?; d
    } else {
        let mut d = a2kit::fs::dos3x::Disk::from_img(Box::new(a2kit::img::dsk_d13::D13::create(35))).ok()?;
        d.init32(254, false).ok()?; d
    };
    let disk: &mut dyn DiskFS = &mut d;
    let mut names = Vec::new();
    if disk.write_text("HELLO", "HELLO WORLD\nSECOND LINE\n").is_ok() { names.push("HELLO".to_string()); }
    let data: Vec<u8> = (0..700u32).map(|i| (i * 7 % 251) as u8).collect();
    if disk.bsave("BIN1", &data, Some(0x300), None).is_ok() { names.push("BIN1".to_string()); }
    let mut t = a2kit::lang::applesoft::tokenizer::Tokenizer::new();
    if let Ok(tok) = t.tokenize("10 PRINT \"HI\"\n20 END\n", 2049) { if disk.save("PROG", &tok, ItemType::ApplesoftTokens, None).is_ok() { names.push("PROG".to_string()); } }
    // more than 122 data sectors: two track/sector lists
    let big: Vec<u8> = (0..33000u32).map(|i| (i % 253) as u8).collect();
    if disk.bsave("BIG FILE", &big, Some(0x2000), None).is_ok() { names.push("BIG FILE".to_string()); }
    if names.len() < 4 { return None; }
    names.push("NOSUCH".to_string());
    Some((disk.get_img().to_bytes(), names))
}

fn dos_cases(c: usize, rng: &mut Rng, n_single: usize, n_multi: usize) -> Vec<Case> {
    let fs: &'static str = if c == 16 { "dos" } else { "d13" };
    let Some((seed, names)) = dos_seed(c) else { return vec![] };
    let sec = |t: usize, s: usize| (t * c + s) * 256;
    let trk: Vec<u64> = vec![0, 1, 2, 16, 17, 18, 33, 34, 35, 36, 49, 50, 63, 64, 127, 128, 254, 255];
    let sct: Vec<u64> = dedup(vec![0, 1, 2, c as u64 - 2, c as u64 - 1, c as u64, c as u64 + 1, 15, 16, 17, 31, 32, 33, 223, 224, 255], 1);
    let mut fields: Vec<Field> = Vec::new();
    let v = sec(17, 0);
    fields.push(Field { off: v + 1, width: 1, name: "vtoc.track1".into(), vals: trk.clone() });
    fields.push(Field { off: v + 2, width: 1, name: "vtoc.sector1".into(), vals: sct.clone() });
    fields.push(Field { off: v + 3, width: 1, name: "vtoc.version".into(), vals: vec![0, 1, 2, 3, 4, 255] });
    fields.push(Field { off: v + 6, width: 1, name: "vtoc.vol".into(), vals: vec![0, 1, 254, 255] });
    fields.push(Field { off: v + 0x27, width: 1, name: "vtoc.max_pairs".into(), vals: vec![0, 1, 2, 61, 121, 122, 123, 128, 255] });
    fields.push(Field { off: v + 0x30, width: 1, name: "vtoc.last_track".into(), vals: trk.clone() });
    fields.push(Field { off: v + 0x31, width: 1, name: "vtoc.last_direction".into(), vals: vec![0, 1, 2, 255] });
    fields.push(Field { off: v + 0x34, width: 1, name: "vtoc.tracks".into(), vals: trk.clone() });
    fields.push(Field { off: v + 0x35, width: 1, name: "vtoc.sectors".into(), vals: sct.clone() });
    fields.push(Field { off: v + 0x36, width: 2, name: "vtoc.bytes".into(), vals: vec![0, 1, 255, 256, 257, 512, 0x7fff, 0x8000, 0xffff] });
    for t in [0usize, 1, 17, 18, 34] { fields.push(Field { off: v + 0x38 + 4 * t, width: 4, name: format!("vtoc.bitmap[{}]", t), vals: vec![0, 0xffffffff, 0x0000ffff, 0xffff0000, 1, 0x80000000] }); }
    // catalog sectors: the first two of the chain; links (incl. cycles) and the entries in use
    let first = (17usize, c - 1);
    let cat_secs = [first, (17, c - 2)];
    let mut tsls: Vec<(usize, usize)> = Vec::new();
    for (ci, (ct, cs)) in cat_secs.iter().enumerate() {
        let o = sec(*ct, *cs);
        let mut lt = trk.clone(); lt.extend_from_slice(&[*ct as u64]);
        fields.push(Field { off: o + 1, width: 1, name: format!("cat{}.next_track", ci), vals: dedup(lt, 1) });
        let mut ls = sct.clone(); ls.extend_from_slice(&[*cs as u64, first.1 as u64, 0]);
        fields.push(Field { off: o + 2, width: 1, name: format!("cat{}.next_sector", ci), vals: dedup(ls, 1) });
        for k in 0..7 {
            let e = o + 11 + 35 * k;
            let live = seed[e] > 0 && seed[e] < 255;
            if !live && !(ci == 0 && k == 6) && !(ci == 1 && k == 0) { continue; }
            if live { tsls.push((seed[e] as usize, seed[e + 1] as usize)); }
            fields.push(Field { off: e, width: 1, name: format!("cat{}.e{}.tsl_track", ci, k), vals: trk.clone() });
            fields.push(Field { off: e + 1, width: 1, name: format!("cat{}.e{}.tsl_sector", ci, k), vals: sct.clone() });
            fields.push(Field { off: e + 2, width: 1, name: format!("cat{}.e{}.type", ci, k), vals: vec![0, 1, 2, 4, 8, 0x40, 0x7f, 0x80, 0x82, 0x84, 0xff] });
            for j in [0usize, 1, 29] { fields.push(Field { off: e + 3 + j, width: 1, name: format!("cat{}.e{}.name[{}]", ci, k, j), vals: vec![0, 0x20, 0x41, 0x7f, 0x80, 0xa0, 0xc1, 0xdc, 0xfe, 0xff] }); }
            fields.push(Field { off: e + 33, width: 2, name: format!("cat{}.e{}.sectors", ci, k), vals: vec![0, 1, 255, 256, 257, 0x7fff, 0x8000, 0xffff] });
        }
    }
    // track/sector lists of every file (and the continuation of the big one): links, cycles, pairs
    let mut all_tsl = tsls.clone();
    for (t, s) in &tsls { let o = sec(*t, *s); if seed[o + 1] != 0 { all_tsl.push((seed[o + 1] as usize, seed[o + 2] as usize)); } }
    for (i, (t, s)) in all_tsl.iter().enumerate() {
        let o = sec(*t, *s);
        let mut lt = trk.clone(); lt.push(*t as u64); lt.push(tsls[0].0 as u64);
        fields.push(Field { off: o + 1, width: 1, name: format!("tsl{}.next_track", i), vals: dedup(lt, 1) });
        let mut ls = sct.clone(); ls.push(*s as u64); ls.push(tsls[0].1 as u64);
        fields.push(Field { off: o + 2, width: 1, name: format!("tsl{}.next_sector", i), vals: dedup(ls, 1) });
        fields.push(Field { off: o + 5, width: 2, name: format!("tsl{}.sector_base", i), vals: vec![0, 1, 122, 0xffff] });
        for p in [0usize, 1, 2, 60, 120, 121] {
            fields.push(Field { off: o + 12 + 2 * p, width: 1, name: format!("tsl{}.pair{}.track", i, p), vals: trk.clone() });
            fields.push(Field { off: o + 13 + 2 * p, width: 1, name: format!("tsl{}.pair{}.sector", i, p), vals: sct.clone() });
        }
    }
    let extra = format!("{}", c);
    let mut out = vec![Case { fs, bytes: seed.clone(), unit: 256, desc: "seed".into(), names: names.clone(), extra: extra.clone(), trivial: true }];
    // hand-made cycles
    for (what, pokes) in [
        ("catalog-self-loop", vec![(sec(17, c - 1) + 1, 17u8), (sec(17, c - 1) + 2, (c - 1) as u8)]),
        ("catalog-two-cycle", vec![(sec(17, c - 2) + 1, 17u8), (sec(17, c - 2) + 2, (c - 1) as u8)]),
        ("catalog-into-vtoc", vec![(sec(17, c - 1) + 1, 17u8), (sec(17, c - 1) + 2, 0u8)]),
        ("tslist-self-loop", vec![(sec(tsls[0].0, tsls[0].1) + 1, tsls[0].0 as u8), (sec(tsls[0].0, tsls[0].1) + 2, tsls[0].1 as u8)]),
        ("tslist-into-vtoc", vec![(sec(tsls[0].0, tsls[0].1) + 1, 17u8), (sec(tsls[0].0, tsls[0].1) + 2, 0u8)]),
        ("tslist-big-cycle", vec![(sec(all_tsl[all_tsl.len() - 1].0, all_tsl[all_tsl.len() - 1].1) + 1, tsls[tsls.len() - 1].0 as u8), (sec(all_tsl[all_tsl.len() - 1].0, all_tsl[all_tsl.len() - 1].1) + 2, tsls[tsls.len() - 1].1 as u8)]),
    ] {
        let mut b = seed.clone();
        for (o, x) in pokes { b[o] = x; }
        out.push(Case { fs, bytes: b, unit: 256, desc: what.into(), names: names.clone(), extra: extra.clone(), trivial: false });
    }
    out.extend(cases_from_fields(fs, &seed, 256, &names, &extra, &fields, rng, n_single, n_multi));
    out
}

fn dos_exercise(c: usize, bytes: &Vec<u8>, names: &[String]) -> (Vec<Call>, bool) {
    let mut calls = Vec::new();
    let mut mounted = false;
    let mut bimg: Box<dyn DiskImage> = if c == 16 {
        match a2kit::img::dsk_do::DO::from_bytes(bytes) { Ok(i) => Box::new(i), Err(_) => return (calls, false) }
    } else {
        match a2kit::img::dsk_d13::D13::from_bytes(bytes) { Ok(i) => Box::new(i), Err(_) => return (calls, false) }
    };
    if let Some(t) = call("id", &mut calls, || Ok::<bool, ()>(a2kit::fs::dos3x::Disk::test_img(&mut bimg))) {
        mounted = t;
        if let Some(k) = calls.last_mut() { k.op = format!("id={}", if t { "T" } else { "F" }); }
    }
    let Some(d) = call("mount", &mut calls, || a2kit::fs::dos3x::Disk::from_img(bimg)) else { return (calls, mounted) };
    let mut disk: Box<dyn DiskFS> = Box::new(d);
    // the model covers names without hex escapes
    read_queries(&mut disk, names, &mut calls, false, &|n| !n.contains('\\'));
    (calls, mounted)
}

// ------------------------------------------------------------------------------------------------
// run
// ------------------------------------------------------------------------------------------------

struct Run<'a> {
    ctx: &'a mut Ctx,
    w: std::io::LineWriter<std::fs::File>,
    cur_path: String,
    start: usize,
    idx: usize,
    hangs: usize,
}

impl<'a> Run<'a> {
    fn claim(&mut self) -> Option<usize> {
        let i = self.idx; self.idx += 1;
        if i >= self.start && self.ctx.out.wants(i) { Some(i) } else { None }
    }
    fn line(&mut self, s: String) { use std::io::Write; let _ = writeln!(self.w, "{}", s.replace('\n', " ")); }
    fn mark(&mut self, idx: usize, front: &str, desc: &str) {
        let _ = std::fs::write(&self.cur_path, format!("{}\t{}\t{}", idx, front, desc.replace('\t', " ").replace('\n', " ")));
    }
}

fn exercise(c: &Case) -> (Vec<Call>, bool) {
    match c.fs {
        "pas" => pascal_exercise(&c.bytes, &c.names),
        "dos" => dos_exercise(16, &c.bytes, &c.names),
        "d13" => dos_exercise(13, &c.bytes, &c.names),
        _ => (Vec::new(), false),
    }
}

fn all_cases(ctx: &Ctx) -> Vec<Case> {
    let mut rng0 = Rng::new(ctx.seed ^ 0xC12F5);
    let mut v = Vec::new();
    let mut g = rng0.fork(1);
    v.extend(pascal_cases(&mut g, ctx.n(500, 6000), ctx.n(300, 6000)));
    let mut g = rng0.fork(2);
    v.extend(dos_cases(16, &mut g, ctx.n(500, 8000), ctx.n(400, 8000)));
    let mut g = rng0.fork(3);
    v.extend(dos_cases(13, &mut g, ctx.n(150, 4000), ctx.n(150, 4000)));
    v
}

fn child(ctx: &mut Ctx, start: usize, rec_path: &str) {
    let f = std::fs::File::create(rec_path).expect("create record file");
    let cases = all_cases(ctx);
    let mut r = Run { ctx, w: std::io::LineWriter::new(f), cur_path: format!("{}.cur", rec_path), start, idx: 0, hangs: 0 };
    for c in cases {
        let Some(idx) = r.claim() else { continue };
        let front = format!("fs/{}", c.fs);
        if r.hangs >= 3 { r.line(format!("D\tskipped-after-hangs:{}\t1", front)); continue; }
        r.mark(idx, &front, &c.desc);
        let c2 = c.clone();
        let o = watched(20000, move || {
            let (calls, mounted) = exercise(&c2);
            let mut s = format!("{}", if mounted { "M" } else { "U" });
            for k in &calls { s += &format!("\x1f{}\x1e{}\x1e{}", k.op, k.class, k.site); }
            s
        });
        match o {
            Outc::Hang => {
                r.hangs += 1;
                r.line(format!("O\tFAIL\t{}\thang:{}\tidx={} front={} input={}", ORACLE, front, idx, front, c.desc));
                r.line(format!("D\t{}:hang\t1", c.fs));
            }
            Outc::Done(s) => {
                let mut parts = s.split('\x1f');
                let mounted = parts.next() == Some("M");
                let mut toks: Vec<String> = Vec::new();
                let mut fail: Option<(String, String)> = None;
                let mut any_panic = false;
                for p in parts {
                    let f: Vec<&str> = p.split('\x1e').collect();
                    if f.len() < 3 { continue; }
                    if !f[0].starts_with("xget:") { toks.push(format!("{}:{}", f[0], f[1])); }
                    if f[1] == "panic" { any_panic = true; if fail.is_none() { fail = Some((f[0].to_string(), f[2].to_string())); } }
                }
                // the tie: same classes from the model
                let got: Vec<String> = toks.iter().filter(|t| t.starts_with("get:")).map(|t| t[4..].split(':').next().unwrap_or("").to_string()).collect();
                let req = format!("c12fs {} {} {} {}{}", if c.fs == "d13" { "dos" } else { c.fs }, c.bytes.len() / c.unit, sparse_units(&c.bytes, c.unit),
                    if got.is_empty() { "-".to_string() } else { got.join(",") },
                    if c.extra.is_empty() { String::new() } else { format!(" {}", c.extra) });
                r.line(format!("Q\t{}\t{}", req, toks.join(" ")));
                r.line(format!("D\t{}:{}{}\t1", c.fs, if mounted { "mounted" } else { "not-mounted" }, if any_panic { ":panic" } else { "" }));
                match (&fail, mounted) {
                    (Some((op, site)), true) => r.line(format!("O\tFAIL\t{}\t{}\tidx={} front={} op={} at={} input={}", ORACLE, panic_sig(site), idx, front, op, site, c.desc)),
                    _ => r.line(format!("O\tPASS\t{}\t-\tidx={} {}", ORACLE, idx, front)),
                }
                if idx < 3 { r.line(format!("S\t{} {}: {}", c.fs, c.desc, toks.join(" "))); }
            }
        }
        r.line(format!("C\t{:016X}\t{}", fnv(&[c.fs.as_bytes(), c.desc.as_bytes()].concat()), if c.trivial { 0 } else { 1 }));
    }
    r.line("END".to_string());
}

pub fn run(ctx: &mut Ctx) {
    if let Ok(spec) = std::env::var("C12FS_CHILD") {
        let (a, b) = spec.split_once(':').expect("C12FS_CHILD");
        child(ctx, a.parse().expect("C12FS_CHILD idx"), b);
        return;
    }
    let exe = std::env::current_exe().expect("current_exe");
    let tier = if ctx.tier_thorough { "thorough" } else { "quick" };
    let tmp = std::env::temp_dir().join(format!("c12fs-{}-{}", std::process::id(), ctx.seed));
    let rec = format!("{}.rec", tmp.display());
    let mut start = 0usize;
    let mut aborts = 0;
    let mut dist: std::collections::BTreeMap<String, u64> = Default::default();
    loop {
        let _ = std::fs::remove_file(format!("{}.cur", rec));
        let mut cmd = std::process::Command::new(&exe);
        cmd.arg("c12fs").arg(tier).arg(ctx.seed.to_string()).arg(format!("{}.ctxout", tmp.display()));
        if let Some(k) = ctx.out.only { cmd.arg("--only").arg(k.to_string()); }
        cmd.env("C12FS_CHILD", format!("{}:{}", start, rec)).stdout(std::process::Stdio::null());
        match std::fs::File::create(format!("{}.err", tmp.display())) { Ok(f) => { cmd.stderr(f); } Err(_) => { cmd.stderr(std::process::Stdio::null()); } }
        die_with_parent(&mut cmd);
        let status = cmd.status();
        let mut ended = false;
        if let Ok(text) = std::fs::read(&rec) {
            for line in String::from_utf8_lossy(&text).lines() {
                let p: Vec<&str> = line.split('\t').collect();
                match p[0] {
                    "Q" if p.len() >= 3 => ctx.out.q(p[1], p[2]),
                    "O" if p.len() >= 5 => ctx.out.oracle(p[1] == "PASS", p[2], p[3], p[4]),
                    "C" if p.len() >= 3 => ctx.out.case(p[1].as_bytes(), p[2] == "1"),
                    "S" if p.len() >= 2 => ctx.out.sample(p[1]),
                    "D" if p.len() >= 3 => { *dist.entry(p[1].to_string()).or_insert(0) += p[2].parse::<u64>().unwrap_or(0); }
                    "END" => ended = true,
                    _ => {}
                }
            }
        }
        let ok = matches!(&status, Ok(st) if st.success());
        if ok && ended { break; }
        aborts += 1;
        let cur = std::fs::read_to_string(format!("{}.cur", rec)).unwrap_or_default();
        let p: Vec<&str> = cur.split('\t').collect();
        let errtxt = std::fs::read_to_string(format!("{}.err", tmp.display())).unwrap_or_default();
        let errtail: String = errtxt.lines().rev().take(3).collect::<Vec<&str>>().into_iter().rev().collect::<Vec<&str>>().join(" | ");
        let how = format!("{}; stderr: {}", match &status { Ok(st) => format!("{}", st), Err(e) => format!("{}", e) }, errtail.chars().take(300).collect::<String>());
        if p.len() >= 3 {
            let idx: usize = p[0].parse().unwrap_or(usize::MAX - 1);
            ctx.out.oracle(false, ORACLE, &format!("abort:{}", p[1]), &format!("idx={} front={} process died ({}) input={}", idx, p[1], how, p[2]));
            if ctx.out.only.is_some() || aborts >= 40 || idx < start { break; }
            start = idx + 1;
        } else {
            ctx.out.oracle(false, ORACLE, "abort:harness", &format!("idx=0 child process died ({}) before its first case", how));
            break;
        }
    }
    for (k, v) in dist { ctx.out.count_n(&k, v); }
    for sfx in [".rec", ".rec.cur", ".ctxout", ".err"] { let _ = std::fs::remove_file(format!("{}{}", tmp.display(), sfx)); }
}
