//! harness family c12fs: the file-system READ PATHS of C12 on adversarial images, tied to the concrete
//! panic-explicit models (`lean/A2Verif/Model/Fs/*.lean` + `Model/C12FsId.lean`).
//!
//! Per file system: a small valid volume is built by the real code, then exactly the pointer / count /
//! length fields that the read paths use are corrupted (1-3 fields per case, boundary values).  For every
//! image: identify (`test_img`) + mount (`from_img`) of that file system, `stat`, `catalog_to_vec`, `tree`,
//! `glob`, `get` of every listed name and of the seed's own names, each under `catch_unwind`, the whole case in
//! a watched thread inside a child process (as family c12).  The outcome class of every call
//! (ok / err / panic) is compared with the Lean model's (`Q` lines, family word `c12fs`); the direct oracle
//! `no-crash` requires that no call of a *mounted* image (test_img = true, i.e. what the CLI can reach) panics
//! or hangs, sig `panic:<file>:<msg>` / `hang:<front>` / `abort:<front>`.
use crate::util::*;
use a2kit::fs::DiskFS;
use a2kit::img::DiskImage;
use a2kit::commands::ItemType;
use std::sync::mpsc;
use std::time::Duration;

const ORACLE: &str = "no-crash";

// ------------------------------------------------------------------------------------------------
// guarded + watched calls (same discipline as family c12)
// ------------------------------------------------------------------------------------------------

#[derive(Clone, Debug, PartialEq)]
enum Outc { Done(String), Hang }

fn panic_sig(p: &str) -> String {
    let (loc, msg) = match p.find(" [") { Some(i) => (&p[..i], &p[i + 2..]), None => (p, "") };
    let file = loc.rsplitn(2, ':').last().unwrap_or(loc);
    let file = match file.find("src/") { Some(i) => &file[i..], None => file };
    let mut m = String::new();
    let mut last_digit = false;
    for c in msg.trim_end_matches(']').chars() {
        if c.is_ascii_digit() { if !last_digit { m.push('N'); } last_digit = true; }
        else if c.is_ascii_alphanumeric() { m.push(c.to_ascii_lowercase()); last_digit = false; }
        else { if !m.ends_with('-') { m.push('-'); } last_digit = false; }
    }
    let m: String = m.trim_matches('-').chars().take(48).collect();
    format!("panic:{}:{}", file, m)
}

fn watched<F>(ms: u64, f: F) -> Outc
where F: FnOnce() -> String + Send + 'static {
    let (tx, rx) = mpsc::channel();
    let h = std::thread::Builder::new().stack_size(16 << 20).spawn(move || { let r = f(); let _ = tx.send(r); });
    let h = match h { Ok(h) => h, Err(_) => return Outc::Hang };
    match rx.recv_timeout(Duration::from_millis(ms)) {
        Ok(s) => { let _ = h.join(); Outc::Done(s) }
        Err(_) => Outc::Hang,
    }
}

/// one guarded call: class + panic site
struct Call { op: String, class: &'static str, site: String }

fn call<T, E>(op: &str, calls: &mut Vec<Call>, f: impl FnOnce() -> Result<T, E>) -> Option<T> {
    match guarded(f) {
        Ok(Ok(v)) => { calls.push(Call { op: op.to_string(), class: "ok", site: String::new() }); Some(v) }
        Ok(Err(_)) => { calls.push(Call { op: op.to_string(), class: "err", site: String::new() }); None }
        Err(p) => { calls.push(Call { op: op.to_string(), class: "panic", site: p }); None }
    }
}

// ------------------------------------------------------------------------------------------------
// cases
// ------------------------------------------------------------------------------------------------

#[derive(Clone)]
struct Case {
    fs: &'static str,
    /// flat image bytes (PO / DO / IMG order = the model's unit order)
    bytes: Vec<u8>,
    unit: usize,
    desc: String,
    /// names whose `get` is tried whatever the listing says
    names: Vec<String>,
    /// extra tokens of the model request (geometry etc.), without the units
    extra: String,
    trivial: bool,
}

/// a field of the on-disk structures: byte offset in the flat image, width, name, boundary values
#[derive(Clone)]
struct Field { off: usize, width: usize, name: String, vals: Vec<u64> }

fn poke(b: &mut [u8], off: usize, width: usize, v: u64) {
    for k in 0..width { if off + k < b.len() { b[off + k] = ((v >> (8 * k)) & 0xff) as u8; } }
}
fn peek(b: &[u8], off: usize, width: usize) -> u64 {
    let mut v = 0u64; for k in 0..width { if off + k < b.len() { v |= (b[off + k] as u64) << (8 * k); } } v
}

fn dedup(mut v: Vec<u64>, width: usize) -> Vec<u64> {
    let m = if width >= 8 { u64::MAX } else { (1u64 << (8 * width)) - 1 };
    for x in v.iter_mut() { *x &= m; }
    v.sort(); v.dedup(); v
}

/// units of the flat image that are not all zero, as `i:HEX,i:HEX` (`-` if none)
fn sparse_units(bytes: &[u8], unit: usize) -> String {
    let mut parts: Vec<String> = Vec::new();
    for (i, ch) in bytes.chunks(unit).enumerate() {
        if ch.iter().any(|x| *x != 0) { parts.push(format!("{}:{}", i, hex::encode_upper(ch))); }
    }
    if parts.is_empty() { "-".to_string() } else { parts.join(",") }
}

/// from all fields: every single (field, value); then `n_multi` random 2-3 field combinations
fn cases_from_fields(fs: &'static str, seed: &[u8], unit: usize, names: &[String], extra: &str, fields: &[Field],
                     rng: &mut Rng, n_single: usize, n_multi: usize) -> Vec<Case> {
    let mut out = Vec::new();
    let mut singles: Vec<(usize, u64)> = Vec::new();
    for (i, f) in fields.iter().enumerate() { for v in &f.vals { if *v != peek(seed, f.off, f.width) { singles.push((i, *v)); } } }
    // deterministic sample of the singles
    if singles.len() > n_single {
        for i in 0..n_single { let j = i + rng.below(singles.len() - i); singles.swap(i, j); }
        singles.truncate(n_single);
        singles.sort();
    }
    for (i, v) in singles {
        let f = &fields[i];
        let mut b = seed.to_vec(); poke(&mut b, f.off, f.width, v);
        out.push(Case { fs, bytes: b, unit, desc: format!("{}:={}", f.name, v), names: names.to_vec(), extra: extra.to_string(), trivial: false });
    }
    for _ in 0..n_multi {
        let k = 2 + rng.below(2);
        let mut b = seed.to_vec(); let mut d: Vec<String> = Vec::new();
        for _ in 0..k {
            let f = rng.pick(fields).clone();
            if f.vals.is_empty() { continue; }
            let v = *rng.pick(&f.vals);
            poke(&mut b, f.off, f.width, v); d.push(format!("{}:={}", f.name, v));
        }
        let trivial = b == seed;
        out.push(Case { fs, bytes: b, unit, desc: d.join(" "), names: names.to_vec(), extra: extra.to_string(), trivial });
    }
    out
}

// ------------------------------------------------------------------------------------------------
// Pascal
// ------------------------------------------------------------------------------------------------

fn pascal_seed() -> Option<(Vec<u8>, Vec<String>)> {
    let img = a2kit::img::dsk_po::PO::create(280);
    let mut d = a2kit::fs::pascal::Disk::from_img(Box::new(img)).ok()?;
    d.format("TEST", 0, None).ok()?;
    let mut disk: Box<dyn DiskFS> = Box::new(d);
    let mut names = Vec::new();
    if disk.write_text("HELLO.TEXT", "HELLO WORLD\nSECOND LINE\n").is_ok() { names.push("HELLO.TEXT".to_string()); }
    let data: Vec<u8> = (0..700u32).map(|i| (i * 7 % 251) as u8).collect();
    if disk.bsave("BIN1.CODE", &data, Some(0x300), None).is_ok() { names.push("BIN1.CODE".to_string()); }
    let big: Vec<u8> = (0..3000u32).map(|i| (i % 253) as u8).collect();
    if disk.bsave("BIG.DATA", &big, Some(0x2000), None).is_ok() { names.push("BIG.DATA".to_string()); }
    if disk.bsave("LAST.DATA", &[1, 2, 3], Some(0x2000), None).is_ok() { names.push("LAST.DATA".to_string()); }
    if names.len() < 3 { return None; }
    names.push("NOSUCH".to_string());
    Some((disk.get_img().to_bytes(), names))
}

fn pascal_cases(rng: &mut Rng, n_single: usize, n_multi: usize) -> Vec<Case> {
    let Some((seed, names)) = pascal_seed() else { return vec![] };
    let dir = 2 * 512;
    let nfiles = peek(&seed, dir + 16, 2) as usize;
    let hdr_end = peek(&seed, dir + 2, 2);
    let total = peek(&seed, dir + 14, 2);
    let blk16 = |extra: &[u64]| -> Vec<u64> {
        let mut v = vec![0, 1, 2, 3, 5, 6, 7, 19, 20, 21, hdr_end.wrapping_sub(1), hdr_end, hdr_end + 1, total - 1, total, total + 1, 0x7fff, 0x8000, 0xfffe, 0xffff];
        v.extend_from_slice(extra); dedup(v, 2)
    };
    let mut fields: Vec<Field> = Vec::new();
    fields.push(Field { off: dir, width: 2, name: "hdr.begin".into(), vals: blk16(&[]) });
    fields.push(Field { off: dir + 2, width: 2, name: "hdr.end".into(), vals: blk16(&[4, 8, 279, 281, 300]) });
    fields.push(Field { off: dir + 4, width: 2, name: "hdr.type".into(), vals: dedup(vec![0, 1, 0xff, 0x100, 0xffff], 2) });
    fields.push(Field { off: dir + 6, width: 1, name: "hdr.name_len".into(), vals: vec![0, 1, 4, 7, 8, 15, 16, 0x80, 0xff] });
    for k in 0..7 { fields.push(Field { off: dir + 7 + k, width: 1, name: format!("hdr.name[{}]", k), vals: vec![0, 0x1f, 0x20, 0x7e, 0x7f, 0x80, 0xc3, 0xff] }); }
    fields.push(Field { off: dir + 14, width: 2, name: "hdr.total".into(), vals: blk16(&[279, 281, 300]) });
    fields.push(Field { off: dir + 16, width: 2, name: "hdr.num_files".into(), vals: dedup(vec![0, 1, nfiles as u64 - 1, nfiles as u64, nfiles as u64 + 1, 76, 77, 78, 79, 0xff, 0x100, 0xffff], 2) });
    fields.push(Field { off: dir + 18, width: 2, name: "hdr.access".into(), vals: vec![0, 0xffff] });
    fields.push(Field { off: dir + 20, width: 2, name: "hdr.date".into(), vals: vec![0, 1, 0x0010, 0xffff, 0x01ed] });
    // entries: the live ones, the first free slot, the slot that straddles blocks 2/3, the last slot
    let mut slots: Vec<usize> = (0..nfiles + 1).collect();
    slots.extend_from_slice(&[18, 76]);
    for s in slots {
        let e = dir + 26 * (s + 1);
        let beg = peek(&seed, e, 2); let end = peek(&seed, e + 2, 2);
        fields.push(Field { off: e, width: 2, name: format!("e{}.begin", s), vals: blk16(&[beg.wrapping_sub(1), beg + 1, end, end + 1]) });
        fields.push(Field { off: e + 2, width: 2, name: format!("e{}.end", s), vals: blk16(&[beg, beg + 1, beg.wrapping_sub(1), end + 1, end.wrapping_sub(1)]) });
        fields.push(Field { off: e + 4, width: 2, name: format!("e{}.type", s), vals: dedup(vec![0, 1, 2, 3, 5, 8, 9, 0xff, 0x100, 0xffff], 2) });
        fields.push(Field { off: e + 6, width: 1, name: format!("e{}.name_len", s), vals: vec![0, 1, 5, 14, 15, 16, 0x7f, 0x80, 0xff] });
        for k in [0usize, 1, 9, 14] { fields.push(Field { off: e + 7 + k, width: 1, name: format!("e{}.name[{}]", s, k), vals: vec![0, 0x1f, 0x20, 0x2e, 0x7e, 0x7f, 0x80, 0xc3, 0xff] }); }
        fields.push(Field { off: e + 22, width: 2, name: format!("e{}.bytes_remaining", s), vals: dedup(vec![0, 1, 511, 512, 513, 1023, 1024, 0x7fff, 0xffff], 2) });
        fields.push(Field { off: e + 24, width: 2, name: format!("e{}.date", s), vals: vec![0, 1, 0x0010, 0x01ed, 0xffff] });
    }
    // probe: does the real code have repair `c12fs-pascal-name-conversion`? (witness: stale slot with name_len 16)
    let fixed = {
        let mut b = seed.clone();
        let e = dir + 26 * (nfiles + 1);
        poke(&mut b, e, 2, 200); poke(&mut b, e + 2, 2, 201); b[e + 6] = 16;
        let r = guarded(|| { let img = a2kit::img::dsk_po::PO::from_bytes(&b).ok()?; let mut d = a2kit::fs::pascal::Disk::from_img(Box::new(img)).ok()?; d.catalog_to_vec("/").ok() });
        if r.is_ok() { "1" } else { "0" }
    };
    let mut out = vec![Case { fs: "pas", bytes: seed.clone(), unit: 512, desc: "seed".into(), names: names.clone(), extra: fixed.into(), trivial: true }];
    // hand-made: a live-looking entry behind num_files (stale slot) with a name the listing cannot convert
    for (what, len, ch) in [("stale-slot-name_len-16", 16u8, b'A'), ("stale-slot-name-byte-ff", 5u8, 0xffu8), ("stale-slot-valid", 5u8, b'A')] {
        let mut b = seed.clone();
        let e = dir + 26 * (nfiles + 1);
        poke(&mut b, e, 2, 200); poke(&mut b, e + 2, 2, 201); poke(&mut b, e + 4, 2, 5); b[e + 6] = len;
        for k in 0..15 { b[e + 7 + k] = ch; }
        poke(&mut b, e + 22, 2, 512);
        out.push(Case { fs: "pas", bytes: b, unit: 512, desc: what.into(), names: names.clone(), extra: fixed.into(), trivial: false });
    }
    out.extend(cases_from_fields("pas", &seed, 512, &names, fixed, &fields, rng, n_single, n_multi));
    // second seed: the first unused slot still describes a file (what a delete of the last file leaves behind when
    // only num_files is decremented); the listing walks it, test_img does not
    let mut seed2 = seed.clone();
    {
        let e = dir + 26 * (nfiles + 1);
        poke(&mut seed2, e, 2, 200); poke(&mut seed2, e + 2, 2, 203); poke(&mut seed2, e + 4, 2, 5); seed2[e + 6] = 9;
        for (k, c) in b"STALE.ONE".iter().enumerate() { seed2[e + 7 + k] = *c; }
        poke(&mut seed2, e + 22, 2, 100);
    }
    let tag = format!("e{}.", nfiles);
    let f2: Vec<Field> = fields.iter().filter(|f| f.name.starts_with(&tag) || f.name == "hdr.num_files" || f.name == "hdr.total").cloned().collect();
    let mut names2 = names.clone(); names2.push("STALE.ONE".to_string());
    out.push(Case { fs: "pas", bytes: seed2.clone(), unit: 512, desc: "stale-seed".into(), names: names2.clone(), extra: fixed.into(), trivial: false });
    for mut c in cases_from_fields("pas", &seed2, 512, &names2, fixed, &f2, rng, n_single / 4, n_multi / 4) { c.desc = format!("stale-seed {}", c.desc); out.push(c); }
    out
}

/// identify + mount + read-only queries of the Pascal module; one token per call
fn pascal_exercise(bytes: &Vec<u8>, names: &[String]) -> (Vec<Call>, bool) {
    let mut calls = Vec::new();
    let mut mounted = false;
    let Ok(img) = a2kit::img::dsk_po::PO::from_bytes(bytes) else { return (calls, false) };
    let mut bimg: Box<dyn DiskImage> = Box::new(img);
    if let Some(t) = call("id", &mut calls, || Ok::<bool, ()>(a2kit::fs::pascal::Disk::test_img(&mut bimg))) {
        mounted = t;
        if let Some(c) = calls.last_mut() { c.op = format!("id={}", if t { "T" } else { "F" }); }
    }
    let Some(d) = call("mount", &mut calls, || a2kit::fs::pascal::Disk::from_img(bimg)) else { return (calls, mounted) };
    let mut disk: Box<dyn DiskFS> = Box::new(d);
    read_queries(&mut disk, names, &mut calls, false);
    (calls, mounted)
}

/// stat, catalog, tree, glob, get of the fixed names and of every listed name (at most 12 more)
fn read_queries(disk: &mut Box<dyn DiskFS>, names: &[String], calls: &mut Vec<Call>, hier: bool) {
    if let Some(s) = call("stat", calls, || disk.stat()) { let _ = guarded(|| s.to_json(None)); }
    let cat = call("cat", calls, || disk.catalog_to_vec("/"));
    call("tree", calls, || disk.tree(true, None));
    let mut listed: Vec<String> = Vec::new();
    if let Some(g) = call("glob", calls, || disk.glob("*", false)) { listed.extend(g); }
    if hier { if let Some(g) = call("glob2", calls, || disk.glob("*/*", false)) { listed.extend(g); } }
    if let Some(rows) = &cat { for row in rows { if row.len() > 12 { listed.push(row[12..].to_string()); } } }
    listed.sort(); listed.dedup();
    listed.retain(|n| !names.contains(n) && n.is_ascii() && !n.is_empty() && !n.contains(' ') && !n.contains(','));
    let mut all: Vec<String> = names.to_vec();
    all.extend(listed.into_iter().take(12));
    for n in all {
        if let Some(f) = call(&format!("get:{}", hx(n.as_bytes())), calls, || disk.get(&n)) { let _ = guarded(|| { let _ = f.unpack_raw(true); f.to_json(None) }); }
    }
}

// ------------------------------------------------------------------------------------------------
// run
// ------------------------------------------------------------------------------------------------

struct Run<'a> {
    ctx: &'a mut Ctx,
    w: std::io::LineWriter<std::fs::File>,
    cur_path: String,
    start: usize,
    idx: usize,
    hangs: usize,
}

impl<'a> Run<'a> {
    fn claim(&mut self) -> Option<usize> {
        let i = self.idx; self.idx += 1;
        if i >= self.start && self.ctx.out.wants(i) { Some(i) } else { None }
    }
    fn line(&mut self, s: String) { use std::io::Write; let _ = writeln!(self.w, "{}", s.replace('\n', " ")); }
    fn mark(&mut self, idx: usize, front: &str, desc: &str) {
        let _ = std::fs::write(&self.cur_path, format!("{}\t{}\t{}", idx, front, desc.replace('\t', " ").replace('\n', " ")));
    }
}

fn exercise(c: &Case) -> (Vec<Call>, bool) {
    match c.fs {
        "pas" => pascal_exercise(&c.bytes, &c.names),
        _ => (Vec::new(), false),
    }
}

fn all_cases(ctx: &Ctx) -> Vec<Case> {
    let mut rng0 = Rng::new(ctx.seed ^ 0xC12F5);
    let mut v = Vec::new();
    let mut g = rng0.fork(1);
    v.extend(pascal_cases(&mut g, ctx.n(500, 6000), ctx.n(300, 6000)));
    v
}

fn child(ctx: &mut Ctx, start: usize, rec_path: &str) {
    let f = std::fs::File::create(rec_path).expect("create record file");
    let cases = all_cases(ctx);
    let mut r = Run { ctx, w: std::io::LineWriter::new(f), cur_path: format!("{}.cur", rec_path), start, idx: 0, hangs: 0 };
    for c in cases {
        let Some(idx) = r.claim() else { continue };
        let front = format!("fs/{}", c.fs);
        if r.hangs >= 3 { r.line(format!("D\tskipped-after-hangs:{}\t1", front)); continue; }
        r.mark(idx, &front, &c.desc);
        let c2 = c.clone();
        let o = watched(20000, move || {
            let (calls, mounted) = exercise(&c2);
            let mut s = format!("{}", if mounted { "M" } else { "U" });
            for k in &calls { s += &format!("\x1f{}\x1e{}\x1e{}", k.op, k.class, k.site); }
            s
        });
        match o {
            Outc::Hang => {
                r.hangs += 1;
                r.line(format!("O\tFAIL\t{}\thang:{}\tidx={} front={} input={}", ORACLE, front, idx, front, c.desc));
                r.line(format!("D\t{}:hang\t1", c.fs));
            }
            Outc::Done(s) => {
                let mut parts = s.split('\x1f');
                let mounted = parts.next() == Some("M");
                let mut toks: Vec<String> = Vec::new();
                let mut fail: Option<(String, String)> = None;
                let mut any_panic = false;
                for p in parts {
                    let f: Vec<&str> = p.split('\x1e').collect();
                    if f.len() < 3 { continue; }
                    toks.push(format!("{}:{}", f[0], f[1]));
                    if f[1] == "panic" { any_panic = true; if fail.is_none() { fail = Some((f[0].to_string(), f[2].to_string())); } }
                }
                // the tie: same classes from the model
                let got: Vec<String> = toks.iter().filter(|t| t.starts_with("get:")).map(|t| t[4..].split(':').next().unwrap_or("").to_string()).collect();
                let req = format!("c12fs {} {} {} {}{}", c.fs, c.bytes.len() / c.unit, sparse_units(&c.bytes, c.unit),
                    if got.is_empty() { "-".to_string() } else { got.join(",") },
                    if c.extra.is_empty() { String::new() } else { format!(" {}", c.extra) });
                r.line(format!("Q\t{}\t{}", req, toks.join(" ")));
                r.line(format!("D\t{}:{}{}\t1", c.fs, if mounted { "mounted" } else { "not-mounted" }, if any_panic { ":panic" } else { "" }));
                match (&fail, mounted) {
                    (Some((op, site)), true) => r.line(format!("O\tFAIL\t{}\t{}\tidx={} front={} op={} at={} input={}", ORACLE, panic_sig(site), idx, front, op, site, c.desc)),
                    _ => r.line(format!("O\tPASS\t{}\t-\tidx={} {}", ORACLE, idx, front)),
                }
                if idx < 3 { r.line(format!("S\t{} {}: {}", c.fs, c.desc, toks.join(" "))); }
            }
        }
        r.line(format!("C\t{:016X}\t{}", fnv(&[c.fs.as_bytes(), c.desc.as_bytes()].concat()), if c.trivial { 0 } else { 1 }));
    }
    r.line("END".to_string());
}

pub fn run(ctx: &mut Ctx) {
    if let Ok(spec) = std::env::var("C12FS_CHILD") {
        let (a, b) = spec.split_once(':').expect("C12FS_CHILD");
        child(ctx, a.parse().expect("C12FS_CHILD idx"), b);
        return;
    }
    let exe = std::env::current_exe().expect("current_exe");
    let tier = if ctx.tier_thorough { "thorough" } else { "quick" };
    let tmp = std::env::temp_dir().join(format!("c12fs-{}-{}", std::process::id(), ctx.seed));
    let rec = format!("{}.rec", tmp.display());
    let mut start = 0usize;
    let mut aborts = 0;
    let mut dist: std::collections::BTreeMap<String, u64> = Default::default();
    loop {
        let _ = std::fs::remove_file(format!("{}.cur", rec));
        let mut cmd = std::process::Command::new(&exe);
        cmd.arg("c12fs").arg(tier).arg(ctx.seed.to_string()).arg(format!("{}.ctxout", tmp.display()));
        if let Some(k) = ctx.out.only { cmd.arg("--only").arg(k.to_string()); }
        cmd.env("C12FS_CHILD", format!("{}:{}", start, rec)).stdout(std::process::Stdio::null());
        match std::fs::File::create(format!("{}.err", tmp.display())) { Ok(f) => { cmd.stderr(f); } Err(_) => { cmd.stderr(std::process::Stdio::null()); } }
        die_with_parent(&mut cmd);
        let status = cmd.status();
        let mut ended = false;
        if let Ok(text) = std::fs::read(&rec) {
            for line in String::from_utf8_lossy(&text).lines() {
                let p: Vec<&str> = line.split('\t').collect();
                match p[0] {
                    "Q" if p.len() >= 3 => ctx.out.q(p[1], p[2]),
                    "O" if p.len() >= 5 => ctx.out.oracle(p[1] == "PASS", p[2], p[3], p[4]),
                    "C" if p.len() >= 3 => ctx.out.case(p[1].as_bytes(), p[2] == "1"),
                    "S" if p.len() >= 2 => ctx.out.sample(p[1]),
                    "D" if p.len() >= 3 => { *dist.entry(p[1].to_string()).or_insert(0) += p[2].parse::<u64>().unwrap_or(0); }
                    "END" => ended = true,
                    _ => {}
                }
            }
        }
        let ok = matches!(&status, Ok(st) if st.success());
        if ok && ended { break; }
        aborts += 1;
        let cur = std::fs::read_to_string(format!("{}.cur", rec)).unwrap_or_default();
        let p: Vec<&str> = cur.split('\t').collect();
        let errtxt = std::fs::read_to_string(format!("{}.err", tmp.display())).unwrap_or_default();
        let errtail: String = errtxt.lines().rev().take(3).collect::<Vec<&str>>().into_iter().rev().collect::<Vec<&str>>().join(" | ");
        let how = format!("{}; stderr: {}", match &status { Ok(st) => format!("{}", st), Err(e) => format!("{}", e) }, errtail.chars().take(300).collect::<String>());
        if p.len() >= 3 {
            let idx: usize = p[0].parse().unwrap_or(usize::MAX - 1);
            ctx.out.oracle(false, ORACLE, &format!("abort:{}", p[1]), &format!("idx={} front={} process died ({}) input={}", idx, p[1], how, p[2]));
            if ctx.out.only.is_some() || aborts >= 40 || idx < start { break; }
            start = idx + 1;
        } else {
            ctx.out.oracle(false, ORACLE, "abort:harness", &format!("idx=0 child process died ({}) before its first case", how));
            break;
        }
    }
    for (k, v) in dist { ctx.out.count_n(&k, v); }
    for sfx in [".rec", ".rec.cur", ".ctxout", ".err"] { let _ = std::fs::remove_file(format!("{}{}", tmp.display(), sfx)); }
}
