//! harness family c12fs: the file-system READ PATHS of C12 on adversarial images, tied to the concrete
//! panic-explicit models (`lean/A2Verif/Model/Fs/*.lean` + `Model/C12FsId.lean`).
//!
//! Per file system: a small valid volume is built by the real code, then exactly the pointer / count /
//! length fields that the read paths use are corrupted (1-3 fields per case, boundary values).  For every
//! image: identify (`test_img`) + mount (`from_img`) of that file system, `stat`, `catalog_to_vec`, `tree`,
//! `glob`, `get` of every listed name and of the seed's own names, each under `catch_unwind`, the whole case in
//! a watched thread inside a child process (as family c12).  The outcome class of every call
//! (ok / err / panic) is compared with the Lean model's (`Q` lines, family word `c12fs`); the direct oracle
//! `no-crash` requires that no call of a *mounted* image (test_img = true, i.e. what the CLI can reach) panics
//! or hangs, sig `panic:<file>:<msg>` / `hang:<front>` / `abort:<front>`.
use crate::util::*;
use a2kit::fs::DiskFS;
use a2kit::img::DiskImage;
use a2kit::commands::ItemType;
use std::sync::mpsc;
use std::time::Duration;

const ORACLE: &str = "no-crash";

// ------------------------------------------------------------------------------------------------
// guarded + watched calls (same discipline as family c12)
// ------------------------------------------------------------------------------------------------

#[derive(Clone, Debug, PartialEq)]
enum Outc { Done(String), Hang }

fn panic_sig(p: &str) -> String {
    let (loc, msg) = match p.find(" [") { Some(i) => (&p[..i], &p[i + 2..]), None => (p, "") };
    let file = loc.rsplitn(2, ':').last().unwrap_or(loc);
    let file = match file.find("src/") { Some(i) => &file[i..], None => file };
    let mut m = String::new();
    let mut last_digit = false;
    for c in msg.trim_end_matches(']').chars() {
        if c.is_ascii_digit() { if !last_digit { m.push('N'); } last_digit = true; }
        else if c.is_ascii_alphanumeric() { m.push(c.to_ascii_lowercase()); last_digit = false; }
        else { if !m.ends_with('-') { m.push('-'); } last_digit = false; }
    }
    let m: String = m.trim_matches('-').chars().take(48).collect();
    format!("panic:{}:{}", file, m)
}

fn watched<F>(ms: u64, f: F) -> Outc
where F: FnOnce() -> String + Send + 'static {
    let (tx, rx) = mpsc::channel();
    let h = std::thread::Builder::new().stack_size(16 << 20).spawn(move || { let r = f(); let _ = tx.send(r); });
    let h = match h { Ok(h) => h, Err(_) => return Outc::Hang };
    match rx.recv_timeout(Duration::from_millis(ms)) {
        Ok(s) => { let _ = h.join(); Outc::Done(s) }
        Err(_) => Outc::Hang,
    }
}

/// one guarded call: class + panic site
struct Call { op: String, class: &'static str, site: String }

/// the query that is running right now (read by the watchdog when the case does not come back)
static CUR_OP: std::sync::Mutex<String> = std::sync::Mutex::new(String::new());
fn set_cur_op(op: &str) { let mut g = CUR_OP.lock().unwrap_or_else(|e| e.into_inner()); *g = op.split(':').next().unwrap_or(op).split('=').next().unwrap_or(op).to_string(); }
fn cur_op() -> String { CUR_OP.lock().unwrap_or_else(|e| e.into_inner()).clone() }

fn call<T, E>(op: &str, calls: &mut Vec<Call>, f: impl FnOnce() -> Result<T, E>) -> Option<T> {
    set_cur_op(op);
    match guarded(f) {
        Ok(Ok(v)) => { calls.push(Call { op: op.to_string(), class: "ok", site: String::new() }); Some(v) }
        Ok(Err(_)) => { calls.push(Call { op: op.to_string(), class: "err", site: String::new() }); None }
        Err(p) => { calls.push(Call { op: op.to_string(), class: "panic", site: p }); None }
    }
}

// ------------------------------------------------------------------------------------------------
// cases
// ------------------------------------------------------------------------------------------------

#[derive(Clone)]
struct Case {
    fs: &'static str,
    /// flat image bytes (PO / DO / IMG order = the model's unit order)
    bytes: Vec<u8>,
    unit: usize,
    desc: String,
    /// names whose `get` is tried whatever the listing says
    names: Vec<String>,
    /// extra tokens of the model request (geometry etc.), without the units
    extra: String,
    trivial: bool,
    /// false: direct oracle only (no Lean model of this container / file system yet)
    tie: bool,
}

fn long_name(fs: &str) -> &'static str {
    match fs { "pas" => "pascal", "dos" => "dos33", "d13" => "dos32", "pro" => "prodos", "cpm" => "cpm", "fat" => "fat", "imdfat" => "imd-fat", "imdcpm" => "imd-cpm", "cpk" => "cpm-exm1", _ => "other" }
}

/// a field of the on-disk structures: byte offset in the flat image, width, name, boundary values
#[derive(Clone)]
struct Field { off: usize, width: usize, name: String, vals: Vec<u64> }

fn poke(b: &mut [u8], off: usize, width: usize, v: u64) {
    for k in 0..width { if off + k < b.len() { b[off + k] = ((v >> (8 * k)) & 0xff) as u8; } }
}
fn peek(b: &[u8], off: usize, width: usize) -> u64 {
    let mut v = 0u64; for k in 0..width { if off + k < b.len() { v |= (b[off + k] as u64) << (8 * k); } } v
}

fn dedup(mut v: Vec<u64>, width: usize) -> Vec<u64> {
    let m = if width >= 8 { u64::MAX } else { (1u64 << (8 * width)) - 1 };
    for x in v.iter_mut() { *x &= m; }
    v.sort(); v.dedup(); v
}

/// `<units>:<fill> <i:HEX,i:~XX,…>`: the units of the flat image that are not filled with the fill byte (`-` if none;
/// `~XX` = a unit filled with the byte XX);
/// the fill byte is the one most uniform units are filled with
fn sparse_units(bytes: &[u8], unit: usize) -> String {
    let mut cnt = [0usize; 256];
    for ch in bytes.chunks(unit) { if ch.iter().all(|x| *x == ch[0]) { cnt[ch[0] as usize] += 1; } }
    let fill = (0..256).max_by_key(|k| cnt[*k]).unwrap_or(0) as u8;
    let mut parts: Vec<String> = Vec::new();
    for (i, ch) in bytes.chunks(unit).enumerate() {
        if ch.iter().all(|x| *x == ch[0]) { if ch[0] != fill { parts.push(format!("{}:~{:02X}", i, ch[0])); } }
        else { parts.push(format!("{}:{}", i, hex::encode_upper(ch))); }
    }
    format!("{}:{} {}", bytes.len() / unit, fill, if parts.is_empty() { "-".to_string() } else { parts.join(",") })
}

/// from all fields: every single (field, value); then `n_multi` random 2-3 field combinations
fn cases_from_fields(fs: &'static str, seed: &[u8], unit: usize, names: &[String], extra: &str, fields: &[Field],
                     rng: &mut Rng, n_single: usize, n_multi: usize) -> Vec<Case> {
    let mut out = Vec::new();
    let mut singles: Vec<(usize, u64)> = Vec::new();
    for (i, f) in fields.iter().enumerate() { for v in &f.vals { if *v != peek(seed, f.off, f.width) { singles.push((i, *v)); } } }
    // deterministic sample of the singles
    if singles.len() > n_single {
        for i in 0..n_single { let j = i + rng.below(singles.len() - i); singles.swap(i, j); }
        singles.truncate(n_single);
        singles.sort();
    }
    for (i, v) in singles {
        let f = &fields[i];
        let mut b = seed.to_vec(); poke(&mut b, f.off, f.width, v);
        out.push(Case { fs, bytes: b, unit, desc: format!("{}:={}", f.name, v), names: names.to_vec(), extra: extra.to_string(), trivial: false, tie: true });
    }
    for _ in 0..n_multi {
        let k = 2 + rng.below(2);
        let mut b = seed.to_vec(); let mut d: Vec<String> = Vec::new();
        for _ in 0..k {
            let f = rng.pick(fields).clone();
            if f.vals.is_empty() { continue; }
            let v = *rng.pick(&f.vals);
            poke(&mut b, f.off, f.width, v); d.push(format!("{}:={}", f.name, v));
        }
        let trivial = b == seed;
        out.push(Case { fs, bytes: b, unit, desc: d.join(" "), names: names.to_vec(), extra: extra.to_string(), trivial, tie: true });
    }
    out
}

// ------------------------------------------------------------------------------------------------
// Pascal
// ------------------------------------------------------------------------------------------------

fn pascal_seed() -> Option<(Vec<u8>, Vec<String>)> {
    let img = a2kit::img::dsk_po::PO::create(280);
    let mut d = a2kit::fs::pascal::Disk::from_img(Box::new(img)).ok()?;
    d.format("TEST", 0, None).ok()?;
    let mut disk: Box<dyn DiskFS> = Box::new(d);
    let mut names = Vec::new();
    if disk.write_text("HELLO.TEXT", "HELLO WORLD\nSECOND LINE\n").is_ok() { names.push("HELLO.TEXT".to_string()); }
    let data: Vec<u8> = (0..700u32).map(|i| (i * 7 % 251) as u8).collect();
    if disk.bsave("BIN1.CODE", &data, Some(0x300), None).is_ok() { names.push("BIN1.CODE".to_string()); }
    let big: Vec<u8> = vec![0x5a; 3000];
    if disk.bsave("BIG.DATA", &big, Some(0x2000), None).is_ok() { names.push("BIG.DATA".to_string()); }
    if disk.bsave("LAST.DATA", &[1, 2, 3], Some(0x2000), None).is_ok() { names.push("LAST.DATA".to_string()); }
    if names.len() < 3 { return None; }
    names.push("NOSUCH".to_string());
    Some((disk.get_img().to_bytes(), names))
}

fn pascal_cases(rng: &mut Rng, n_single: usize, n_multi: usize) -> Vec<Case> {
    let Some((seed, names)) = pascal_seed() else { return vec![] };
    let dir = 2 * 512;
    let nfiles = peek(&seed, dir + 16, 2) as usize;
    let hdr_end = peek(&seed, dir + 2, 2);
    let total = peek(&seed, dir + 14, 2);
    let blk16 = |extra: &[u64]| -> Vec<u64> {
        let mut v = vec![0, 1, 2, 3, 5, 6, 7, 19, 20, 21, hdr_end.wrapping_sub(1), hdr_end, hdr_end + 1, total - 1, total, total + 1, 0x7fff, 0x8000, 0xfffe, 0xffff];
        v.extend_from_slice(extra); dedup(v, 2)
    };
    let mut fields: Vec<Field> = Vec::new();
    fields.push(Field { off: dir, width: 2, name: "hdr.begin".into(), vals: blk16(&[]) });
    fields.push(Field { off: dir + 2, width: 2, name: "hdr.end".into(), vals: blk16(&[4, 8, 279, 281, 300]) });
    fields.push(Field { off: dir + 4, width: 2, name: "hdr.type".into(), vals: dedup(vec![0, 1, 0xff, 0x100, 0xffff], 2) });
    fields.push(Field { off: dir + 6, width: 1, name: "hdr.name_len".into(), vals: vec![0, 1, 4, 7, 8, 15, 16, 0x80, 0xff] });
    for k in 0..7 { fields.push(Field { off: dir + 7 + k, width: 1, name: format!("hdr.name[{}]", k), vals: vec![0, 0x1f, 0x20, 0x7e, 0x7f, 0x80, 0xc3, 0xff] }); }
    fields.push(Field { off: dir + 14, width: 2, name: "hdr.total".into(), vals: blk16(&[279, 281, 300]) });
    fields.push(Field { off: dir + 16, width: 2, name: "hdr.num_files".into(), vals: dedup(vec![0, 1, nfiles as u64 - 1, nfiles as u64, nfiles as u64 + 1, 76, 77, 78, 79, 0xff, 0x100, 0xffff], 2) });
    fields.push(Field { off: dir + 18, width: 2, name: "hdr.access".into(), vals: vec![0, 0xffff] });
    fields.push(Field { off: dir + 20, width: 2, name: "hdr.date".into(), vals: vec![0, 1, 0x0010, 0xffff, 0x01ed] });
    // entries: the live ones, the first free slot, the slot that straddles blocks 2/3, the last slot
    let mut slots: Vec<usize> = (0..nfiles + 1).collect();
    slots.extend_from_slice(&[18, 76]);
    for s in slots {
        let e = dir + 26 * (s + 1);
        let beg = peek(&seed, e, 2); let end = peek(&seed, e + 2, 2);
        fields.push(Field { off: e, width: 2, name: format!("e{}.begin", s), vals: blk16(&[beg.wrapping_sub(1), beg + 1, end, end + 1]) });
        fields.push(Field { off: e + 2, width: 2, name: format!("e{}.end", s), vals: blk16(&[beg, beg + 1, beg.wrapping_sub(1), end + 1, end.wrapping_sub(1)]) });
        fields.push(Field { off: e + 4, width: 2, name: format!("e{}.type", s), vals: dedup(vec![0, 1, 2, 3, 5, 8, 9, 0xff, 0x100, 0xffff], 2) });
        fields.push(Field { off: e + 6, width: 1, name: format!("e{}.name_len", s), vals: vec![0, 1, 5, 14, 15, 16, 0x7f, 0x80, 0xff] });
        for k in [0usize, 1, 9, 14] { fields.push(Field { off: e + 7 + k, width: 1, name: format!("e{}.name[{}]", s, k), vals: vec![0, 0x1f, 0x20, 0x2e, 0x7e, 0x7f, 0x80, 0xc3, 0xff] }); }
        fields.push(Field { off: e + 22, width: 2, name: format!("e{}.bytes_remaining", s), vals: dedup(vec![0, 1, 511, 512, 513, 1023, 1024, 0x7fff, 0xffff], 2) });
        fields.push(Field { off: e + 24, width: 2, name: format!("e{}.date", s), vals: vec![0, 1, 0x0010, 0x01ed, 0xffff] });
    }
    // probe: does the real code have repair `c12fs-pascal-name-conversion`? (witness: stale slot with name_len 16)
    let fixed = {
        let mut b = seed.clone();
        let e = dir + 26 * (nfiles + 1);
        poke(&mut b, e, 2, 200); poke(&mut b, e + 2, 2, 201); b[e + 6] = 16;
        let r = guarded(|| { let img = a2kit::img::dsk_po::PO::from_bytes(&b).ok()?; let mut d = a2kit::fs::pascal::Disk::from_img(Box::new(img)).ok()?; d.catalog_to_vec("/").ok() });
        if r.is_ok() { "1" } else { "0" }
    };
    let mut out = vec![Case { fs: "pas", bytes: seed.clone(), unit: 512, desc: "seed".into(), names: names.clone(), extra: fixed.into(), trivial: true, tie: true }];
    // hand-made: a live-looking entry behind num_files (stale slot) with a name the listing cannot convert
    for (what, len, ch) in [("stale-slot-name_len-16", 16u8, b'A'), ("stale-slot-name-byte-ff", 5u8, 0xffu8), ("stale-slot-valid", 5u8, b'A')] {
        let mut b = seed.clone();
        let e = dir + 26 * (nfiles + 1);
        poke(&mut b, e, 2, 200); poke(&mut b, e + 2, 2, 201); poke(&mut b, e + 4, 2, 5); b[e + 6] = len;
        for k in 0..15 { b[e + 7 + k] = ch; }
        poke(&mut b, e + 22, 2, 512);
        out.push(Case { fs: "pas", bytes: b, unit: 512, desc: what.into(), names: names.clone(), extra: fixed.into(), trivial: false, tie: true });
    }
    out.extend(cases_from_fields("pas", &seed, 512, &names, fixed, &fields, rng, n_single, n_multi));
    // second seed: the first unused slot still describes a file (what a delete of the last file leaves behind when
    // only num_files is decremented); the listing walks it, test_img does not
    let mut seed2 = seed.clone();
    {
        let e = dir + 26 * (nfiles + 1);
        poke(&mut seed2, e, 2, 200); poke(&mut seed2, e + 2, 2, 203); poke(&mut seed2, e + 4, 2, 5); seed2[e + 6] = 9;
        for (k, c) in b"STALE.ONE".iter().enumerate() { seed2[e + 7 + k] = *c; }
        poke(&mut seed2, e + 22, 2, 100);
    }
    let tag = format!("e{}.", nfiles);
    let f2: Vec<Field> = fields.iter().filter(|f| f.name.starts_with(&tag) || f.name == "hdr.num_files" || f.name == "hdr.total").cloned().collect();
    let mut names2 = names.clone(); names2.push("STALE.ONE".to_string());
    out.push(Case { fs: "pas", bytes: seed2.clone(), unit: 512, desc: "stale-seed".into(), names: names2.clone(), extra: fixed.into(), trivial: false, tie: true });
    for mut c in cases_from_fields("pas", &seed2, 512, &names2, fixed, &f2, rng, n_single / 4, n_multi / 4) { c.desc = format!("stale-seed {}", c.desc); out.push(c); }
    out
}

/// identify + mount + read-only queries of the Pascal module; one token per call
fn pascal_exercise(bytes: &Vec<u8>, names: &[String]) -> (Vec<Call>, bool) {
    let mut calls = Vec::new();
    let mut mounted = false;
    let Ok(img) = a2kit::img::dsk_po::PO::from_bytes(bytes) else { return (calls, false) };
    let mut bimg: Box<dyn DiskImage> = Box::new(img);
    if let Some(t) = call("id", &mut calls, || Ok::<bool, ()>(a2kit::fs::pascal::Disk::test_img(&mut bimg))) {
        mounted = t;
        if let Some(c) = calls.last_mut() { c.op = format!("id={}", if t { "T" } else { "F" }); }
    }
    let Some(d) = call("mount", &mut calls, || a2kit::fs::pascal::Disk::from_img(bimg)) else { return (calls, mounted) };
    let mut disk: Box<dyn DiskFS> = Box::new(d);
    read_queries(&mut disk, names, &mut calls, false, &|_| true);
    (calls, mounted)
}

/// stat, catalog, tree, glob, get of the fixed names and of every listed name (at most 12 more)
fn read_queries(disk: &mut Box<dyn DiskFS>, names: &[String], calls: &mut Vec<Call>, hier: bool, tied: &dyn Fn(&str) -> bool) {
    if let Some(s) = call("stat", calls, || disk.stat()) { let _ = guarded(|| s.to_json(None)); }
    let cat = call("cat", calls, || disk.catalog_to_vec("/"));
    // a file system whose `tree` is not modelled reports it for the oracle only
    call(if tied("\u{0}tree") { "tree" } else { "xtree" }, calls, || disk.tree(true, None));
    let mut listed: Vec<String> = Vec::new();
    if let Some(g) = call("glob", calls, || disk.glob("*", false)) { listed.extend(g); }
    if hier { if let Some(g) = call("glob2", calls, || disk.glob("*/*", false)) { listed.extend(g); } }
    if let Some(rows) = &cat { for row in rows { if row.len() > 12 { listed.push(row[12..].to_string()); } } }
    listed.sort(); listed.dedup();
    listed.retain(|n| !names.contains(n) && !n.is_empty());
    let mut all: Vec<String> = names.to_vec();
    all.extend(listed.into_iter().take(12));
    for n in all {
        // names the model does not cover (non-ASCII, escapes) are fetched for the oracle only (`xget`)
        let op = if n.is_ascii() && tied(&n) { "get" } else { "xget" };
        if let Some(f) = call(&format!("{}:{}", op, hx(n.as_bytes())), calls, || disk.get(&n)) { let _ = guarded(|| { let _ = f.unpack_raw(true); f.to_json(None) }); }
    }
}


// ------------------------------------------------------------------------------------------------
// DOS 3.x
// ------------------------------------------------------------------------------------------------

fn dos_seed(c: usize) -> Option<(Vec<u8>, Vec<String>)> {
    let mut d = if c == 16 {
        let mut d = a2kit::fs::dos3x::Disk::from_img(Box::new(a2kit::img::dsk_do::DO::create(35, 16))).ok()?;
        d.init33(254, false).ok()?; d
    } else {
        let mut d = a2kit::fs::dos3x::Disk::from_img(Box::new(a2kit::img::dsk_d13::D13::create(35))).ok()?;
        d.init32(254, false).ok()?; d
    };
    let disk: &mut dyn DiskFS = &mut d;
    let mut names = Vec::new();
    if disk.write_text("HELLO", "HELLO WORLD\nSECOND LINE\n").is_ok() { names.push("HELLO".to_string()); }
    let data: Vec<u8> = (0..700u32).map(|i| (i * 7 % 251) as u8).collect();
    if disk.bsave("BIN1", &data, Some(0x300), None).is_ok() { names.push("BIN1".to_string()); }
    let mut t = a2kit::lang::applesoft::tokenizer::Tokenizer::new();
    if let Ok(tok) = t.tokenize("10 PRINT \"HI\"\n20 END\n", 2049) { if disk.save("PROG", &tok, ItemType::ApplesoftTokens, None).is_ok() { names.push("PROG".to_string()); } }
    // more than 122 data sectors: two track/sector lists
    let big: Vec<u8> = vec![0x5a; 33000];
    if disk.bsave("BIG FILE", &big, Some(0x2000), None).is_ok() { names.push("BIG FILE".to_string()); }
    if names.len() < 4 { return None; }
    names.push("NOSUCH".to_string());
    Some((disk.get_img().to_bytes(), names))
}

fn dos_cases(c: usize, rng: &mut Rng, n_single: usize, n_multi: usize) -> Vec<Case> {
    let fs: &'static str = if c == 16 { "dos" } else { "d13" };
    let Some((seed, names)) = dos_seed(c) else { return vec![] };
    let sec = |t: usize, s: usize| (t * c + s) * 256;
    let trk: Vec<u64> = vec![0, 1, 2, 16, 17, 18, 33, 34, 35, 36, 49, 50, 63, 64, 127, 128, 254, 255];
    let sct: Vec<u64> = dedup(vec![0, 1, 2, c as u64 - 2, c as u64 - 1, c as u64, c as u64 + 1, 15, 16, 17, 31, 32, 33, 223, 224, 255], 1);
    let mut fields: Vec<Field> = Vec::new();
    let v = sec(17, 0);
    fields.push(Field { off: v + 1, width: 1, name: "vtoc.track1".into(), vals: trk.clone() });
    fields.push(Field { off: v + 2, width: 1, name: "vtoc.sector1".into(), vals: sct.clone() });
    fields.push(Field { off: v + 3, width: 1, name: "vtoc.version".into(), vals: vec![0, 1, 2, 3, 4, 255] });
    fields.push(Field { off: v + 6, width: 1, name: "vtoc.vol".into(), vals: vec![0, 1, 254, 255] });
    fields.push(Field { off: v + 0x27, width: 1, name: "vtoc.max_pairs".into(), vals: vec![0, 1, 2, 61, 121, 122, 123, 128, 255] });
    fields.push(Field { off: v + 0x30, width: 1, name: "vtoc.last_track".into(), vals: trk.clone() });
    fields.push(Field { off: v + 0x31, width: 1, name: "vtoc.last_direction".into(), vals: vec![0, 1, 2, 255] });
    fields.push(Field { off: v + 0x34, width: 1, name: "vtoc.tracks".into(), vals: trk.clone() });
    fields.push(Field { off: v + 0x35, width: 1, name: "vtoc.sectors".into(), vals: sct.clone() });
    fields.push(Field { off: v + 0x36, width: 2, name: "vtoc.bytes".into(), vals: vec![0, 1, 255, 256, 257, 512, 0x7fff, 0x8000, 0xffff] });
    for t in [0usize, 1, 17, 18, 34] { fields.push(Field { off: v + 0x38 + 4 * t, width: 4, name: format!("vtoc.bitmap[{}]", t), vals: vec![0, 0xffffffff, 0x0000ffff, 0xffff0000, 1, 0x80000000] }); }
    // catalog sectors: the first two of the chain; links (incl. cycles) and the entries in use
    let first = (17usize, c - 1);
    let cat_secs = [first, (17, c - 2)];
    let mut tsls: Vec<(usize, usize)> = Vec::new();
    for (ci, (ct, cs)) in cat_secs.iter().enumerate() {
        let o = sec(*ct, *cs);
        let mut lt = trk.clone(); lt.extend_from_slice(&[*ct as u64]);
        fields.push(Field { off: o + 1, width: 1, name: format!("cat{}.next_track", ci), vals: dedup(lt, 1) });
        let mut ls = sct.clone(); ls.extend_from_slice(&[*cs as u64, first.1 as u64, 0]);
        fields.push(Field { off: o + 2, width: 1, name: format!("cat{}.next_sector", ci), vals: dedup(ls, 1) });
        for k in 0..7 {
            let e = o + 11 + 35 * k;
            let live = seed[e] > 0 && seed[e] < 255;
            if !live && !(ci == 0 && k == 6) && !(ci == 1 && k == 0) { continue; }
            if live { tsls.push((seed[e] as usize, seed[e + 1] as usize)); }
            fields.push(Field { off: e, width: 1, name: format!("cat{}.e{}.tsl_track", ci, k), vals: trk.clone() });
            fields.push(Field { off: e + 1, width: 1, name: format!("cat{}.e{}.tsl_sector", ci, k), vals: sct.clone() });
            fields.push(Field { off: e + 2, width: 1, name: format!("cat{}.e{}.type", ci, k), vals: vec![0, 1, 2, 4, 8, 0x40, 0x7f, 0x80, 0x82, 0x84, 0xff] });
            for j in [0usize, 1, 29] { fields.push(Field { off: e + 3 + j, width: 1, name: format!("cat{}.e{}.name[{}]", ci, k, j), vals: vec![0, 0x20, 0x41, 0x7f, 0x80, 0xa0, 0xc1, 0xdc, 0xfe, 0xff] }); }
            fields.push(Field { off: e + 33, width: 2, name: format!("cat{}.e{}.sectors", ci, k), vals: vec![0, 1, 255, 256, 257, 0x7fff, 0x8000, 0xffff] });
        }
    }
    // track/sector lists of every file (and the continuation of the big one): links, cycles, pairs
    let mut all_tsl = tsls.clone();
    for (t, s) in &tsls { let o = sec(*t, *s); if seed[o + 1] != 0 { all_tsl.push((seed[o + 1] as usize, seed[o + 2] as usize)); } }
    for (i, (t, s)) in all_tsl.iter().enumerate() {
        let o = sec(*t, *s);
        let mut lt = trk.clone(); lt.push(*t as u64); lt.push(tsls[0].0 as u64);
        fields.push(Field { off: o + 1, width: 1, name: format!("tsl{}.next_track", i), vals: dedup(lt, 1) });
        let mut ls = sct.clone(); ls.push(*s as u64); ls.push(tsls[0].1 as u64);
        fields.push(Field { off: o + 2, width: 1, name: format!("tsl{}.next_sector", i), vals: dedup(ls, 1) });
        fields.push(Field { off: o + 5, width: 2, name: format!("tsl{}.sector_base", i), vals: vec![0, 1, 122, 0xffff] });
        for p in [0usize, 1, 2, 60, 120, 121] {
            fields.push(Field { off: o + 12 + 2 * p, width: 1, name: format!("tsl{}.pair{}.track", i, p), vals: trk.clone() });
            fields.push(Field { off: o + 13 + 2 * p, width: 1, name: format!("tsl{}.pair{}.sector", i, p), vals: sct.clone() });
        }
    }
    let extra = format!("{}", c);
    let mut out = vec![Case { fs, bytes: seed.clone(), unit: 256, desc: "seed".into(), names: names.clone(), extra: extra.clone(), trivial: true, tie: true }];
    // hand-made cycles
    for (what, pokes) in [
        ("catalog-self-loop", vec![(sec(17, c - 1) + 1, 17u8), (sec(17, c - 1) + 2, (c - 1) as u8)]),
        ("catalog-two-cycle", vec![(sec(17, c - 2) + 1, 17u8), (sec(17, c - 2) + 2, (c - 1) as u8)]),
        ("catalog-into-vtoc", vec![(sec(17, c - 1) + 1, 17u8), (sec(17, c - 1) + 2, 0u8)]),
        ("tslist-self-loop", vec![(sec(tsls[0].0, tsls[0].1) + 1, tsls[0].0 as u8), (sec(tsls[0].0, tsls[0].1) + 2, tsls[0].1 as u8)]),
        ("tslist-into-vtoc", vec![(sec(tsls[0].0, tsls[0].1) + 1, 17u8), (sec(tsls[0].0, tsls[0].1) + 2, 0u8)]),
        ("tslist-big-cycle", vec![(sec(all_tsl[all_tsl.len() - 1].0, all_tsl[all_tsl.len() - 1].1) + 1, tsls[tsls.len() - 1].0 as u8), (sec(all_tsl[all_tsl.len() - 1].0, all_tsl[all_tsl.len() - 1].1) + 2, tsls[tsls.len() - 1].1 as u8)]),
    ] {
        let mut b = seed.clone();
        for (o, x) in pokes { b[o] = x; }
        out.push(Case { fs, bytes: b, unit: 256, desc: what.into(), names: names.clone(), extra: extra.clone(), trivial: false, tie: true });
    }
    out.extend(cases_from_fields(fs, &seed, 256, &names, &extra, &fields, rng, n_single, n_multi));
    out
}

fn dos_exercise(c: usize, bytes: &Vec<u8>, names: &[String]) -> (Vec<Call>, bool) {
    let mut calls = Vec::new();
    let mut mounted = false;
    let mut bimg: Box<dyn DiskImage> = if c == 16 {
        match a2kit::img::dsk_do::DO::from_bytes(bytes) { Ok(i) => Box::new(i), Err(_) => return (calls, false) }
    } else {
        match a2kit::img::dsk_d13::D13::from_bytes(bytes) { Ok(i) => Box::new(i), Err(_) => return (calls, false) }
    };
    if let Some(t) = call("id", &mut calls, || Ok::<bool, ()>(a2kit::fs::dos3x::Disk::test_img(&mut bimg))) {
        mounted = t;
        if let Some(k) = calls.last_mut() { k.op = format!("id={}", if t { "T" } else { "F" }); }
    }
    let Some(d) = call("mount", &mut calls, || a2kit::fs::dos3x::Disk::from_img(bimg)) else { return (calls, mounted) };
    let mut disk: Box<dyn DiskFS> = Box::new(d);
    // the model covers names without hex escapes
    read_queries(&mut disk, names, &mut calls, false, &|n| !n.contains('\\'));
    (calls, mounted)
}

// ------------------------------------------------------------------------------------------------
// ProDOS
// ------------------------------------------------------------------------------------------------

fn prodos_seed() -> Option<(Vec<u8>, Vec<String>)> {
    let img = a2kit::img::dsk_po::PO::create(280);
    let mut d = a2kit::fs::prodos::Disk::from_img(Box::new(img)).ok()?;
    d.format("NEW.DISK", true, None).ok()?;
    let disk: &mut dyn DiskFS = &mut d;
    let mut names = Vec::new();
    if disk.write_text("HELLO", "HELLO WORLD\nSECOND LINE\n").is_ok() { names.push("HELLO".to_string()); }
    let data: Vec<u8> = (0..700u32).map(|i| (i * 7 % 251) as u8).collect();
    if disk.bsave("BIN1", &data, Some(0x300), None).is_ok() { names.push("BIN1".to_string()); }
    // three sub-directories in the volume directory, two more one level down, files in them
    for dname in ["DIR1", "DIR2", "DIR3", "DIR1/SUB1", "DIR1/SUB2"] { if disk.create(dname).is_err() { return None; } }
    for (pth, txt) in [("DIR1/SUBFILE", "IN A SUBDIRECTORY\n"), ("DIR2/F2", "TWO\n"), ("DIR1/SUB1/DEEP", "DEEP\n")] {
        if disk.write_text(pth, txt).is_ok() { names.push(pth.to_string()); }
    }
    // a sparse tree file: chunks 0 and 300 only
    if let Ok(mut f) = disk.new_fimg(None, false, "TREE") {
        f.chunks.insert(0, vec![1; 512]); f.chunks.insert(300, vec![2; 512]);
        f.fs_type = vec![6]; f.aux = vec![0, 0x20]; f.eof = vec![0, 0x5a, 0x02];
        if disk.put(&f).is_ok() { names.push("TREE".to_string()); }
    }
    if names.len() < 5 { return None; }
    names.push("NOSUCH".to_string()); names.push("DIR1/NOSUCH".to_string());
    Some((disk.get_img().to_bytes(), names))
}

/// directory blocks of the seed: (block, is key block); sub-directory entries: (block of the entry, offset, name)
fn prodos_dirs(seed: &[u8]) -> (Vec<(usize, bool)>, Vec<(usize, usize)>, Vec<(usize, usize)>) {
    let mut blocks: Vec<(usize, bool)> = Vec::new();
    let mut subs: Vec<(usize, usize)> = Vec::new();   // (byte offset of the entry, key pointer)
    let mut files: Vec<(usize, usize)> = Vec::new();  // (byte offset of the entry, storage type)
    let mut todo = vec![2usize];
    let mut seen = std::collections::HashSet::new();
    while let Some(key) = todo.pop() {
        let mut b = key; let mut first = true; let mut reps = 0;
        while b != 0 && b * 512 + 512 <= seed.len() && reps < 20 && seen.insert(b) {
            reps += 1;
            blocks.push((b, first));
            for k in (if first { 1 } else { 0 })..13 {
                let e = b * 512 + 4 + 39 * k;
                let st = seed[e] >> 4;
                if seed[e] == 0 { continue; }
                let ptr = peek(seed, e + 17, 2) as usize;
                if st == 0xD { subs.push((e, ptr)); todo.push(ptr); } else if st >= 1 && st <= 3 { files.push((e, st as usize)); }
            }
            first = false;
            b = peek(seed, b * 512 + 2, 2) as usize;
        }
    }
    (blocks, subs, files)
}


/// a chain of `depth` nested directories `A/A/A/…`; then the sub-directory entry of every level is copied into the
/// next slot under the name `B`: no cycle, no pointer outside the volume, every directory block is a valid one, but
/// the directory graph is a DAG in which level `k` is reachable along `fan^k` paths
fn prodos_dag(depth: usize, fan: usize) -> Option<Vec<u8>> {
    let img = a2kit::img::dsk_po::PO::create(280);
    let mut d = a2kit::fs::prodos::Disk::from_img(Box::new(img)).ok()?;
    d.format("V", true, None).ok()?;
    let disk: &mut dyn DiskFS = &mut d;
    let mut path = String::new();
    for k in 0..depth {
        if k > 0 { path.push('/'); }
        path.push('A');
        disk.create(&path).ok()?;
    }
    disk.write_text(&format!("{}/F", path), "LEAF\n").ok()?;
    let mut b = disk.get_img().to_bytes();
    // walk the chain: the entry `A` is the first entry of every key block (slot 2 = byte 4+39)
    let mut key = 2usize;
    for _ in 0..depth {
        let e = key * 512 + 4 + 39;
        if b[e] >> 4 != 0xD { return None; }
        let next = peek(&b, e + 17, 2) as usize;
        for j in 1..fan {
            let e2 = e + 39 * j;
            if b[e2] != 0 { break; }
            let src: Vec<u8> = b[e..e + 39].to_vec();
            b[e2..e2 + 39].copy_from_slice(&src);
            b[e2 + 1] = b'A' + j as u8;
        }
        key = next;
    }
    Some(b)
}

fn prodos_cases(rng: &mut Rng, n_single: usize, n_multi: usize) -> Vec<Case> {
    let Some((seed, names)) = prodos_seed() else { return vec![] };
    let (blocks, subs, files) = prodos_dirs(&seed);
    let total = 280u64;
    let ptr16 = |extra: &[u64]| -> Vec<u64> { let mut v = vec![0, 1, 2, 3, 5, 6, 7, 8, total - 1, total, total + 1, 0x7fff, 0x8000, 0xffff]; v.extend_from_slice(extra); dedup(v, 2) };
    let dirblocks: Vec<u64> = blocks.iter().map(|b| b.0 as u64).collect();
    let mut fields: Vec<Field> = Vec::new();
    for (b, key) in &blocks {
        let o = b * 512;
        fields.push(Field { off: o, width: 2, name: format!("b{}.prev", b), vals: ptr16(&dirblocks) });
        fields.push(Field { off: o + 2, width: 2, name: format!("b{}.next", b), vals: ptr16(&dirblocks) });
        if *key {
            let h = o + 4;
            fields.push(Field { off: h, width: 1, name: format!("b{}.hdr.stor_len", b), vals: vec![0, 0x0f, 0x10, 0xd3, 0xe0, 0xe3, 0xef, 0xf0, 0xf1, 0xf8, 0xff] });
            for k in [1usize, 2, 15] { fields.push(Field { off: h + k, width: 1, name: format!("b{}.hdr.name[{}]", b, k - 1), vals: vec![0, 0x20, 0x2e, 0x30, 0x41, 0x61, 0x7f, 0x80, 0xff] }); }
            fields.push(Field { off: h + 31, width: 1, name: format!("b{}.hdr.entry_len", b), vals: vec![0, 1, 0x26, 0x27, 0x28, 0xff] });
            fields.push(Field { off: h + 32, width: 1, name: format!("b{}.hdr.entries_per_block", b), vals: vec![0, 1, 12, 13, 14, 255] });
            fields.push(Field { off: h + 33, width: 2, name: format!("b{}.hdr.file_count", b), vals: vec![0, 1, 12, 13, 0xffff] });
            fields.push(Field { off: h + 35, width: 2, name: format!("b{}.hdr.bitmap_or_parent", b), vals: ptr16(&dirblocks) });
            fields.push(Field { off: h + 37, width: 2, name: format!("b{}.hdr.total_or_parent_entry", b), vals: ptr16(&[279, 281, 0x270d, 0x2700, 0x270e]) });
        }
    }
    for (e, ptr) in &subs {
        fields.push(Field { off: *e, width: 1, name: format!("sub@{}.stor_len", e), vals: vec![0, 0x10, 0x14, 0x24, 0x34, 0x44, 0x54, 0xc4, 0xd0, 0xdf, 0xe4, 0xf4] });
        let mut v = dirblocks.clone(); v.push(*ptr as u64 + 1);
        fields.push(Field { off: e + 17, width: 2, name: format!("sub@{}.key_ptr", e), vals: ptr16(&v) });
        fields.push(Field { off: e + 37, width: 2, name: format!("sub@{}.header_ptr", e), vals: ptr16(&dirblocks) });
    }
    let mut idx_blocks: Vec<usize> = Vec::new();
    for (e, st) in &files {
        let key = peek(&seed, e + 17, 2) as usize;
        fields.push(Field { off: *e, width: 1, name: format!("file@{}.stor_len", e), vals: vec![0, 0x10, 0x1f, 0x20, 0x25, 0x30, 0x35, 0x40, 0x45, 0x55, 0xc5, 0xd5, 0xe5, 0xf5] });
        fields.push(Field { off: e + 16, width: 1, name: format!("file@{}.type", e), vals: vec![0, 1, 4, 6, 0x0f, 0xfc, 0xff] });
        fields.push(Field { off: e + 17, width: 2, name: format!("file@{}.key_ptr", e), vals: ptr16(&[key as u64, 2]) });
        fields.push(Field { off: e + 19, width: 2, name: format!("file@{}.blocks_used", e), vals: vec![0, 1, 0xffff] });
        fields.push(Field { off: e + 21, width: 3, name: format!("file@{}.eof", e), vals: vec![0, 1, 511, 512, 513, 0x1ffff, 0x20000, 0x20001, 0xffffff] });
        fields.push(Field { off: e + 24, width: 4, name: format!("file@{}.created", e), vals: vec![0, 0xffffffff, 0x00000001, 0xff3fffff] });
        fields.push(Field { off: e + 33, width: 4, name: format!("file@{}.modified", e), vals: vec![0, 0xffffffff, 0x183c01ff] });
        fields.push(Field { off: e + 30, width: 1, name: format!("file@{}.access", e), vals: vec![0, 1, 0xc3, 0xff] });
        if *st >= 2 && key < 280 { idx_blocks.push(key); }
        if *st == 3 && key < 280 { for i in 0..2 { let p = seed[key * 512 + i] as usize + 256 * seed[key * 512 + 256 + i] as usize; if p > 0 && p < 280 { idx_blocks.push(p); } } }
    }
    for ib in &idx_blocks {
        for i in [0usize, 1, 2, 44, 255] {
            // an index pointer is split: low byte at i, high byte at 256+i
            fields.push(Field { off: ib * 512 + i, width: 1, name: format!("idx{}.lo[{}]", ib, i), vals: vec![0, 1, 2, *ib as u64, 0x17, 0x18, 0x19, 0xff] });
            fields.push(Field { off: ib * 512 + 256 + i, width: 1, name: format!("idx{}.hi[{}]", ib, i), vals: vec![0, 1, 2, 0x80, 0xff] });
        }
    }
    let mut out = vec![Case { fs: "pro", bytes: seed.clone(), unit: 512, desc: "seed".into(), names: names.clone(), extra: String::new(), trivial: true, tie: true }];
    // several sub-directory entries pointing at the same directory (a cycle that can be entered more than once),
    // k = 2..4 entries, targets: the volume key block, the parent, each other, a sibling, an entry block, themselves
    let mut targets: Vec<(String, u64)> = vec![("vol-key".into(), 2), ("vol-entry-block".into(), 3)];
    for (i, (_, p)) in subs.iter().enumerate() { targets.push((format!("sub{}-key", i), *p as u64)); }
    for k in 2..=subs.len().min(5) {
        for (tn, tv) in &targets {
            for start in 0..=(subs.len() - k) {
                let mut b = seed.clone();
                for (e, _) in subs.iter().skip(start).take(k) { poke(&mut b, e + 17, 2, *tv); }
                out.push(Case { fs: "pro", bytes: b, unit: 512, desc: format!("{}-subdirs[{}..]->{}", k, start, tn), names: names.clone(), extra: String::new(), trivial: false, tie: true });
            }
        }
    }
    // every sub-directory entry points at its own parent key block; chain cycles of two blocks
    {
        let mut b = seed.clone();
        for (e, _) in &subs { let parent = (e / 512) as u64; let pk = if parent == 3 || parent == 4 || parent == 5 { 2 } else { parent }; poke(&mut b, e + 17, 2, pk); }
        out.push(Case { fs: "pro", bytes: b, unit: 512, desc: "all-subdirs->own-parent".into(), names: names.clone(), extra: String::new(), trivial: false, tie: true });
        let mut b = seed.clone(); poke(&mut b, 3 * 512 + 2, 2, 2);
        out.push(Case { fs: "pro", bytes: b, unit: 512, desc: "block3.next->2".into(), names: names.clone(), extra: String::new(), trivial: false, tie: true });
        let mut b = seed.clone(); poke(&mut b, 3 * 512 + 2, 2, 3);
        out.push(Case { fs: "pro", bytes: b, unit: 512, desc: "block3.next->3".into(), names: names.clone(), extra: String::new(), trivial: false, tie: true });
    }
    let cs = cases_from_fields("pro", &seed, 512, &names, "", &fields, rng, n_single, n_multi);
    out.extend(cs);
    // directory DAGs: total work of the recursive walks vs the number of directories
    for (depth, fan) in [(4usize, 2usize), (10, 2), (16, 2), (20, 2), (24, 2), (28, 2), (8, 4), (12, 4)] {
        if let Some(b) = prodos_dag(depth, fan) {
            out.push(Case { fs: "pro", bytes: b, unit: 512, desc: format!("dag depth={} fan={}", depth, fan), names: vec!["A/A/A/A/F".to_string()], extra: String::new(), trivial: false, tie: true });
        }
    }
    out
}

fn prodos_exercise(bytes: &Vec<u8>, names: &[String]) -> (Vec<Call>, bool) {
    let mut calls = Vec::new();
    let mut mounted = false;
    let Ok(img) = a2kit::img::dsk_po::PO::from_bytes(bytes) else { return (calls, false) };
    let mut bimg: Box<dyn DiskImage> = Box::new(img);
    if let Some(t) = call("id", &mut calls, || Ok::<bool, ()>(a2kit::fs::prodos::Disk::test_img(&mut bimg))) {
        mounted = t;
        if let Some(c) = calls.last_mut() { c.op = format!("id={}", if t { "T" } else { "F" }); }
    }
    let Some(d) = call("mount", &mut calls, || a2kit::fs::prodos::Disk::from_img(bimg)) else { return (calls, mounted) };
    let mut disk: Box<dyn DiskFS> = Box::new(d);
    read_queries(&mut disk, names, &mut calls, true, &|_| true);
    (calls, mounted)
}


// ------------------------------------------------------------------------------------------------
// FAT (12-bit, 360K IMG)
// ------------------------------------------------------------------------------------------------

struct FatGeo { bps: usize, spc: usize, res: usize, nfats: usize, fatsz: usize, root_ents: usize, root_sec: usize, data_sec: usize, clusters: usize }
fn fat_geo(b: &[u8]) -> FatGeo {
    let bps = peek(b, 11, 2) as usize; let spc = b[13] as usize; let res = peek(b, 14, 2) as usize; let nfats = b[16] as usize;
    let root_ents = peek(b, 17, 2) as usize; let tot = peek(b, 19, 2) as usize; let fatsz = peek(b, 22, 2) as usize;
    let root_sec = res + nfats * fatsz; let data_sec = root_sec + (root_ents * 32 + bps - 1) / bps;
    FatGeo { bps, spc, res, nfats, fatsz, root_ents, root_sec, data_sec, clusters: (tot - data_sec) / spc.max(1) }
}
fn fat12_get(b: &[u8], g: &FatGeo, n: usize) -> usize {
    let o = g.res * g.bps + n * 3 / 2;
    if n % 2 == 0 { b[o] as usize | ((b[o + 1] as usize & 0x0f) << 8) } else { (b[o] as usize >> 4) | ((b[o + 1] as usize) << 4) }
}
/// FAT entry `n` := `val` in every copy of the FAT
fn fat12_set(b: &mut [u8], g: &FatGeo, n: usize, val: usize) {
    for k in 0..g.nfats {
        let o = (g.res + k * g.fatsz) * g.bps + n * 3 / 2;
        if o + 1 >= b.len() { continue; }
        if n % 2 == 0 { b[o] = (val & 0xff) as u8; b[o + 1] = (b[o + 1] & 0xf0) | ((val >> 8) & 0x0f) as u8; }
        else { b[o] = (b[o] & 0x0f) | ((val << 4) & 0xf0) as u8; b[o + 1] = (val >> 4) as u8; }
    }
}
fn fat_clus_off(g: &FatGeo, n: usize) -> usize { (g.data_sec + (n - 2) * g.spc) * g.bps }

fn fat_seed() -> Option<(Vec<u8>, Vec<String>)> {
    let kind = a2kit::img::DiskKind::D525(a2kit::img::names::IBM_DSDD_9);
    let bs = a2kit::bios::bpb::BootSector::create(&kind).ok()?;
    let img = a2kit::img::dsk_img::Img::create(kind);
    let mut d = a2kit::fs::fat::Disk::from_img(Box::new(img), Some(bs)).ok()?;
    d.format("VOLNAME", None).ok()?;
    let disk: &mut dyn DiskFS = &mut d;
    let mut names = Vec::new();
    if disk.write_text("HELLO.TXT", "HELLO WORLD\r\n").is_ok() { names.push("HELLO.TXT".to_string()); }
    let data: Vec<u8> = (0..3000u32).map(|i| (i * 7 % 251) as u8).collect();
    if disk.bsave("BIN1.COM", &data, None, None).is_ok() { names.push("BIN1.COM".to_string()); }
    for dname in ["DIR1", "DIR2", "DIR3", "DIR1/SUB1"] { disk.create(dname).ok()?; }
    for (pth, txt) in [("DIR1/SUB.TXT", "IN A SUBDIRECTORY\r\n"), ("DIR2/F2.TXT", "TWO\r\n"), ("DIR1/SUB1/DEEP.TXT", "DEEP\r\n")] {
        if disk.write_text(pth, txt).is_ok() { names.push(pth.to_string()); }
    }
    if names.len() < 4 { return None; }
    names.push("NOSUCH.TXT".to_string()); names.push("DIR1/NOSUCH".to_string());
    Some((disk.get_img().to_bytes(), names))
}

/// directory regions of the seed: (byte offset of the region, number of 32-byte slots, "root"/cluster)
fn fat_dirs(seed: &[u8], g: &FatGeo) -> Vec<(usize, usize, usize)> {
    let mut v = vec![(g.root_sec * g.bps, g.root_ents, 0usize)];
    let mut i = 0;
    while i < v.len() {
        let (off, n, _) = v[i];
        for k in 0..n {
            let e = off + 32 * k;
            if e + 32 > seed.len() || seed[e] == 0 { break; }
            if seed[e] == 0xe5 || seed[e] == b'.' { continue; }
            if seed[e + 11] & 0x10 != 0 {
                let c = peek(seed, e + 26, 2) as usize;
                if c >= 2 && c < g.clusters + 2 && !v.iter().any(|x| x.2 == c) { v.push((fat_clus_off(g, c), g.spc * g.bps / 32, c)); }
            }
        }
        i += 1;
    }
    v
}

/// `depth` nested directories `A\A\A…`; in every level the entry `A` is copied to the next slot as `B`
fn fat_dag(depth: usize, fan: usize) -> Option<Vec<u8>> {
    let kind = a2kit::img::DiskKind::D525(a2kit::img::names::IBM_DSDD_9);
    let bs = a2kit::bios::bpb::BootSector::create(&kind).ok()?;
    let img = a2kit::img::dsk_img::Img::create(kind);
    let mut d = a2kit::fs::fat::Disk::from_img(Box::new(img), Some(bs)).ok()?;
    d.format("V", None).ok()?;
    let disk: &mut dyn DiskFS = &mut d;
    let mut path = String::new();
    for k in 0..depth { if k > 0 { path.push('/'); } path.push('A'); disk.create(&path).ok()?; }
    disk.write_text(&format!("{}/F.TXT", path), "LEAF\r\n").ok()?;
    let mut b = disk.get_img().to_bytes();
    let g = fat_geo(&b);
    // root: the label is slot 0, `A` slot 1; sub-directories: `.`, `..`, then `A`
    let mut off = g.root_sec * g.bps; let mut slots = g.root_ents;
    for _ in 0..depth {
        let mut found = None;
        for k in 0..slots { let e = off + 32 * k; if b[e] == b'A' && b[e + 11] & 0x10 != 0 { found = Some(e); break; } }
        let e = found?;
        let next = peek(&b, e + 26, 2) as usize;
        for j in 1..fan {
            let mut free = None;
            for k in 0..slots { let e2 = off + 32 * k; if b[e2] == 0 { free = Some(e2); break; } }
            let Some(e2) = free else { break };
            let src: Vec<u8> = b[e..e + 32].to_vec();
            b[e2..e2 + 32].copy_from_slice(&src);
            b[e2] = b'A' + j as u8;
        }
        off = fat_clus_off(&g, next); slots = g.spc * g.bps / 32;
    }
    Some(b)
}

fn fat_cases(rng: &mut Rng, n_single: usize, n_multi: usize) -> Vec<Case> {
    let Some((seed, names)) = fat_seed() else { return vec![] };
    let g = fat_geo(&seed);
    let dirs = fat_dirs(&seed, &g);
    let nclus = g.clusters as u64;
    let ents = (g.fatsz * g.bps * 2 / 3) as u64;
    let clus16 = |extra: &[u64]| -> Vec<u64> { let mut v = vec![0, 1, 2, 3, nclus, nclus + 1, nclus + 2, nclus + 3, ents - 1, ents, ents + 1, 0xff0, 0xff6, 0xff7, 0xff8, 0xfff, 0x1000, 0x7fff, 0xffff]; v.extend_from_slice(extra); dedup(v, 2) };
    let mut fields: Vec<Field> = Vec::new();
    // BPB
    fields.push(Field { off: 11, width: 2, name: "bpb.bytes_per_sec".into(), vals: vec![0, 128, 256, 512, 1024, 4096, 0xffff] });
    fields.push(Field { off: 13, width: 1, name: "bpb.sec_per_clus".into(), vals: vec![0, 1, 2, 3, 4, 64, 128, 255] });
    fields.push(Field { off: 14, width: 2, name: "bpb.reserved".into(), vals: vec![0, 1, 2, 3, 719, 720, 0xffff] });
    fields.push(Field { off: 16, width: 1, name: "bpb.num_fats".into(), vals: vec![0, 1, 2, 3, 255] });
    fields.push(Field { off: 17, width: 2, name: "bpb.root_entries".into(), vals: vec![0, 1, 16, 111, 112, 113, 224, 512, 0x7000, 0xffff] });
    fields.push(Field { off: 19, width: 2, name: "bpb.total16".into(), vals: vec![0, 1, 12, 13, 719, 720, 721, 1440, 0xffff] });
    fields.push(Field { off: 22, width: 2, name: "bpb.fat_size".into(), vals: vec![0, 1, 2, 3, 4, 0xffff] });
    fields.push(Field { off: 24, width: 2, name: "bpb.sec_per_trk".into(), vals: vec![0, 1, 8, 9, 10, 0xffff] });
    fields.push(Field { off: 26, width: 2, name: "bpb.heads".into(), vals: vec![0, 1, 2, 3, 0xffff] });
    fields.push(Field { off: 32, width: 4, name: "bpb.total32".into(), vals: vec![0, 720, 0xffffffff] });
    // directory entries in use (and the first free slot) of every directory
    let mut used_clusters: Vec<usize> = Vec::new();
    for (doff, n, dc) in &dirs {
        let mut seen_free = false;
        for k in 0..*n {
            let e = doff + 32 * k;
            if e + 32 > seed.len() { break; }
            let free = seed[e] == 0;
            if free { if seen_free { break; } seen_free = true; }
            let tag = format!("d{}.e{}", dc, k);
            let c1 = peek(&seed, e + 26, 2);
            if c1 >= 2 && !free { used_clusters.push(c1 as usize); }
            fields.push(Field { off: e, width: 1, name: format!("{}.name0", tag), vals: vec![0, 5, 0x20, 0x2e, 0x41, 0x7f, 0x80, 0xe5, 0xff] });
            for j in [1usize, 7, 8, 10] { fields.push(Field { off: e + j, width: 1, name: format!("{}.name[{}]", tag, j), vals: vec![0, 0x20, 0x2a, 0x2e, 0x2f, 0x3f, 0x41, 0x61, 0x7f, 0x80, 0xff] }); }
            fields.push(Field { off: e + 11, width: 1, name: format!("{}.attr", tag), vals: vec![0, 1, 2, 4, 8, 0x0f, 0x10, 0x18, 0x20, 0x30, 0x40, 0xff] });
            fields.push(Field { off: e + 13, width: 1, name: format!("{}.tenths", tag), vals: vec![0, 199, 200, 255] });
            for (o, nm) in [(14usize, "ctime"), (16, "cdate"), (18, "adate"), (22, "wtime"), (24, "wdate")] {
                fields.push(Field { off: e + o, width: 2, name: format!("{}.{}", tag, nm), vals: vec![0, 1, 0x0021, 0x01e0, 0xbf7d, 0xc000, 0xffff] });
            }
            fields.push(Field { off: e + 20, width: 2, name: format!("{}.cluster_hi", tag), vals: vec![0, 1, 0xffff] });
            let dcs: Vec<u64> = dirs.iter().map(|x| x.2 as u64).collect();
            let mut ex = dcs.clone(); ex.push(c1 + 1); ex.push(c1.wrapping_sub(1));
            fields.push(Field { off: e + 26, width: 2, name: format!("{}.cluster1", tag), vals: clus16(&ex) });
            fields.push(Field { off: e + 28, width: 4, name: format!("{}.size", tag), vals: vec![0, 1, 511, 512, 513, 1024, 1025, 0x7fffffff, 0x80000000, 0xffffffff] });
        }
    }
    let extra = String::new();
    let mut out = vec![Case { fs: "fat", bytes: seed.clone(), unit: 512, desc: "seed".into(), names: names.clone(), extra: extra.clone(), trivial: true, tie: false }];
    // FAT entries of every cluster in use: links incl. self loops, back links, out of range, reserved values
    used_clusters.sort(); used_clusters.dedup();
    let mut chain: Vec<usize> = Vec::new();
    for c in &used_clusters { let mut x = *c; let mut k = 0; while x >= 2 && x < g.clusters + 2 && k < 20 && !chain.contains(&x) { chain.push(x); x = fat12_get(&seed, &g, x); k += 1; } }
    for c in chain.iter().take(24) {
        let mut vals: Vec<usize> = vec![0, 1, 2, *c, c.saturating_sub(1), c + 1, g.clusters + 1, g.clusters + 2, ents as usize - 1, ents as usize, 0xff0, 0xff6, 0xff7, 0xff8, 0xfff];
        vals.extend(used_clusters.iter().take(3));
        vals.sort(); vals.dedup();
        for v in vals {
            if v == fat12_get(&seed, &g, *c) { continue; }
            let mut b = seed.clone(); fat12_set(&mut b, &g, *c, v);
            out.push(Case { fs: "fat", bytes: b, unit: 512, desc: format!("fat[{}]:={}", c, v), names: names.clone(), extra: extra.clone(), trivial: false, tie: false });
        }
    }
    // FAT entries 0 and 1 (media byte, flags), and the copies disagreeing
    for (n, v) in [(0usize, 0usize), (0, 0xfff), (1, 0), (1, 0xff7)] { let mut b = seed.clone(); fat12_set(&mut b, &g, n, v); out.push(Case { fs: "fat", bytes: b, unit: 512, desc: format!("fat[{}]:={}", n, v), names: names.clone(), extra: extra.clone(), trivial: false, tie: false }); }
    // several sub-directory entries pointing at the same directory cluster (cycles that can be entered more than once)
    let subs: Vec<usize> = { let mut v = Vec::new(); for (doff, n, _) in &dirs { for k in 0..*n { let e = doff + 32 * k; if e + 32 > seed.len() || seed[e] == 0 { break; } if seed[e] != 0xe5 && seed[e] != b'.' && seed[e + 11] & 0x10 != 0 { v.push(e); } } } v };
    let mut targets: Vec<(String, u64)> = vec![("root(0)".into(), 0)];
    for e in &subs { targets.push((format!("dir@{}", e), peek(&seed, e + 26, 2))); }
    for k in 2..=subs.len().min(4) {
        for (tn, tv) in &targets {
            for start in 0..=(subs.len() - k) {
                let mut b = seed.clone();
                for e in subs.iter().skip(start).take(k) { poke(&mut b, e + 26, 2, *tv); }
                out.push(Case { fs: "fat", bytes: b, unit: 512, desc: format!("{}-subdirs[{}..]->{}", k, start, tn), names: names.clone(), extra: extra.clone(), trivial: false, tie: false });
            }
        }
    }
    let cs = cases_from_fields("fat", &seed, 512, &names, &extra, &fields, rng, n_single, n_multi);
    out.extend(cs);
    for (depth, fan) in [(4usize, 2usize), (10, 2), (16, 2), (20, 2), (24, 2), (8, 4), (12, 4)] {
        if let Some(b) = fat_dag(depth, fan) {
            out.push(Case { fs: "fat", bytes: b, unit: 512, desc: format!("dag depth={} fan={}", depth, fan), names: vec!["A/A/A/A/F.TXT".to_string()], extra: extra.clone(), trivial: false, tie: false });
        }
    }
    // directed: the BPB's sector size differs from the image's (two or three fields, so that `verify` still accepts the sector);
    // a stored name with a wildcard character is listed and then fetched
    for (tag, pokes) in [("bps1024-root224", vec![(11usize, 2usize, 1024u64), (17, 2, 224)]), ("bps1024-root0-fat1x1", vec![(11, 2, 1024), (17, 2, 0), (22, 2, 1), (16, 1, 1)]),
                         ("bps2048-root448-spc1", vec![(11, 2, 2048), (17, 2, 448), (13, 1, 1)]), ("bps4096-root128", vec![(11, 2, 4096), (17, 2, 128)])] {
        let mut b = seed.clone(); for (o, w, v) in pokes { poke(&mut b, o, w, v); }
        out.push(Case { fs: "fat", bytes: b, unit: 512, desc: format!("directed {}", tag), names: names.clone(), extra: extra.clone(), trivial: false, tie: false });
    }
    for (k, ch) in [(1usize, b'*'), (3, b'?'), (9, b'*')] {
        let e = g.root_sec * g.bps + 32; // the first file entry behind the label
        let mut b = seed.clone(); b[e + k] = ch;
        out.push(Case { fs: "fat", bytes: b, unit: 512, desc: format!("directed root.e1.name[{}]:={}", k, ch), names: names.clone(), extra: extra.clone(), trivial: false, tie: false });
    }
    // the model tie: the model reads sector `n` as unit `n`, the code goes through `get_chs` with the BPB's geometry — the same
    // thing exactly when the BPB's sectors per track and heads are the image's
    let (sz, wf, lf) = fat_probes(&seed);
    let (spt0, heads0) = (peek(&seed, 24, 2), peek(&seed, 26, 2));
    for c in out.iter_mut() {
        c.tie = !c.desc.starts_with("dag ") && peek(&c.bytes, 24, 2) == spt0 && peek(&c.bytes, 26, 2) == heads0;
        c.extra = format!("{} {} {}", sz as u8, wf as u8, lf as u8);
    }
    out
}

/// probes of the real code: (repair `c12fat-sector-size-mismatch` present, repair `c12fat-get-wildcard` present, the volume label
/// is addressable as a file = `build_files` as at the pinned snapshot)
fn fat_probes(seed: &[u8]) -> (bool, bool, bool) {
    static P: std::sync::OnceLock<(bool, bool, bool)> = std::sync::OnceLock::new();
    *P.get_or_init(|| {
        let sz = (|| -> Option<bool> {
            let mut b = seed.to_vec(); poke(&mut b, 11, 2, 1024); poke(&mut b, 17, 2, 224);
            let img = a2kit::img::dsk_img::Img::from_bytes(&b).ok()?;
            let mut bimg: Box<dyn DiskImage> = Box::new(img);
            Some(!guarded(|| a2kit::fs::fat::Disk::test_img(&mut bimg)).unwrap_or(true))
        })().unwrap_or(true);
        let mount = || -> Option<Box<dyn DiskFS>> {
            let img = a2kit::img::dsk_img::Img::from_bytes(&seed.to_vec()).ok()?;
            Some(Box::new(a2kit::fs::fat::Disk::from_img(Box::new(img), None).ok()?))
        };
        let wf = match mount() { Some(mut d) => guarded(|| d.get("A*").is_ok()).is_ok(), None => true };
        let lf = match mount() { Some(mut d) => guarded(|| d.get("VOLNAME").is_ok()).unwrap_or(false), None => false };
        (sz, wf, lf)
    })
}

fn fat_exercise(bytes: &Vec<u8>, names: &[String]) -> (Vec<Call>, bool) {
    let mut calls = Vec::new();
    let mut mounted = false;
    let Ok(img) = a2kit::img::dsk_img::Img::from_bytes(bytes) else { return (calls, false) };
    let mut bimg: Box<dyn DiskImage> = Box::new(img);
    if let Some(t) = call("id", &mut calls, || Ok::<bool, ()>(a2kit::fs::fat::Disk::test_img(&mut bimg))) {
        mounted = t;
        if let Some(c) = calls.last_mut() { c.op = format!("id={}", if t { "T" } else { "F" }); }
    }
    let Some(d) = call("mount", &mut calls, || a2kit::fs::fat::Disk::from_img(bimg, None)) else { return (calls, mounted) };
    let mut disk: Box<dyn DiskFS> = Box::new(d);
    read_queries(&mut disk, names, &mut calls, true, &|_| true);
    (calls, mounted)
}

// ------------------------------------------------------------------------------------------------
// CP/M (Apple II 5.25 inch, DOS-ordered image)
// ------------------------------------------------------------------------------------------------

fn cpm_seed() -> Option<(Vec<u8>, Vec<String>)> {
    let kind = a2kit::img::names::A2_DOS33_KIND;
    let img = a2kit::img::dsk_do::DO::create(35, 16);
    let mut d = a2kit::fs::cpm::Disk::from_img(Box::new(img), a2kit::bios::dpb::DiskParameterBlock::create(&kind), [2, 2, 3]).ok()?;
    d.format("", None).ok()?;
    let disk: &mut dyn DiskFS = &mut d;
    let mut names = Vec::new();
    if disk.write_text("HELLO.TXT", "HELLO WORLD\r\n").is_ok() { names.push("HELLO.TXT".to_string()); }
    let data: Vec<u8> = (0..3000u32).map(|i| (i * 7 % 251) as u8).collect();
    if disk.bsave("BIN1.COM", &data, None, None).is_ok() { names.push("BIN1.COM".to_string()); }
    // more than one extent (16K per extent with 1K blocks)
    let big: Vec<u8> = vec![0x5a; 40000];
    if disk.bsave("BIG.DAT", &big, None, None).is_ok() { names.push("BIG.DAT".to_string()); }
    if disk.bsave("1:USER1.DAT", &data, None, None).is_ok() { names.push("1:USER1.DAT".to_string()); }
    if names.len() < 3 { return None; }
    names.push("NOSUCH.TXT".to_string());
    Some((disk.get_img().to_bytes(), names))
}


/// probes of the real code: (repair `c12fs-cpm-free-blocks-underflow` present, repair `c12fs-cpm-overlapping-extents` present)
fn cpm_probes() -> (bool, bool) {
    static P: std::sync::OnceLock<(bool, bool)> = std::sync::OnceLock::new();
    *P.get_or_init(|| {
        // free blocks: a directory with 16 extents full of pointers on a 128 block volume
        let free_ok = (|| -> Option<bool> {
            let kind = a2kit::img::names::A2_DOS33_KIND;
            let img = a2kit::img::dsk_do::DO::create(35, 16);
            let mut d = a2kit::fs::cpm::Disk::from_img(Box::new(img), a2kit::bios::dpb::DiskParameterBlock::create(&kind), [2, 2, 3]).ok()?;
            d.format("", None).ok()?;
            let mut dir = vec![0xe5u8; 1024];
            for j in 0..16 { let e = 32 * j; dir[e] = 0; for k in 1..12 { dir[e + k] = b'A'; } dir[e + 12] = j as u8; dir[e + 13] = 0; dir[e + 14] = 0; dir[e + 15] = 128; for q in 0..16 { dir[e + 16 + q] = 2 + q as u8; } }
            d.get_img().write_block(a2kit::fs::Block::CPM((0, 3, 3)), &dir).ok()?;
            Some(guarded(|| d.stat().is_ok()).is_ok())
        })().unwrap_or(true);
        let overlap_ok = (|| -> Option<bool> {
            let (seed, _) = cpk_seed()?;
            let dpb = a2kit::bios::dpb::DSDD_525_OFF1;
            let mut img = a2kit::img::imd::Imd::from_bytes(&seed).ok()?;
            let dir0 = img.read_block(a2kit::fs::Block::CPM((0, dpb.bsh, dpb.off))).ok()?;
            let bigs: Vec<usize> = (0..dir0.len() / 32).filter(|k| dir0[32 * k] < 32 && &dir0[32 * k + 1..32 * k + 12] == b"BIG     DAT").collect();
            if bigs.len() < 2 { return None; }
            let b = cpk_poke(&seed, &[(bigs[0], 12, 0), (bigs[1], 12, 1)])?;
            let img = a2kit::img::imd::Imd::from_bytes(&b).ok()?;
            let mut d = a2kit::fs::cpm::Disk::from_img(Box::new(img), dpb.clone(), [3, 1, 0]).ok()?;
            Some(guarded(|| d.get("BIG.DAT").is_ok()).is_ok())
        })().unwrap_or(true);
        (free_ok, overlap_ok)
    })
}

fn cpm_cases(rng: &mut Rng, n_single: usize, n_multi: usize) -> Vec<Case> {
    let Some((seed, names)) = cpm_seed() else { return vec![] };
    // flat offsets of the 48 directory entries: write a numbered pattern through the image layer and look where it lands
    let dir_map: Vec<usize> = {
        let mut probe = a2kit::img::dsk_do::DO::create(35, 16);
        let mut v = vec![usize::MAX; 64];
        for blk in 0..2usize {
            let mut dat = vec![0u8; 1024];
            for k in 0..32 { for j in 0..32 { dat[32 * k + j] = (blk * 32 + k + 1) as u8; } }
            let _ = probe.write_block(a2kit::fs::Block::CPM((blk, 3, 3)), &dat);
        }
        let flat = probe.to_bytes();
        let mut o = 0;
        while o + 32 <= flat.len() { let t = flat[o] as usize; if t > 0 && flat[o..o + 32].iter().all(|x| *x as usize == t) && v[t - 1] == usize::MAX { v[t - 1] = o; } o += 32; }
        v.into_iter().take(48).collect()
    };
    if dir_map.iter().any(|x| *x == usize::MAX) { return vec![]; }
    // the extents in use, and the first unused entries behind them
    let exts: Vec<usize> = dir_map.iter().cloned().filter(|o| seed[*o] < 32).collect();
    let frees: Vec<usize> = dir_map.iter().cloned().filter(|o| seed[*o] == 0xe5).collect();
    if exts.is_empty() || frees.is_empty() { return vec![]; }
    let free = frees[0];
    let mut fields: Vec<Field> = Vec::new();
    let mut all = exts.clone(); all.push(free);
    for (i, e) in all.iter().enumerate() {
        let tag = format!("x{}", i);
        fields.push(Field { off: *e, width: 1, name: format!("{}.user", tag), vals: vec![0, 1, 15, 16, 31, 32, 33, 0x21, 0x7f, 0x80, 0xe5, 0xff] });
        for j in [1usize, 8, 9, 11] { fields.push(Field { off: e + j, width: 1, name: format!("{}.name[{}]", tag, j - 1), vals: vec![0, 0x1f, 0x20, 0x2a, 0x2e, 0x3a, 0x3f, 0x41, 0x61, 0x7f, 0x80, 0xc1, 0xff] }); }
        fields.push(Field { off: e + 12, width: 1, name: format!("{}.ex", tag), vals: vec![0, 1, 2, 30, 31, 32, 0x80, 0xff] });
        fields.push(Field { off: e + 13, width: 1, name: format!("{}.s1", tag), vals: vec![0, 1, 0x80, 0xff] });
        fields.push(Field { off: e + 14, width: 1, name: format!("{}.s2", tag), vals: vec![0, 1, 2, 0x3f, 0x40, 0x80, 0xff] });
        fields.push(Field { off: e + 15, width: 1, name: format!("{}.rc", tag), vals: vec![0, 1, 7, 8, 127, 128, 129, 255] });
        for j in [0usize, 1, 2, 7, 15] { fields.push(Field { off: e + 16 + j, width: 1, name: format!("{}.blk[{}]", tag, j), vals: vec![0, 1, 2, 3, 126, 127, 128, 139, 140, 255] }); }
    }
    let (pf, po) = cpm_probes();
    let extra = cpm_extra(&a2kit::bios::dpb::A2_525, pf, po);
    let mut out = vec![Case { fs: "cpm", bytes: seed.clone(), unit: 256, desc: "seed".into(), names: names.clone(), extra: extra.clone(), trivial: true, tie: true }];
    // duplicate extents (same user, name, extent number): copy one extent over the free slot, with variations
    for (what, mods) in [("dup-extent", vec![]), ("dup-extent-ex+1", vec![(12usize, 1u8)]), ("dup-extent-ex32", vec![(12, 32)]), ("dup-extent-s2", vec![(14, 1)]), ("dup-extent-user31", vec![(0, 31)])] {
        let mut b = seed.clone();
        let src: Vec<u8> = b[exts[0]..exts[0] + 32].to_vec();
        b[free..free + 32].copy_from_slice(&src);
        for (o, v) in mods { b[free + o] = v; }
        out.push(Case { fs: "cpm", bytes: b, unit: 256, desc: what.into(), names: names.clone(), extra: extra.clone(), trivial: false, tie: true });
    }
    // every extent of the big file with the same extent number; all block pointers the same; all zero
    for (what, f) in [("big-all-ex0", 0usize), ("big-all-blocks-2", 1), ("big-rc-255", 2)] {
        let mut b = seed.clone();
        for e in &exts { if &b[e + 1..e + 12] == b"BIG     DAT" { match f { 0 => b[e + 12] = 0, 1 => { for j in 0..16 { b[e + 16 + j] = 2; } } _ => b[e + 15] = 255 } } }
        out.push(Case { fs: "cpm", bytes: b, unit: 256, desc: what.into(), names: names.clone(), extra: extra.clone(), trivial: false, tie: true });
    }
    // more block pointers in the directory than the volume has blocks: k extents of one file, 16 pointers each
    for k in [4usize, 7, 8, 9, 16, 40] {
        let mut b = seed.clone();
        let src: Vec<u8> = b[exts[0]..exts[0] + 32].to_vec();
        for j in 0..k {
            let Some(e) = frees.get(j).cloned() else { break };
            b[e..e + 32].copy_from_slice(&src);
            b[e + 12] = (j + 1) as u8 % 32; b[e + 15] = 128;
            for q in 0..16 { b[e + 16 + q] = 2 + ((j * 16 + q) % 100) as u8; }
        }
        out.push(Case { fs: "cpm", bytes: b, unit: 256, desc: format!("{}-extra-extents-full-of-pointers", k), names: names.clone(), extra: extra.clone(), trivial: false, tie: true });
    }
    let mut cs = cases_from_fields("cpm", &seed, 256, &names, &extra, &fields, rng, n_single, n_multi);
    out.extend(cs);
    out
}

fn cpm_exercise(bytes: &Vec<u8>, names: &[String]) -> (Vec<Call>, bool) {
    let mut calls = Vec::new();
    let mut mounted = false;
    let Ok(img) = a2kit::img::dsk_do::DO::from_bytes(bytes) else { return (calls, false) };
    let mut bimg: Box<dyn DiskImage> = Box::new(img);
    let dpb = a2kit::bios::dpb::A2_525;
    if let Some(t) = call("id", &mut calls, || Ok::<bool, ()>(a2kit::fs::cpm::Disk::test_img(&mut bimg, &dpb, [3, 1, 0]))) {
        mounted = t;
        if let Some(c) = calls.last_mut() { c.op = format!("id={}", if t { "T" } else { "F" }); }
    }
    let Some(d) = call("mount", &mut calls, || a2kit::fs::cpm::Disk::from_img(bimg, dpb.clone(), [3, 1, 0])) else { return (calls, mounted) };
    let mut disk: Box<dyn DiskFS> = Box::new(d);
    read_queries(&mut disk, names, &mut calls, false, &|n| n != "\u{0}tree");
    (calls, mounted)
}


// ------------------------------------------------------------------------------------------------
// CP/M with an extent mask (Kaypro 4 on IMD, EXM = 1): the directory is changed through the image layer
// ------------------------------------------------------------------------------------------------

fn cpk_seed() -> Option<(Vec<u8>, Vec<String>)> {
    let kind = a2kit::img::names::KAYPRO4_KIND;
    let img = a2kit::img::imd::Imd::create(kind);
    let mut d = a2kit::fs::cpm::Disk::from_img(Box::new(img), a2kit::bios::dpb::DiskParameterBlock::create(&kind), [2, 2, 3]).ok()?;
    d.format("", None).ok()?;
    let disk: &mut dyn DiskFS = &mut d;
    let mut names = Vec::new();
    if disk.write_text("HELLO.TXT", "HELLO WORLD\r\n").is_ok() { names.push("HELLO.TXT".to_string()); }
    // three directory entries with EXM = 1 (32K per entry)
    let big: Vec<u8> = vec![0x5a; 70000];
    if disk.bsave("BIG.DAT", &big, None, None).is_ok() { names.push("BIG.DAT".to_string()); }
    let data: Vec<u8> = (0..3000u32).map(|i| (i * 7 % 251) as u8).collect();
    if disk.bsave("BIN1.COM", &data, None, None).is_ok() { names.push("BIN1.COM".to_string()); }
    if names.len() < 3 { return None; }
    names.push("NOSUCH.TXT".to_string());
    Some((disk.get_img().to_bytes(), names))
}

/// byte `off` of directory entry `ent` := `val`, written through the image layer
fn cpk_poke(seed: &[u8], pokes: &[(usize, usize, u8)]) -> Option<Vec<u8>> {
    let dpb = a2kit::bios::dpb::DSDD_525_OFF1;
    let mut img = a2kit::img::imd::Imd::from_bytes(seed).ok()?;
    let bs = dpb.block_size();
    for (ent, off, val) in pokes {
        let blk = ent * 32 / bs;
        let mut dat = img.read_block(a2kit::fs::Block::CPM((blk, dpb.bsh, dpb.off))).ok()?;
        dat[ent * 32 % bs + off] = *val;
        img.write_block(a2kit::fs::Block::CPM((blk, dpb.bsh, dpb.off)), &dat).ok()?;
    }
    Some(img.to_bytes())
}

fn cpk_cases(rng: &mut Rng, n_single: usize, n_multi: usize) -> Vec<Case> {
    let Some((seed, names)) = cpk_seed() else { return vec![] };
    let dpb = a2kit::bios::dpb::DSDD_525_OFF1;
    let (pf, po) = cpm_probes();
    let xt = cpm_extra(&dpb, pf, po);
    let Ok(mut img) = a2kit::img::imd::Imd::from_bytes(&seed) else { return vec![] };
    let Ok(dir0) = img.read_block(a2kit::fs::Block::CPM((0, dpb.bsh, dpb.off))) else { return vec![] };
    let used: Vec<usize> = (0..dir0.len() / 32).filter(|k| dir0[32 * k] < 32).collect();
    let Some(free) = (0..dir0.len() / 32).find(|k| dir0[32 * k] == 0xe5) else { return vec![] };
    let mut out = vec![Case { fs: "cpk", bytes: seed.clone(), unit: 2048, desc: "seed".into(), names: names.clone(), extra: xt.clone(), trivial: true, tie: true }];
    // field table: (entry, offset, values)
    let mut tab: Vec<(usize, usize, String, Vec<u8>)> = Vec::new();
    let mut all = used.clone(); all.push(free);
    for e in &all {
        tab.push((*e, 0, format!("x{}.user", e), vec![0, 1, 15, 16, 31, 32, 33, 0x21, 0x80, 0xe5, 0xff]));
        for j in [1usize, 8, 9, 11] { tab.push((*e, j, format!("x{}.name[{}]", e, j - 1), vec![0, 0x20, 0x2a, 0x3a, 0x3f, 0x41, 0x61, 0x7f, 0x80, 0xc1, 0xff])); }
        tab.push((*e, 12, format!("x{}.ex", e), vec![0, 1, 2, 3, 4, 5, 30, 31, 32, 0x80, 0xff]));
        tab.push((*e, 13, format!("x{}.s1", e), vec![0, 1, 0x80, 0xff]));
        tab.push((*e, 14, format!("x{}.s2", e), vec![0, 1, 2, 0x3f, 0x40, 0x80, 0xff]));
        tab.push((*e, 15, format!("x{}.rc", e), vec![0, 1, 127, 128, 129, 255]));
        for j in [0usize, 1, 7, 15] { tab.push((*e, 16 + j, format!("x{}.blk[{}]", e, j), vec![0, 1, 2, 3, 195, 196, 197, 255])); }
    }
    let mut singles: Vec<(usize, u8)> = Vec::new();
    for (i, t) in tab.iter().enumerate() { for v in &t.3 { if dir0[t.0 * 32 + t.1] != *v { singles.push((i, *v)); } } }
    if singles.len() > n_single { for i in 0..n_single { let j = i + rng.below(singles.len() - i); singles.swap(i, j); } singles.truncate(n_single); singles.sort(); }
    for (i, v) in singles {
        let t = &tab[i];
        if let Some(b) = cpk_poke(&seed, &[(t.0, t.1, v)]) { out.push(Case { fs: "cpk", bytes: b, unit: 2048, desc: format!("{}:={}", t.2, v), names: names.clone(), extra: xt.clone(), trivial: false, tie: true }); }
    }
    for _ in 0..n_multi {
        let k = 2 + rng.below(2);
        let mut pk = Vec::new(); let mut d = Vec::new();
        for _ in 0..k { let t = rng.pick(&tab).clone(); let v = *rng.pick(&t.3); pk.push((t.0, t.1, v)); d.push(format!("{}:={}", t.2, v)); }
        if let Some(b) = cpk_poke(&seed, &pk) { let trivial = b == seed; out.push(Case { fs: "cpk", bytes: b, unit: 2048, desc: d.join(" "), names: names.clone(), extra: xt.clone(), trivial, tie: true }); }
    }
    // extent numbers of the big file: every pair of (first entry, second entry) values 0..5
    let bigs: Vec<usize> = used.iter().cloned().filter(|k| &dir0[32 * k + 1..32 * k + 12] == b"BIG     DAT").collect();
    if bigs.len() >= 2 {
        for a in 0..6u8 { for b2 in 0..6u8 {
            if let Some(b) = cpk_poke(&seed, &[(bigs[0], 12, a), (bigs[1], 12, b2)]) {
                out.push(Case { fs: "cpk", bytes: b, unit: 2048, desc: format!("big.ex0:={} big.ex1:={}", a, b2), names: names.clone(), extra: xt.clone(), trivial: false, tie: true });
            }
        } }
    }
    out
}

fn cpk_exercise(bytes: &Vec<u8>, names: &[String]) -> (Vec<Call>, bool) {
    let mut calls = Vec::new();
    let mut mounted = false;
    let Ok(img) = a2kit::img::imd::Imd::from_bytes(bytes) else { return (calls, false) };
    let mut bimg: Box<dyn DiskImage> = Box::new(img);
    let dpb = a2kit::bios::dpb::DSDD_525_OFF1;
    if let Some(t) = call("id", &mut calls, || Ok::<bool, ()>(a2kit::fs::cpm::Disk::test_img(&mut bimg, &dpb, [3, 1, 0]))) {
        mounted = t;
        if let Some(c) = calls.last_mut() { c.op = format!("id={}", if t { "T" } else { "F" }); }
    }
    let Some(d) = call("mount", &mut calls, || a2kit::fs::cpm::Disk::from_img(bimg, dpb.clone(), [3, 1, 0])) else { return (calls, mounted) };
    let mut disk: Box<dyn DiskFS> = Box::new(d);
    read_queries(&mut disk, names, &mut calls, false, &|n| n != "\u{0}tree");
    (calls, mounted)
}

/// the allocation blocks `0..=dsm` as the image layer returns them (the units of the CP/M model), and the request tail
fn cpm_model_units(c: &Case) -> Option<(usize, Vec<u8>)> {
    let (mut img, dpb): (Box<dyn DiskImage>, a2kit::bios::dpb::DiskParameterBlock) = match c.fs {
        "cpm" => (Box::new(a2kit::img::dsk_do::DO::from_bytes(&c.bytes).ok()?), a2kit::bios::dpb::A2_525),
        "cpk" => (Box::new(a2kit::img::imd::Imd::from_bytes(&c.bytes).ok()?), a2kit::bios::dpb::DSDD_525_OFF1),
        _ => return None,
    };
    let bs = dpb.block_size();
    let mut flat = Vec::with_capacity((dpb.dsm as usize + 1) * bs);
    for b in 0..=(dpb.dsm as usize) {
        let dat = img.read_block(a2kit::fs::Block::CPM((b, dpb.bsh, dpb.off))).ok()?;
        if dat.len() != bs { return None; }
        flat.extend_from_slice(&dat);
    }
    Some((bs, flat))
}
fn cpm_extra(dpb: &a2kit::bios::dpb::DiskParameterBlock, fix_free: bool, fix_overlap: bool) -> String {
    format!("{} {} {} {} {} {} {} {}", dpb.bsh, dpb.exm, dpb.dsm, dpb.drm, dpb.al0, dpb.al1, if fix_free { 1 } else { 0 }, if fix_overlap { 1 } else { 0 })
}

// ------------------------------------------------------------------------------------------------
// IMD containers with mixed sector record types around a valid FAT / CP/M volume (oracle only)
// ------------------------------------------------------------------------------------------------

fn imd_rec_len(typ: u8, shift: u8) -> Option<usize> {
    match typ { 0 => Some(1), 1 | 3 | 5 | 7 => Some(1 + (128usize << shift)), 2 | 4 | 6 | 8 => Some(2), _ => None }
}

/// one track of an IMD file: (offset of the track header, cyl, head, sector ids, shift, offsets of the records)
struct ImdTrack { cyl: u8, head: u8, shift: u8, recs: Vec<(usize, usize)> }

fn imd_parse(imd: &[u8]) -> Option<(usize, Vec<ImdTrack>)> {
    let mut ptr = imd.iter().position(|b| *b == 0x1a)? + 1;
    let start = ptr;
    let mut tracks = Vec::new();
    while ptr + 5 <= imd.len() {
        let (c, h, nsec, shift) = (imd[ptr + 1], imd[ptr + 2], imd[ptr + 3] as usize, imd[ptr + 4]);
        let mut hdr = 5 + nsec;
        if h & 0x80 > 0 { hdr += nsec; }
        if h & 0x40 > 0 { hdr += nsec; }
        ptr += hdr;
        let mut recs = Vec::new();
        for _ in 0..nsec {
            if ptr >= imd.len() { return None; }
            let len = imd_rec_len(imd[ptr], shift)?;
            recs.push((ptr, len));
            ptr += len;
        }
        tracks.push(ImdTrack { cyl: c, head: h & 0x3f, shift, recs });
    }
    Some((start, tracks))
}

/// re-encode: `f(track index, position in the sector map, record bytes)` → replacement record (None = keep)
fn imd_reencode(imd: &[u8], tracks: &[ImdTrack], f: &dyn Fn(usize, usize, &[u8]) -> Option<Vec<u8>>) -> Vec<u8> {
    let mut out = Vec::with_capacity(imd.len());
    let mut last = 0usize;
    for (ti, t) in tracks.iter().enumerate() {
        for (pos, (off, len)) in t.recs.iter().enumerate() {
            if let Some(rep) = f(ti, pos, &imd[*off..*off + *len]) {
                out.extend_from_slice(&imd[last..*off]);
                out.extend_from_slice(&rep);
                last = *off + *len;
            }
        }
    }
    out.extend_from_slice(&imd[last..]);
    out
}

fn imd_seed(fs: &str) -> Option<Vec<u8>> {
    let big: Vec<u8> = (0..30000u32).map(|i| (i % 253) as u8).collect();
    let small: Vec<u8> = (0..1500u32).map(|i| (i * 3 % 251) as u8).collect();
    if fs == "fat" {
        let kind = a2kit::img::DiskKind::D525(a2kit::img::names::IBM_DSDD_9);
        let bs = a2kit::bios::bpb::BootSector::create(&kind).ok()?;
        let img = a2kit::img::imd::Imd::create(kind);
        let mut d = a2kit::fs::fat::Disk::from_img(Box::new(img), Some(bs)).ok()?;
        d.format("VOLNAME", None).ok()?;
        let disk: &mut dyn DiskFS = &mut d;
        disk.write_text("HELLO.TXT", "HELLO WORLD\r\n").ok()?;
        disk.bsave("BIG.DAT", &big, None, None).ok()?;
        disk.bsave("SMALL.DAT", &small, None, None).ok()?;
        disk.create("DIR1").ok()?;
        disk.bsave("DIR1/SUB.DAT", &small, None, None).ok()?;
        disk.bsave("LAST.DAT", &small, None, None).ok()?;
        Some(disk.get_img().to_bytes())
    } else {
        let kind = a2kit::img::names::OSBORNE1_DD_KIND;
        let img = a2kit::img::imd::Imd::create(kind);
        let mut d = a2kit::fs::cpm::Disk::from_img(Box::new(img), a2kit::bios::dpb::DiskParameterBlock::create(&kind), [2, 2, 3]).ok()?;
        d.format("", None).ok()?;
        let disk: &mut dyn DiskFS = &mut d;
        disk.write_text("HELLO.TXT", "HELLO WORLD\r\n").ok()?;
        disk.bsave("BIG.DAT", &big, None, None).ok()?;
        disk.bsave("SMALL.DAT", &small, None, None).ok()?;
        disk.bsave("LAST.DAT", &small, None, None).ok()?;
        Some(disk.get_img().to_bytes())
    }
}

fn imd_cases(rng: &mut Rng, thorough: bool) -> Vec<Case> {
    let mut out = Vec::new();
    for (fs, tag) in [("fat", "imdfat"), ("cpm", "imdcpm")] {
        let Some(seed) = imd_seed(fs) else { continue };
        let Some((_, tracks)) = imd_parse(&seed) else { continue };
        let tag: &'static str = tag;
        out.push(Case { fs: tag, bytes: seed.clone(), unit: 512, desc: "seed".into(), names: vec![], extra: String::new(), trivial: true, tie: false });
        // tracks that hold data (not uniform) come first; plus a few others
        let busy: Vec<usize> = (0..tracks.len()).filter(|ti| tracks[*ti].recs.iter().any(|(o, l)| *l > 2 && seed[*o + 1..*o + *l].iter().any(|b| *b != seed[*o + 1]))).collect();
        let mut chosen: Vec<usize> = busy.iter().cloned().take(if thorough { 40 } else { 12 }).collect();
        for _ in 0..(if thorough { 20 } else { 4 }) { chosen.push(rng.below(tracks.len())); }
        chosen.sort(); chosen.dedup();
        let unavailable = |_: &[u8]| Some(vec![0u8]);
        for ti in chosen {
            let n = tracks[ti].recs.len();
            let what = format!("cyl{}h{}", tracks[ti].cyl, tracks[ti].head);
            // (a) the first k records unavailable (the rest of the track must still be readable)
            for k in 1..=3usize.min(n) {
                let b = imd_reencode(&seed, &tracks, &|t, p, r| if t == ti && p < k { unavailable(r) } else { None });
                out.push(Case { fs: tag, bytes: b, unit: 512, desc: format!("{} first-{}-unavailable", what, k), names: vec![], extra: String::new(), trivial: false, tie: false });
            }
            // (b) every other record unavailable; the last one unavailable; all but the last unavailable
            let b = imd_reencode(&seed, &tracks, &|t, p, r| if t == ti && p % 2 == 0 { unavailable(r) } else { None });
            out.push(Case { fs: tag, bytes: b, unit: 512, desc: format!("{} even-unavailable", what), names: vec![], extra: String::new(), trivial: false, tie: false });
            let b = imd_reencode(&seed, &tracks, &|t, p, r| if t == ti && p + 1 == n { unavailable(r) } else { None });
            out.push(Case { fs: tag, bytes: b, unit: 512, desc: format!("{} last-unavailable", what), names: vec![], extra: String::new(), trivial: false, tie: false });
            let b = imd_reencode(&seed, &tracks, &|t, p, r| if t == ti && p + 1 < n { unavailable(r) } else { None });
            out.push(Case { fs: tag, bytes: b, unit: 512, desc: format!("{} all-but-last-unavailable", what), names: vec![], extra: String::new(), trivial: false, tie: false });
            // (c) uniform sectors compressed (type 2), data sectors flagged deleted / error (types 3, 5, 7 keep their length)
            let b = imd_reencode(&seed, &tracks, &|t, _, r| if t == ti && r.len() > 2 && r[1..].iter().all(|x| *x == r[1]) { Some(vec![2, r[1]]) } else { None });
            out.push(Case { fs: tag, bytes: b, unit: 512, desc: format!("{} uniform-compressed", what), names: vec![], extra: String::new(), trivial: false, tie: false });
            for ty in [3u8, 5, 7] {
                let b = imd_reencode(&seed, &tracks, &|t, p, r| if t == ti && p % 3 == 1 && r.len() > 2 { let mut v = r.to_vec(); v[0] = ty; Some(v) } else { None });
                out.push(Case { fs: tag, bytes: b, unit: 512, desc: format!("{} type-{}", what, ty), names: vec![], extra: String::new(), trivial: false, tie: false });
            }
            // (d) mixed: unavailable + compressed + flagged on one track
            let b = imd_reencode(&seed, &tracks, &|t, p, r| if t != ti { None } else if p == 0 || p == 2 { unavailable(r) } else if p == 1 && r.len() > 2 { Some(vec![4, r[1]]) } else if p == 3 && r.len() > 2 { let mut v = r.to_vec(); v[0] = 5; Some(v) } else { None });
            out.push(Case { fs: tag, bytes: b, unit: 512, desc: format!("{} mixed", what), names: vec![], extra: String::new(), trivial: false, tie: false });
        }
    }
    out
}

/// identify + mount through the generic entry point, then the read-only queries
fn generic_exercise(bytes: &Vec<u8>, ext: &str) -> (Vec<Call>, bool) {
    let mut calls = Vec::new();
    let Some(mut disk) = call("mount", &mut calls, || a2kit::create_fs_from_bytestream(bytes, Some(ext))) else { return (calls, false) };
    read_queries(&mut disk, &[], &mut calls, true, &|_| false);
    (calls, true)
}

// ------------------------------------------------------------------------------------------------
// run
// ------------------------------------------------------------------------------------------------

struct Run<'a> {
    ctx: &'a mut Ctx,
    w: std::io::LineWriter<std::fs::File>,
    cur_path: String,
    start: usize,
    idx: usize,
}

impl<'a> Run<'a> {
    fn claim(&mut self) -> Option<usize> {
        let i = self.idx; self.idx += 1;
        if i >= self.start && self.ctx.out.wants(i) { Some(i) } else { None }
    }
    fn line(&mut self, s: String) { use std::io::Write; let _ = writeln!(self.w, "{}", s.replace('\n', " ")); }
    fn mark(&mut self, idx: usize, front: &str, desc: &str) {
        let _ = std::fs::write(&self.cur_path, format!("{}\t{}\t{}", idx, front, desc.replace('\t', " ").replace('\n', " ")));
    }
}

fn exercise(c: &Case) -> (Vec<Call>, bool) {
    match c.fs {
        "pas" => pascal_exercise(&c.bytes, &c.names),
        "dos" => dos_exercise(16, &c.bytes, &c.names),
        "d13" => dos_exercise(13, &c.bytes, &c.names),
        "pro" => prodos_exercise(&c.bytes, &c.names),
        "fat" => fat_exercise(&c.bytes, &c.names),
        "cpm" => cpm_exercise(&c.bytes, &c.names),
        "cpk" => cpk_exercise(&c.bytes, &c.names),
        "imdfat" | "imdcpm" => generic_exercise(&c.bytes, "imd"),
        _ => (Vec::new(), false),
    }
}

fn all_cases(ctx: &Ctx) -> Vec<Case> {
    let mut rng0 = Rng::new(ctx.seed ^ 0xC12F5);
    let mut v = Vec::new();
    let mut g = rng0.fork(1);
    v.extend(pascal_cases(&mut g, ctx.n(300, 6000), ctx.n(200, 6000)));
    let mut g = rng0.fork(2);
    v.extend(dos_cases(16, &mut g, ctx.n(350, 8000), ctx.n(250, 8000)));
    let mut g = rng0.fork(3);
    v.extend(dos_cases(13, &mut g, ctx.n(100, 4000), ctx.n(100, 4000)));
    let mut g = rng0.fork(4);
    v.extend(prodos_cases(&mut g, ctx.n(400, 8000), ctx.n(300, 8000)));
    let mut g = rng0.fork(5);
    v.extend(imd_cases(&mut g, ctx.tier_thorough));
    let mut g = rng0.fork(6);
    v.extend(fat_cases(&mut g, ctx.n(300, 8000), ctx.n(250, 8000)));
    let mut g = rng0.fork(7);
    v.extend(cpm_cases(&mut g, ctx.n(250, 6000), ctx.n(200, 6000)));
    let mut g = rng0.fork(8);
    v.extend(cpk_cases(&mut g, ctx.n(120, 3000), ctx.n(100, 3000)));
    v
}

/// The cases run in this child process; a case that does not come back within the time limit is recorded as
/// `hang:<fs>/<query>` and the child exits (its runaway thread cannot be stopped otherwise); the parent starts
/// the next child behind that case.
fn child(ctx: &mut Ctx, start: usize, rec_path: &str) {
    let f = std::fs::File::create(rec_path).expect("create record file");
    let cases = all_cases(ctx);
    let mut r = Run { ctx, w: std::io::LineWriter::new(f), cur_path: format!("{}.cur", rec_path), start, idx: 0 };
    let skip: Vec<String> = std::env::var("C12FS_SKIP").unwrap_or_default().split(',').map(|x| x.to_string()).collect();
    for c in cases {
        let Some(idx) = r.claim() else { continue };
        let front = format!("fs/{}", long_name(c.fs));
        if skip.iter().any(|x| x == c.fs) { r.line(format!("D\tskipped-after-hangs:{}\t1", long_name(c.fs))); continue; }
        r.mark(idx, &front, &c.desc);
        let c2 = c.clone();
        set_cur_op("start");
        let o = watched(8000, move || {
            let (calls, mounted) = exercise(&c2);
            let mut s = format!("{}", if mounted { "M" } else { "U" });
            for k in &calls { s += &format!("\x1f{}\x1e{}\x1e{}", k.op, k.class, k.site); }
            s
        });
        match o {
            Outc::Hang => {
                let op = cur_op();
                r.line(format!("O\tFAIL\t{}\thang:{}/{}\tidx={} front={} op={} no answer within 8 s input={}", ORACLE, long_name(c.fs), op, idx, front, op, c.desc));
                r.line(format!("D\t{}:hang\t1", c.fs));
                r.line(format!("C\t{:016X}\t1", fnv(&[c.fs.as_bytes(), c.desc.as_bytes()].concat())));
                r.line(format!("X\t{}\t{}", idx, c.fs));
                std::process::exit(0);
            }
            Outc::Done(s) => {
                let mut parts = s.split('\x1f');
                let mounted = parts.next() == Some("M");
                let mut toks: Vec<String> = Vec::new();
                let mut fail: Option<(String, String)> = None;
                let mut any_panic = false;
                for p in parts {
                    let f: Vec<&str> = p.split('\x1e').collect();
                    if f.len() < 3 { continue; }
                    if !f[0].starts_with("xget:") && f[0] != "xtree" { toks.push(format!("{}:{}", f[0], f[1])); }
                    if f[1] == "panic" { any_panic = true; if fail.is_none() { fail = Some((f[0].to_string(), f[2].to_string())); } }
                }
                let munits = if c.tie && (c.fs == "cpm" || c.fs == "cpk") { cpm_model_units(&c) } else { None };
                if c.tie && (munits.is_some() || !(c.fs == "cpm" || c.fs == "cpk")) {
                    // the tie: same classes from the model
                    let got: Vec<String> = toks.iter().filter(|t| t.starts_with("get:")).map(|t| t[4..].split(':').next().unwrap_or("").to_string()).collect();
                    let (mbytes, munit): (&[u8], usize) = match &munits { Some((u, f)) => (&f[..], *u), None => (&c.bytes[..], c.unit) };
                    // FAT: the implementation's tokens travel with the request (echoed where the model answers `unmodelled`)
                    let qtoks: Vec<String> = toks.clone();
                    let req = format!("c12fs {} {} {}{}{}", match c.fs { "d13" => "dos", "cpk" => "cpm", x => x }, sparse_units(mbytes, munit),
                        if got.is_empty() { "-".to_string() } else { got.join(",") },
                        if c.extra.is_empty() { String::new() } else { format!(" {}", c.extra) },
                        if c.fs == "fat" { format!(" {}", qtoks.join(",")) } else { String::new() });
                    r.line(format!("Q\t{}\t{}", req, qtoks.join(" ")));
                }
                r.line(format!("D\t{}:{}{}\t1", c.fs, if mounted { "mounted" } else { "not-mounted" }, if any_panic { ":panic" } else { "" }));
                match (&fail, mounted) {
                    (Some((op, site)), true) => r.line(format!("O\tFAIL\t{}\t{}\tidx={} front={} op={} at={} input={}", ORACLE, panic_sig(site), idx, front, op, site, c.desc)),
                    _ => r.line(format!("O\tPASS\t{}\t-\tidx={} {}", ORACLE, idx, front)),
                }
                let traced = match std::env::var("C12FS_TRACE") { Ok(t) => !t.is_empty() && c.desc.contains(&t), Err(_) => false };
                if c.trivial { r.line(format!("S\t{} {}: {}", long_name(c.fs), c.desc, toks.join(" "))); }
                if traced { r.line(format!("D\ttrace {} {}: {}\t1", long_name(c.fs), c.desc, toks.join(" "))); }
            }
        }
        r.line(format!("C\t{:016X}\t{}", fnv(&[c.fs.as_bytes(), c.desc.as_bytes()].concat()), if c.trivial { 0 } else { 1 }));
    }
    r.line("END".to_string());
}

pub fn run(ctx: &mut Ctx) {
    if let Ok(spec) = std::env::var("C12FS_CHILD") {
        let (a, b) = spec.split_once(':').expect("C12FS_CHILD");
        child(ctx, a.parse().expect("C12FS_CHILD idx"), b);
        return;
    }
    let exe = std::env::current_exe().expect("current_exe");
    let tier = if ctx.tier_thorough { "thorough" } else { "quick" };
    let tmp = std::env::temp_dir().join(format!("c12fs-{}-{}", std::process::id(), ctx.seed));
    let rec = format!("{}.rec", tmp.display());
    let mut start = 0usize;
    let mut restarts = 0;
    let mut hangs: std::collections::BTreeMap<String, usize> = Default::default();
    let mut dist: std::collections::BTreeMap<String, u64> = Default::default();
    loop {
        let _ = std::fs::remove_file(format!("{}.cur", rec));
        let mut cmd = std::process::Command::new(&exe);
        cmd.arg("c12fs").arg(tier).arg(ctx.seed.to_string()).arg(format!("{}.ctxout", tmp.display()));
        if let Some(k) = ctx.out.only { cmd.arg("--only").arg(k.to_string()); }
        cmd.env("C12FS_CHILD", format!("{}:{}", start, rec)).stdout(std::process::Stdio::null());
        // a file system whose queries hung twice is not exercised further in this run (each hang costs the time limit)
        cmd.env("C12FS_SKIP", hangs.iter().filter(|(_, n)| **n >= 2).map(|(k, _)| k.clone()).collect::<Vec<_>>().join(","));
        match std::fs::File::create(format!("{}.err", tmp.display())) { Ok(f) => { cmd.stderr(f); } Err(_) => { cmd.stderr(std::process::Stdio::null()); } }
        die_with_parent(&mut cmd);
        let status = cmd.status();
        let mut ended = false;
        let mut hang_exit: Option<usize> = None;
        let mut hang_fs = String::new();
        if let Ok(text) = std::fs::read(&rec) {
            for line in String::from_utf8_lossy(&text).lines() {
                let p: Vec<&str> = line.split('\t').collect();
                match p[0] {
                    "Q" if p.len() >= 3 => ctx.out.q(p[1], p[2]),
                    "O" if p.len() >= 5 => ctx.out.oracle(p[1] == "PASS", p[2], p[3], p[4]),
                    "C" if p.len() >= 3 => ctx.out.case(p[1].as_bytes(), p[2] == "1"),
                    "S" if p.len() >= 2 => ctx.out.sample(p[1]),
                    "D" if p.len() >= 3 => { *dist.entry(p[1].to_string()).or_insert(0) += p[2].parse::<u64>().unwrap_or(0); }
                    "X" if p.len() >= 3 => { hang_exit = p[1].parse().ok(); hang_fs = p[2].to_string(); }
                    "END" => ended = true,
                    _ => {}
                }
            }
        }
        let ok = matches!(&status, Ok(st) if st.success());
        if ok && ended { break; }
        restarts += 1;
        if let Some(i) = hang_exit {
            // the child left after a hang: go on behind that case (a front that hangs 12 times is not worth more restarts)
            *hangs.entry(hang_fs.clone()).or_insert(0) += 1;
            if ctx.out.only.is_some() || restarts >= 40 || i < start { break; }
            start = i + 1;
            continue;
        }
        // the child died: which case was it running?
        let cur = std::fs::read_to_string(format!("{}.cur", rec)).unwrap_or_default();
        let p: Vec<&str> = cur.split('\t').collect();
        let errtxt = std::fs::read_to_string(format!("{}.err", tmp.display())).unwrap_or_default();
        let errtail: String = errtxt.lines().rev().take(3).collect::<Vec<&str>>().into_iter().rev().collect::<Vec<&str>>().join(" | ");
        let how = format!("{}; stderr: {}", match &status { Ok(st) => format!("{}", st), Err(e) => format!("{}", e) }, errtail.chars().take(300).collect::<String>());
        if p.len() >= 3 {
            let idx: usize = p[0].parse().unwrap_or(usize::MAX - 1);
            ctx.out.oracle(false, ORACLE, &format!("abort:{}", p[1]), &format!("idx={} front={} process died ({}) input={}", idx, p[1], how, p[2]));
            if ctx.out.only.is_some() || restarts >= 40 || idx < start { break; }
            start = idx + 1;
        } else {
            ctx.out.oracle(false, ORACLE, "abort:harness", &format!("idx=0 child process died ({}) before its first case", how));
            break;
        }
    }
    for (k, v) in dist { ctx.out.count_n(&k, v); }
    for sfx in [".rec", ".rec.cur", ".ctxout", ".err"] { let _ = std::fs::remove_file(format!("{}{}", tmp.display(), sfx)); }
}
