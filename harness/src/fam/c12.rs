//! harness family c12: malformed input yields an error, never a crash or hang.
//!
//! Streams (case indices are global and deterministic, so `--only <idx>` replays one case):
//!   F  fronts tied to the Lean model (`Q` lines: outcome class ok/err/panic of a parsing front on the
//!      real code vs `A2Verif.Model.Robust*`), also checked by the direct oracle
//!   J  random / mutated JSON for `FileImage::from_json`, `Records::from_json`, `put_metadata`
//!   T  random / mutated token streams for the three detokenizers, random bytes for the disassembler
//!   I  single-field corruptions, truncations and extensions of seed images of every (format x FS),
//!      then identify + mount + stat/catalog/tree/glob/get of every listed file
//!
//! Every call into a2kit runs in its own thread under `catch_unwind` with a watchdog:
//!   panic  => FAIL sig `panic:<file>:<normalised message>`
//!   no answer within the time limit => FAIL sig `hang:<front>`
use crate::util::*;
use a2kit::fs::{Block, DiskFS, FileImage, Records};
use a2kit::img::{names, DiskImage, DiskKind};
use a2kit::commands::ItemType;
use std::sync::mpsc;
use std::time::Duration;

const ORACLE: &str = "no-crash";

// ------------------------------------------------------------------------------------------------
// outcome of one guarded, watched call
// ------------------------------------------------------------------------------------------------

#[derive(Clone, Debug, PartialEq)]
pub enum Outc {
    Ok(String),
    Err,
    Panic(String),
    Hang,
}

impl Outc {
    pub fn class(&self) -> &'static str {
        match self { Outc::Ok(_) => "ok", Outc::Err => "err", Outc::Panic(_) => "panic", Outc::Hang => "hang" }
    }
}

/// `src/…` path of the panic site + normalised message (digits collapsed), stable under line shifts
fn panic_sig(p: &str) -> String {
    let (loc, msg) = match p.find(" [") { Some(i) => (&p[..i], &p[i + 2..]), None => (p, "") };
    let file = loc.rsplitn(2, ':').last().unwrap_or(loc);
    let file = match file.find("src/") { Some(i) => &file[i..], None => file };
    let mut m = String::new();
    let mut last_digit = false;
    for c in msg.trim_end_matches(']').chars() {
        if c.is_ascii_digit() { if !last_digit { m.push('N'); } last_digit = true; }
        else if c.is_ascii_alphanumeric() { m.push(c.to_ascii_lowercase()); last_digit = false; }
        else { if !m.ends_with('-') { m.push('-'); } last_digit = false; }
    }
    let m: String = m.trim_matches('-').chars().take(48).collect();
    format!("panic:{}:{}", file, m)
}

/// run `f` in a thread under catch_unwind; give up after `ms` milliseconds
fn watched<F>(ms: u64, f: F) -> Outc
where F: FnOnce() -> Result<String, ()> + Send + 'static {
    let (tx, rx) = mpsc::channel();
    let h = std::thread::Builder::new().stack_size(16 << 20).spawn(move || {
        let r = guarded(f);
        let _ = tx.send(r);
    });
    let h = match h { Ok(h) => h, Err(_) => return Outc::Hang };
    match rx.recv_timeout(Duration::from_millis(ms)) {
        Ok(Ok(Ok(s))) => { let _ = h.join(); Outc::Ok(s) }
        Ok(Ok(Err(()))) => { let _ = h.join(); Outc::Err }
        Ok(Err(p)) => { let _ = h.join(); Outc::Panic(p) }
        Err(_) => Outc::Hang, // thread is leaked
    }
}

struct Run<'a> {
    ctx: &'a mut Ctx,
    /// record file of this (child) process: one record per line, flushed per line, so that an abort
    /// (stack overflow, allocation failure) loses nothing but the case that caused it
    w: std::io::LineWriter<std::fs::File>,
    /// `<record file>.cur`: the case being executed right now
    cur_path: String,
    start: usize,
    idx: usize,
    /// hangs seen per front class: a hung thread cannot be killed, so a front that hung twice is not called again
    hangs: std::collections::HashMap<String, usize>,
}

impl<'a> Run<'a> {
    /// claims the next case index; None if the case is to be skipped (replay of another one, or done by an earlier child)
    fn claim(&mut self) -> Option<usize> {
        let i = self.idx;
        self.idx += 1;
        if i >= self.start && self.ctx.out.wants(i) { Some(i) } else { None }
    }
    fn line(&mut self, s: String) { use std::io::Write; let _ = writeln!(self.w, "{}", s.replace('\n', " ")); }
    fn q(&mut self, req: &str, ans: &str) { self.line(format!("Q\t{}\t{}", req, ans)); }
    fn oracle(&mut self, pass: bool, name: &str, sig: &str, case: &str) {
        self.line(format!("O\t{}\t{}\t{}\t{}", if pass { "PASS" } else { "FAIL" }, name, sig, case.replace('\t', " ")));
    }
    fn case(&mut self, canon: &[u8], nontrivial: bool) { self.line(format!("C\t{:016X}\t{}", fnv(canon), if nontrivial { 1 } else { 0 })); }
    fn sample(&mut self, s: &str) { self.line(format!("S\t{}", s.replace('\t', " "))); }
    fn count(&mut self, key: &str) { self.count_n(key, 1); }
    fn count_n(&mut self, key: &str, n: u64) { self.line(format!("D\t{}\t{}", key, n)); }
    /// note the case about to run (read by the parent if this process dies)
    fn mark(&mut self, idx: usize, front: &str, desc: &str) {
        let _ = std::fs::write(&self.cur_path, format!("{}\t{}\t{}", idx, front, desc.replace('\t', " ").replace('\n', " ")));
    }
    /// true if this front already hung twice (its threads are still spinning): skip further calls
    fn gave_up(&mut self, front: &str) -> bool {
        if self.hangs.get(front).copied().unwrap_or(0) >= 2 { self.count(&format!("skipped-after-hangs:{}", front)); true } else { false }
    }
    /// direct oracle verdict for one watched call
    fn verdict(&mut self, idx: usize, front: &str, o: &Outc, desc: &str) {
        self.count(&format!("{}:{}", front.split('/').next().unwrap_or(front), o.class()));
        match o {
            Outc::Ok(_) | Outc::Err => self.oracle(true, ORACLE, "-", &format!("idx={} {}", idx, front)),
            Outc::Panic(p) => {
                let sig = panic_sig(p);
                self.oracle(false, ORACLE, &sig, &format!("idx={} front={} at={} input={}", idx, front, p, desc));
            }
            Outc::Hang => {
                *self.hangs.entry(front.to_string()).or_insert(0) += 1;
                self.oracle(false, ORACLE, &format!("hang:{}", front), &format!("idx={} front={} input={}", idx, front, desc));
            }
        }
    }
}

fn rbytes(rng: &mut Rng, max: usize) -> Vec<u8> { let n = rng.below(max); rng.bytes(n) }
fn clip(s: &str, n: usize) -> String { if s.len() > n { format!("{}..({} chars)", &s.chars().take(n).collect::<String>(), s.len()) } else { s.to_string() } }
fn cliphex(b: &[u8], n: usize) -> String { if b.len() > n { format!("{}..({} bytes)", hx(&b[..n]), b.len()) } else { hx(b) } }

// ------------------------------------------------------------------------------------------------
// stream F: fronts with a Lean model
// ------------------------------------------------------------------------------------------------

fn strhex(s: &str) -> String { hx(s.as_bytes()) }

/// `FileImage::from_json` on a minimal object whose only interesting field is the version string:
/// outcome class tells ok/err/panic of `version_tuple` + the `< (2,0,0)` test + the first missing field.
fn fimg_json_with_version(v: &str) -> String {
    let mut o = json::JsonValue::new_object();
    o["fimg_version"] = json::JsonValue::String(v.to_string());
    o.dump()
}

fn full_fimg_json(v: &str) -> json::JsonValue {
    json::object! {
        fimg_version: v, file_system: "prodos", chunk_len: 512, eof: "000200", fs_type: "04", aux: "0000",
        access: "C3", accessed: "00000000", created: "00000000", modified: "00000000", version: "00", min_version: "00",
        full_path: "HELLO", chunks: { "0": "48454C4C4F" }
    }
}

fn version_strings(rng: &mut Rng, n: usize) -> Vec<String> {
    let mut v: Vec<String> = ["2.1.0", "2.0.0", "1.9.9", "abc", "", "2", "2.1", "2.1.", ".", "..", "...", "2..0", "2.1.0.7", "2.1.x", "-1.0.0",
        "+2.+1.+0", "2.1.0 ", " 2.1.0", "18446744073709551615.0.0", "18446744073709551616.0.0", "00002.0001.0", "3.0.0", "2.0", "1.2.3.4.5",
        "٢.١.٠", "2,1,0", "0.0.0", "1.0.0"].iter().map(|s| s.to_string()).collect();
    let alphabet: Vec<char> = "0123456789..+-x ".chars().collect();
    for _ in 0..n {
        let len = rng.below(9);
        v.push((0..len).map(|_| *rng.pick(&alphabet)).collect());
    }
    v
}

fn stream_fronts(r: &mut Run) {
    let mut rng = Rng::new(r.ctx.seed ^ 0xF0);
    // F1 version_tuple through from_json
    let n = r.ctx.n(150, 3000);
    for v in version_strings(&mut rng, n) {
        let Some(idx) = r.claim() else { continue };
        // (a) only the version field present; (b) all fields present
        let a = fimg_json_with_version(&v);
        let vv = v.clone();
        r.mark(idx, "fimg/version", &v);
        let oa = watched(5000, move || FileImage::from_json(&a).map(|_| String::new()).map_err(|_| ()));
        let b = full_fimg_json(&vv).dump();
        let ob = watched(5000, move || FileImage::from_json(&b).map(|f| f.fimg_version).map_err(|_| ()));
        r.q(&format!("c12 fimgver {}", strhex(&v)), &format!("{} {}", oa.class(), ob.class()));
        r.verdict(idx, "fimg/version", &oa, &format!("{{\"fimg_version\":{:?}}}", v));
        r.verdict(idx, "fimg/version-full", &ob, &format!("full file image with fimg_version {:?}", v));
        r.case(format!("F1{}", v).as_bytes(), v != "2.1.0");
    }
    // F4 FAT boot sector: test_img + from_img on a 360K image whose sector 0 is a mutated BPB
    let k360 = DiskKind::D525(names::IBM_DSDD_9);
    let seed = match guarded(|| format_onto(Box::new(a2kit::img::dsk_img::Img::create(k360)), "fat", &k360)) { Ok(Ok(b)) => b, _ => { r.count("fat-front:no-seed"); return; } };
    let mut cases: Vec<(Vec<u8>, [u8; 2])> = Vec::new();
    let head: Vec<u8> = seed[0..64].to_vec();
    let sig = [seed[510], seed[511]];
    cases.push((head.clone(), sig));
    { let mut h = head.clone(); h[13] = 0; cases.push((h, sig)); } // DESIGN 9 item 14
    for off in 11..40usize {
        for v in [0u8, 1, 2, 0x7F, 0x80, 0xFF, head[off].wrapping_add(1), head[off].wrapping_sub(1)] {
            if v != head[off] { let mut h = head.clone(); h[off] = v; cases.push((h, sig)); }
        }
    }
    for s2 in [[0u8, 0], [0x55, 0], [0xAA, 0x55], [0x55, 0xAB]] { cases.push((head.clone(), s2)); let mut h = head.clone(); h[13] = 0; cases.push((h, s2)); }
    let n = r.ctx.n(300, 20000);
    for k in 0..n {
        let mut g = rng.fork(0xFA7 + k as u64);
        let mut h = head.clone();
        for _ in 0..g.range(1, 4) {
            let off = g.range(11, 39);
            h[off] = *g.pick(&[0u8, 1, 2, 4, 8, 0x10, 0x40, 0x80, 0xFF, 0xFE, 3]);
        }
        let s2 = if g.chance(80) { sig } else { [g.byte(), g.byte()] };
        cases.push((h, s2));
    }
    for (h, s2) in cases {
        let Some(idx) = r.claim() else { continue };
        let mut image = vec![0u8; seed.len()];
        image[0..64].copy_from_slice(&h);
        image[510] = s2[0]; image[511] = s2[1];
        let desc = format!("360K IMG, sector 0 = {} 00.. {}", hx(&h), hx(&s2));
        r.mark(idx, "fat/mount", &desc);
        let o = watched(5000, move || {
            let mut img: Box<dyn DiskImage> = Box::new(a2kit::img::dsk_img::Img::from_bytes(&image).map_err(|_| ())?);
            if !a2kit::fs::fat::Disk::test_img(&mut img) { return Err(()); }
            match a2kit::fs::fat::Disk::from_img(img, None) { Ok(_) => Ok(String::new()), Err(_) => Ok("from_img-err".to_string()) }
        });
        r.q(&format!("c12 fatmount {} {}", hx(&h), hx(&s2)), o.class());
        r.verdict(idx, "fat/mount", &o, &desc);
        r.case(&[&h[..], &s2[..]].concat(), h != head || s2 != sig);
    }
    // F2 WOZ2 container: synthetic files made of chunks with sizes around the thresholds of the parser
    let mut wz: Vec<Vec<u8>> = vec![woz2_synth(&[(b"TRKS", 16, 0)], 0), woz2_synth(&[(b"INFO", 60, 1), (b"TMAP", 160, 0), (b"TRKS", 1280, 0)], 0),
        woz2_synth(&[(b"INFO", 60, 7), (b"TMAP", 160, 0), (b"TRKS", 1280 + 512, 0)], 0), woz2_synth(&[], 0), woz2_synth(&[(b"TRKS", 1279, 0)], 0), woz2_synth(&[(b"TRKS", 1280, 0)], 7)];
    let n = r.ctx.n(400, 20000);
    for k in 0..n {
        let mut g = rng.fork(0x302 + k as u64);
        let mut chunks: Vec<(&[u8; 4], usize, u8)> = Vec::new();
        for _ in 0..g.range(0, 5) {
            let id: &[u8; 4] = *g.pick(&[b"INFO", b"TMAP", b"TRKS", b"META", b"WRIT", b"JUNK", b"INFO", b"TMAP", b"TRKS"]);
            let size = match id { b"INFO" => *g.pick(&[60usize, 60, 60, 59, 0, 61, 10]), b"TMAP" => *g.pick(&[160usize, 160, 160, 159, 0, 200]),
                b"TRKS" => *g.pick(&[1280usize, 1280, 1792, 1279, 16, 0, 1281, 1287, 1288, 2000, 8]), _ => *g.pick(&[0usize, 1, 8, 40]) };
            chunks.push((id, size, *g.pick(&[1u8, 1, 2, 2, 0, 3, 7, 0xFF])));
        }
        let mut b = woz2_synth(&chunks, g.below(12));
        if g.chance(15) { let n = g.below(b.len() + 1); b.truncate(n); }
        if g.chance(10) && b.len() > 3 { b[3] = *g.pick(&[0x31u8, 0x33, 0]); }
        if g.chance(10) && b.len() > 20 { let i = g.range(12, b.len() - 1); b[i] = g.byte(); }
        wz.push(b);
    }
    for b in wz {
        let Some(idx) = r.claim() else { continue };
        let desc = cliphex(&b, 120);
        r.mark(idx, "woz2/from_bytes", &desc);
        let b2 = b.clone();
        let o = watched(5000, move || a2kit::img::woz2::Woz2::from_bytes(&b2).map(|_| String::new()).map_err(|_| ()));
        r.q(&format!("c12 woz2 {}", hx(&b)), o.class());
        r.verdict(idx, "woz2/from_bytes", &o, &desc);
        r.case(&b, true);
    }
    // F2b WOZ1: (a) the two fields of a TRK entry that bound each other, on a real image; (b) synthetic files of chunks
    {
        let base = guarded(|| { let mut w = a2kit::img::woz1::Woz1::create(254, names::A2_DOS33_KIND); w.to_bytes() }).unwrap_or_default();
        let vals: [u64; 14] = [0, 1, 8, 6645, 6646, 6647, 6656, 8000, 8191, 53168 / 8, 53168, 53169, 64000, 0xFFFF];
        let mut pairs: Vec<(usize, u64, u64)> = Vec::new();
        for t in [0usize, 17] { for bu in vals { for bc in [0u64, 1, 9, 53160, 53168, 53169, 53176, 53248, 64000, 65528, 0xFFFF] { pairs.push((t, bu, bc)); } } }
        for (t, bu, bc) in pairs {
            let Some(idx) = r.claim() else { continue };
            if base.len() < 256 + 6656 * 35 { continue; }
            let mut b = base.clone();
            let e = 256 + 6656 * t;
            b[e + 6646] = bu as u8; b[e + 6647] = (bu >> 8) as u8; b[e + 6648] = bc as u8; b[e + 6649] = (bc >> 8) as u8;
            let desc = format!("woz1 track {} bytes_used={} bit_count={}", t, bu, bc);
            r.mark(idx, "woz1/track", &desc);
            let o = watched(20000, move || {
                let mut w = a2kit::img::woz1::Woz1::from_bytes(&b).map_err(|_| ())?;
                let _ = w.get_track_solution(t);
                let _ = w.read_sector(t, 0, 0);
                let _ = w.get_track_nibbles(t, 0);
                Ok(String::new())
            });
            r.q(&format!("c12 woz1trk {} {}", bu, bc), match &o { Outc::Panic(_) => "panic", Outc::Hang => "hang", _ => "safe" });
            r.verdict(idx, "woz1/track", &o, &desc);
            r.case(desc.as_bytes(), true);
        }
        let n = r.ctx.n(60, 3000);
        let mut files: Vec<Vec<u8>> = vec![woz1_synth(&[(b"INFO", 60, 1), (b"TMAP", 160, 0), (b"TRKS", 6656, 0)], 6646, 53168, 0), woz1_synth(&[], 0, 0, 0)];
        for k in 0..n {
            let mut g = rng.fork(0x3B1 + k as u64);
            let mut chunks: Vec<(&[u8; 4], usize, u8)> = Vec::new();
            for _ in 0..g.range(0, 4) {
                let id: &[u8; 4] = *g.pick(&[b"INFO", b"TMAP", b"TRKS", b"META", b"JUNK", b"INFO", b"TMAP", b"TRKS"]);
                let size = match id { b"INFO" => *g.pick(&[60usize, 60, 60, 59, 0, 61]), b"TMAP" => *g.pick(&[160usize, 160, 160, 159, 0, 200]),
                    b"TRKS" => *g.pick(&[6656usize, 6656, 13312, 6655, 6657, 0, 8]), _ => *g.pick(&[0usize, 1, 8, 40]) };
                chunks.push((id, size, *g.pick(&[1u8, 1, 1, 2, 0, 0xFF])));
            }
            let bu = *g.pick(&[6646u64, 6647, 8000, 0xFFFF, 0]); let bc = *g.pick(&[53168u64, 53169, 64000, 0xFFFF, 0, 8]);
            let mut b = woz1_synth(&chunks, bu, bc, g.below(12));
            if g.chance(15) { let n = g.below(b.len() + 1); b.truncate(n); }
            if g.chance(8) && b.len() > 3 { b[3] = *g.pick(&[0x32u8, 0x33, 0]); }
            files.push(b);
        }
        for b in files {
            let Some(idx) = r.claim() else { continue };
            let desc = cliphex(&b, 120);
            r.mark(idx, "woz1/from_bytes", &desc);
            let b2 = b.clone();
            let o = watched(20000, move || a2kit::img::woz1::Woz1::from_bytes(&b2).map(|_| String::new()).map_err(|_| ()));
            r.q(&format!("c12 woz1 {}", hx(&b)), o.class());
            r.verdict(idx, "woz1/from_bytes", &o, &desc);
            r.case(&b, true);
        }
    }
    // F3 IMD container: synthetic files (header, comment, 0..3 track records with small sectors), then mutated
    let n = r.ctx.n(500, 20000);
    let mut imds: Vec<Vec<u8>> = vec![imd_synth(&mut Rng::new(1), 0), imd_synth(&mut Rng::new(2), 1)];
    for k in 0..n {
        let mut g = rng.fork(0x1AD + k as u64);
        let flavour = g.below(8);
        let mut b = imd_synth(&mut g, flavour);
        match g.below(10) {
            0 => { let n = g.below(b.len() + 1); b.truncate(n); }
            1 => { if !b.is_empty() { let i = g.below(b.len()); b[i] = g.byte(); } }
            2 => { if b.len() > 34 { let i = g.range(29, b.len() - 1); b[i] = *g.pick(&[0u8, 9, 0xFF, 0x1a, 7, 255, 0x80, 0xC0]); } }
            3 => { let n = g.below(6); b.extend(g.bytes(n)); }
            _ => {}
        }
        imds.push(b);
    }
    for b in imds {
        let Some(idx) = r.claim() else { continue };
        let desc = cliphex(&b, 160);
        r.mark(idx, "imd/from_bytes", &desc);
        let b2 = b.clone();
        let o = watched(5000, move || a2kit::img::imd::Imd::from_bytes(&b2).map(|_| String::new()).map_err(|_| ()));
        r.q(&format!("c12 imd {}", hx(&b)), o.class());
        r.verdict(idx, "imd/from_bytes", &o, &desc);
        if o.class() == "ok" { // what the file system probes do next with an accepted image (oracle only)
            let b3 = b.clone();
            r.mark(idx, "imd/read", &desc);
            let o2 = watched(5000, move || {
                let mut img = a2kit::img::imd::Imd::from_bytes(&b3).map_err(|_| ())?;
                let _ = img.read_sector(0, 0, 1); let _ = img.read_sector(0, 0, 0); let _ = img.byte_capacity(); let _ = img.get_track_solution(0);
                let _ = img.read_block(Block::FAT((0, 1))); let _ = img.read_block(Block::CPM((0, 3, 0))); let _ = img.read_block(Block::CPM((0, 3, 1)));
                Ok(String::new())
            });
            r.verdict(idx, "imd/read", &o2, &desc);
        }
        r.case(&b, true);
    }
    // F5 2MG container: header fields around the file length, payload all zero (so wrapped nibbles never solve)
    let n = r.ctx.n(250, 10000);
    for k in 0..n {
        let mut g = rng.fork(0x2A6 + k as u64);
        let fmt = *g.pick(&[0u32, 1, 1, 1, 2, 3, 0xFFFF_FFFF]);
        let dlen = *g.pick(&[143360u32, 143360, 143360, 143359, 143872, 147456, 232960, 223440, 0, 512, 0x8000_0000, 0xFFFF_FFFF]);
        let doff = *g.pick(&[64u32, 64, 64, 64, 63, 0, 65, 1024, 0xFFFF_FFFF]);
        let blocks = *g.pick(&[280u32, 280, 281, 0, 288, 0xFFFF_FFFF]);
        let flen = (*g.pick(&[64i64 + 143360, 64 + 143360, 64 + 143359, 64 + 143360 + 40, 64 + 232960, 63, 64, 100, 64 + 147456])) as usize;
        let (coff, clen) = *g.pick(&[(0u32, 0u32), (64 + 143360, 40), (64 + 143360, 41), (0xFFFF_FFFF, 0xFFFF_FFFF), (10, 5), (flen as u32, 0), (flen as u32, 1)]);
        let (roff, rlen) = *g.pick(&[(0u32, 0u32), (64 + 143360, 40), (0xFFFF_FFFF, 1), (5, 0xFFFF_FFF0), (flen as u32 - flen.min(3) as u32, 3)]);
        let mut b = vec![0u8; flen];
        let mut hdr: Vec<u8> = Vec::new();
        hdr.extend_from_slice(if g.chance(92) { b"2IMG" } else { b"2IMH" }); hdr.extend_from_slice(b"2KIT");
        hdr.extend_from_slice(&[64, 0, 1, 0]);
        for v in [fmt, 0u32, blocks, doff, dlen, coff, clen, roff, rlen] { hdr.extend_from_slice(&v.to_le_bytes()); }
        hdr.resize(64, 0);
        let m = hdr.len().min(b.len()); b[..m].copy_from_slice(&hdr[..m]);
        let Some(idx) = r.claim() else { continue };
        let desc = format!("2MG header {} file length {}", hx(&b[..m]), flen);
        r.mark(idx, "2mg/from_bytes", &desc);
        let b2 = b.clone();
        let o = watched(5000, move || a2kit::img::dot2mg::Dot2mg::from_bytes(&b2).map(|_| String::new()).map_err(|_| ()));
        r.q(&format!("c12 mg2 {} {} 0", hx(&b[..m]), flen), o.class());
        r.verdict(idx, "2mg/from_bytes", &o, &desc);
        r.case(desc.as_bytes(), true);
    }
    // F4b TD0 container, normal mode ("TD", no LZSS): hand-made records with a valid header CRC, so that the
    // track / sector record parser and `Sector::unpack` see arbitrary field values (oracle only, not modelled)
    let n = r.ctx.n(400, 15000);
    let mut tds: Vec<Vec<u8>> = vec![td0_synth(&mut Rng::new(1), 0), td0_synth(&mut Rng::new(2), 1), td0_synth(&mut Rng::new(3), 2), td0_synth(&mut Rng::new(4), 3), td0_synth(&mut Rng::new(5), 4)];
    for k in 0..n { let mut g = rng.fork(0x7D0 + k as u64); let fl = 5 + g.below(12); tds.push(td0_synth(&mut g, fl)); }
    for b in tds {
        let Some(idx) = r.claim() else { continue };
        let desc = cliphex(&b, 200);
        r.mark(idx, "td0/from_bytes", &desc);
        let b2 = b.clone();
        let o = watched(5000, move || {
            let mut img = a2kit::img::td0::Td0::from_bytes(&b2).map_err(|_| ())?;
            // a sector read and the geometry go through `Sector::unpack` and the track tables
            let _ = img.read_sector(0, 0, 1); let _ = img.read_sector(0, 0, 0); let _ = img.byte_capacity(); let _ = img.get_track_solution(0);
            let _ = img.read_block(Block::FAT((0, 1))); let _ = img.read_block(Block::CPM((0, 3, 0)));
            Ok(String::new())
        });
        r.verdict(idx, "td0/from_bytes", &o, &desc);
        r.case(&b, true);
    }
    // F6 bios::fat::get_cluster: entry numbers around what the buffer holds (functional tie incl. the value).
    // A panic here is NOT a failure of the property by itself (callers must guard with clus_in_rng), so no oracle line.
    let n = r.ctx.n(300, 10000);
    for k in 0..n {
        let mut g = rng.fork(0xFA6 + k as u64);
        let typ = *g.pick(&[12usize, 12, 12, 16, 16, 32, 8]);
        let len = *g.pick(&[0usize, 1, 2, 3, 5, 6, 9, 12, 16, 24, 33, 48]);
        let fat = g.bytes(len);
        let cap = if typ == 8 { 4 } else { len * 8 / typ };
        let nn = (cap as i64 + g.range(0, 6) as i64 - 4).max(0) as usize;
        let Some(idx) = r.claim() else { continue };
        let desc = format!("get_cluster({},{},{})", nn, typ, hx(&fat));
        r.mark(idx, "fat/get_cluster", &desc);
        let f2 = fat.clone();
        let o = watched(3000, move || Ok(a2kit::bios::fat::get_cluster(nn, typ, &f2).to_string()));
        let ans = match &o { Outc::Ok(v) => format!("ok {}", v), other => other.class().to_string() };
        r.q(&format!("c12 fatget {} {} {}", typ, nn, hx(&fat)), &ans);
        r.count(&format!("fatget:{}", o.class()));
        r.case(desc.as_bytes(), true);
    }
}

fn td0_crc16(buf: &[u8]) -> u16 {
    let mut crc: u16 = 0;
    for b in buf { crc ^= (*b as u16) << 8; for _ in 0..8 { crc = (crc << 1) ^ if crc & 0x8000 != 0 { 0xa097 } else { 0 }; } }
    crc
}

/// a small normal-mode TD0 file.  flavour 0: well formed (1 track, 2 sectors of 128 bytes, terminator);
/// 1: no terminator; 2: no tracks; 3: sector size code 64; 4: file ends inside a sector header; >4: random fields
fn td0_synth(g: &mut Rng, flavour: usize) -> Vec<u8> {
    let mut b: Vec<u8> = vec![b'T', b'D', 0, 0, 0x15, 0, 1, 0, 0, 1];
    let crc = td0_crc16(&b); b.extend_from_slice(&crc.to_le_bytes());
    let rnd = flavour > 4;
    let ntracks = if flavour == 2 { 0 } else if rnd { g.below(3) } else { 1 };
    for t in 0..ntracks {
        let nsec = if rnd { g.below(4) as u8 } else { 2 };
        let th = [nsec, t as u8, if rnd { *g.pick(&[0u8, 1, 0x80, 0xFF]) } else { 0 }];
        b.extend_from_slice(&th); b.push((td0_crc16(&th) & 0xff) as u8);
        for sct in 0..nsec {
            let shift = if flavour == 3 { 64 } else if rnd { *g.pick(&[0u8, 0, 0, 1, 6, 7, 63, 64, 200, 255]) } else { 0 };
            let flags = if rnd { *g.pick(&[0u8, 0, 0, 0x10, 0x20, 0x02, 0xFF]) } else { 0 };
            b.extend_from_slice(&[t as u8, 0, sct + 1, shift, flags, 0]);
            if flavour == 4 && sct == 1 { b.truncate(b.len() - 3); return b; }
            if flags & 0x30 == 0 {
                let enc = if rnd { *g.pick(&[0u8, 1, 2, 1, 3, 0xFF]) } else { 1 };
                let body: Vec<u8> = match enc {
                    0 => { let n = if rnd { *g.pick(&[128usize, 127, 0, 256]) } else { 128 }; (0..n).map(|i| i as u8).collect() }
                    1 => { let cnt: u16 = if rnd { *g.pick(&[64u16, 0, 1, 65, 0xFFFF]) } else { 64 }; let mut v = cnt.to_le_bytes().to_vec(); v.extend_from_slice(&[0xE5, 0xE5]); if rnd && g.chance(30) { v.extend_from_slice(&[1, 0, 1, 2]); } v }
                    2 => { let mut v = Vec::new(); for _ in 0..g.range(1, 6) { let rc = *g.pick(&[0u8, 1, 2, 64, 255]); v.push(rc); if rc == 0 { let n = g.below(6) as u8; v.push(n); v.extend(g.bytes(n as usize)); } else { v.push(*g.pick(&[0u8, 1, 2, 255])); v.extend(g.bytes(2 * rc as usize)); } } v }
                    _ => g.bytes(4),
                };
                let declared: u16 = if rnd && g.chance(25) { *g.pick(&[0u16, 1, 0xFFFF, 5000]) } else { body.len() as u16 + 1 };
                b.extend_from_slice(&declared.to_le_bytes()); b.push(enc); b.extend(body);
            }
        }
    }
    if flavour != 1 && !(rnd && g.chance(20)) { b.push(0xff); }
    if rnd && g.chance(15) { let n = g.below(b.len() - 12) + 12; b.truncate(n); }
    b
}

/// a small IMD file: 29 header bytes, comment, 0x1A, 0..3 track records with 0..3 sectors of 128 << shift bytes
fn imd_synth(g: &mut Rng, flavour: usize) -> Vec<u8> {
    let mut b: Vec<u8> = match flavour { 5 => b"IMD 2.00: 01/01/2000 00:00:00\r\n".to_vec(), 6 => b"IMX 1.18: 01/01/2000 00:00:00\r\n".to_vec(), _ => b"IMD 1.18: 01/01/2000 00:00:00\r\n".to_vec() };
    b.truncate(31);
    match g.below(6) { 0 => {}, 1 => b.extend_from_slice(b"hello"), 2 => b.extend_from_slice("h\u{e9}\u{20ac}\u{1F600}".as_bytes()), 3 => b.extend_from_slice(&[0x41, 0xC0, 0x80]),
        4 => b.extend_from_slice(&[0xED, 0xA0, 0x80]), _ => b.extend_from_slice(&[0xE2, 0x82]) }
    if flavour != 7 { b.push(0x1a); }
    for _t in 0..g.below(4) {
        let nsec = g.below(4) as u8;
        let shift = *g.pick(&[0u8, 0, 0, 1, 2, 6, 7, 255]);
        let head = *g.pick(&[0u8, 1, 0x80, 0x40, 0xC1]);
        b.extend_from_slice(&[5, g.below(3) as u8, head, nsec, shift]);
        let maps = 1 + (head >> 7) as usize + ((head >> 6) & 1) as usize;
        for _ in 0..maps { for s in 0..nsec { b.push(s + 1); } }
        let ssz = 128usize << (shift.min(2));
        for _ in 0..nsec {
            let code = *g.pick(&[0u8, 1, 2, 3, 4, 5, 6, 7, 8, 1, 2, 9]);
            b.push(code);
            match code { 1 | 3 | 5 | 7 => { let f = g.byte(); b.extend(std::iter::repeat(f).take(ssz)); } 2 | 4 | 6 | 8 => b.push(g.byte()), _ => {} }
        }
    }
    b
}


/// a WOZ1 file from (chunk id, declared size, flavour) + `tail` trailing bytes; INFO: version 1, disk type = flavour;
/// TMAP all 0xFF except entry 0 (0xFF flavour: entry 0 = 200); every TRKS entry carries `bytes_used`, `bit_count`
fn woz1_synth(chunks: &[(&[u8; 4], usize, u8)], bytes_used: u64, bit_count: u64, tail: usize) -> Vec<u8> {
    let mut b: Vec<u8> = vec![0x57, 0x4f, 0x5a, 0x31, 0xff, 0x0a, 0x0d, 0x0a, 0, 0, 0, 0];
    for (id, size, fl) in chunks {
        b.extend_from_slice(&id[..]);
        b.extend_from_slice(&(*size as u32).to_le_bytes());
        let mut body = vec![0u8; *size];
        match &id[..] {
            b"INFO" => { if body.len() > 1 { body[0] = 1; body[1] = *fl; } }
            b"TMAP" => { for x in body.iter_mut() { *x = 0xff; } if !body.is_empty() { body[0] = if *fl == 0xFF { 200 } else { 0 }; } }
            b"TRKS" => { let mut e = 0; while e + 6656 <= body.len() { body[e + 6646] = bytes_used as u8; body[e + 6647] = (bytes_used >> 8) as u8; body[e + 6648] = bit_count as u8; body[e + 6649] = (bit_count >> 8) as u8; e += 6656; } }
            _ => {}
        }
        b.extend(body);
    }
    b.extend(std::iter::repeat(0u8).take(tail));
    b
}

/// a WOZ2 file from (chunk id, declared size, flavour) + `tail` trailing bytes; INFO bodies are plausible with
/// disk type = flavour, TMAP all 0xFF except entry 0, TRKS zero
fn woz2_synth(chunks: &[(&[u8; 4], usize, u8)], tail: usize) -> Vec<u8> {
    let mut b: Vec<u8> = vec![0x57, 0x4f, 0x5a, 0x32, 0xff, 0x0a, 0x0d, 0x0a, 0, 0, 0, 0];
    for (id, size, fl) in chunks {
        b.extend_from_slice(&id[..]);
        b.extend_from_slice(&(*size as u32).to_le_bytes());
        let mut body = vec![0u8; *size];
        match &id[..] {
            b"INFO" => { let set = |body: &mut Vec<u8>, i: usize, v: u8| { if i < body.len() { body[i] = v; } };
                set(&mut body, 0, if *fl == 3 { 3 } else { 2 }); set(&mut body, 1, *fl); set(&mut body, 37, if *fl == 2 { 2 } else if *fl == 0 { 0 } else { 1 });
                if *fl == 3 { set(&mut body, 46, 1); set(&mut body, 48, 1); } }
            b"TMAP" => { for x in body.iter_mut() { *x = 0xff; } if !body.is_empty() { body[0] = if *fl == 0xFF { 200 } else { 0 }; } }
            b"META" => { for (i, x) in body.iter_mut().enumerate() { *x = if *fl == 7 { 0xC0 } else { b"a\tb\n"[i % 4] }; } }
            _ => {}
        }
        b.extend(body);
    }
    b.extend(std::iter::repeat(0u8).take(tail));
    b
}

// ------------------------------------------------------------------------------------------------
// stream J: JSON inputs
// ------------------------------------------------------------------------------------------------

fn rand_json_value(rng: &mut Rng, depth: usize) -> json::JsonValue {
    let strs = ["", "abc", "2.1.0", "prodos", "a2 dos", "a2 pascal", "cpm", "fat", "00", "0G", "ZZ", "0", "1", "-1", "FFFFFFFFFFFFFFFFFF", "rec", "48454C4C4F", "4"];
    match rng.below(if depth == 0 { 6 } else { 8 }) {
        0 => json::JsonValue::Null,
        1 => json::JsonValue::Boolean(rng.chance(50)),
        2 => (*rng.pick(&[0i64, 1, -1, 2, 255, 256, 512, 65535, 65536, 1 << 31, 1 << 32, i64::MAX, i64::MIN + 1])).into(),
        3 => (*rng.pick(&[0.5f64, -0.0, 1e300, 1e-300, 18446744073709551616.0, 512.0])).into(),
        4 | 5 => json::JsonValue::String(rng.pick(&strs).to_string()),
        6 => { let mut a = json::JsonValue::new_array(); for _ in 0..rng.below(4) { let _ = a.push(rand_json_value(rng, depth - 1)); } a }
        _ => { let mut o = json::JsonValue::new_object(); for _ in 0..rng.below(4) { let k = rng.pick(&strs).to_string(); o[k] = rand_json_value(rng, depth - 1); } o }
    }
}

const FIMG_KEYS: [&str; 14] = ["fimg_version", "file_system", "chunk_len", "eof", "fs_type", "aux", "access", "accessed", "created", "modified", "version", "min_version", "full_path", "chunks"];

fn mutate_text(rng: &mut Rng, s: &str) -> String {
    let mut b = s.as_bytes().to_vec();
    if b.is_empty() { return String::new(); }
    for _ in 0..rng.range(1, 3) {
        let i = rng.below(b.len());
        match rng.below(5) {
            0 => { b.remove(i); }
            1 => { b.insert(i, *rng.pick(b"{}[]\",:0-9e.\\")); }
            2 => { b[i] = rng.byte() & 0x7f; }
            3 => { b.truncate(i); if b.is_empty() { break; } }
            _ => { let j = rng.below(b.len()); b.swap(i, j); }
        }
        if b.is_empty() { break; }
    }
    String::from_utf8_lossy(&b).to_string()
}

fn stream_json(r: &mut Run) {
    let mut rng0 = Rng::new(r.ctx.seed ^ 0x15);
    // J1 FileImage::from_json, followed by the read-side accessors that a `put`/`unpack` would use
    let n = r.ctx.n(1500, 40000);
    for k in 0..n {
        let mut rng = rng0.fork(k as u64);
        let Some(idx) = r.claim() else { continue };
        let mut o = full_fimg_json(*rng.pick(&["2.1.0", "2.0.0", "2.1.0", "2.1.0", "2.0.1", "3.0.0"]));
        let text = match rng.below(10) {
            0 => rand_json_value(&mut rng, 3).dump(),
            1 => mutate_text(&mut rng, &o.dump()),
            2 => { o.remove(*rng.pick(&FIMG_KEYS)); o.dump() }
            3 | 4 => { let k = *rng.pick(&FIMG_KEYS); o[k] = rand_json_value(&mut rng, 2); o.dump() }
            5 => { // chunk map mutations
                let mut c = json::JsonValue::new_object();
                for _ in 0..rng.below(4) {
                    let key = rng.pick(&["0", "1", "-1", "x", "", "18446744073709551615", "18446744073709551616", "65535", "007", "+3"]).to_string();
                    c[key] = rand_json_value(&mut rng, 1);
                }
                o["chunks"] = c; o.dump()
            }
            6 => { o["file_system"] = rng.pick(&["a2 dos", "a2 pascal", "prodos", "cpm", "fat", "nonsense", ""]).to_string().into();
                   o["chunk_len"] = (*rng.pick(&[0u32, 1, 2, 128, 256, 512, 1024, 65535])).into();
                   o["eof"] = hex::encode_upper(rbytes(&mut rng, 10)).into();
                   o["fs_type"] = hex::encode_upper(rbytes(&mut rng, 4)).into();
                   o["aux"] = hex::encode_upper(rbytes(&mut rng, 4)).into();
                   o["chunks"]["0"] = hex::encode_upper(rbytes(&mut rng, 600)).into();
                   o.dump() }
            7 => { o["fimg_version"] = version_strings(&mut rng, 1).pop().unwrap().into(); o.dump() }
            8 => String::from_utf8_lossy(&rbytes(&mut rng, 40)).to_string(),
            _ => { let k = *rng.pick(&FIMG_KEYS[2..12]); o[k] = hex::encode_upper(rbytes(&mut rng, 12)).into(); o.dump() }
        };
        let t2 = text.clone();
        r.mark(idx, "json/fimg", &clip(&text, 400));
        let out = watched(5000, move || {
            match FileImage::from_json(&t2) {
                Ok(f) => {
                    let _ = f.get_eof(); let _ = f.get_ftype(); let _ = f.get_aux(); let _ = f.end(); let _ = f.is_sparse();
                    let _ = f.sequence_limited(1 << 16);
                    let _ = f.to_json(None);
                    Ok(if ["a2 dos", "a2 pascal", "prodos", "cpm", "fat"].contains(&f.file_system.as_str()) { "known-fs".to_string() } else { "accepted".to_string() })
                }
                Err(_) => Err(()),
            }
        });
        // read-side use of an accepted file image (what `a2kit unpack` / `put` call first), one watched call each
        if out == Outc::Ok("known-fs".to_string()) {
            for which in ["raw", "bin", "txt", "tok", "rec", "rec16", "addr", "auto"] {
                let front = format!("json/fimg-unpack/{}", which);
                if r.gave_up(&front) { continue; }
                let t3 = text.clone();
                r.mark(idx, &front, &clip(&text, 400));
                let o = watched(3000, move || {
                    let f = FileImage::from_json(&t3).map_err(|_| ())?;
                    match which {
                        "raw" => { let _ = f.unpack_raw(true); let _ = f.unpack_raw(false); }
                        "bin" => { let _ = f.unpack_bin(); }
                        "txt" => { let _ = f.unpack_txt(); }
                        "tok" => { let _ = f.unpack_tok(); }
                        "rec" => { let _ = f.unpack_rec(None); }
                        "rec16" => { let _ = f.unpack_rec(Some(16)); }
                        "addr" => { let _ = f.get_load_address(); }
                        _ => { let _ = f.unpack(); }
                    }
                    Ok(String::new())
                });
                r.verdict(idx, &front, &o, &clip(&text, 400));
            }
        }
        r.verdict(idx, "json/fimg", &out, &clip(&text, 400));
        r.case(text.as_bytes(), true);
        if k < 2 { r.sample(&format!("json/fimg {}", clip(&text, 200))); }
    }
    // J1b: DOS 3.x Applesoft file images whose first chunk is too short / has no line terminator (deduce_address)
    for chunk0 in ["", "00", "0000", "000041", "00000108", "0900010 80A004142".replace(' ', "").as_str(), "0500010000000A0041", "09000108FFFF0A00", "0B0001080A00BA22484922000000"] {
        let Some(idx) = r.claim() else { continue };
        let mut o = full_fimg_json("2.1.0");
        o["file_system"] = "a2 dos".into(); o["chunk_len"] = 256.into(); o["fs_type"] = "02".into(); o["chunks"]["0"] = chunk0.into();
        let text = o.dump();
        r.mark(idx, "json/fimg-unpack/addr", &clip(&text, 400));
        let t3 = text.clone();
        let out = watched(3000, move || { let f = FileImage::from_json(&t3).map_err(|_| ())?; Ok(f.get_load_address().to_string()) });
        r.verdict(idx, "json/fimg-unpack/addr", &out, &clip(&text, 400));
        r.case(text.as_bytes(), true);
    }
    // J2 Records::from_json (+ to_json and update_fimg of what was accepted)
    let n = r.ctx.n(600, 20000);
    for k in 0..n {
        let mut rng = rng0.fork(0x1_0000 + k as u64);
        let Some(idx) = r.claim() else { continue };
        let mut o = json::object! { fimg_type: "rec", record_length: 32, records: { "0": ["A", "B"], "5": ["HELLO"] } };
        let text = match rng.below(8) {
            0 => rand_json_value(&mut rng, 3).dump(),
            1 => mutate_text(&mut rng, &o.dump()),
            2 => { o["record_length"] = rand_json_value(&mut rng, 1); o.dump() }
            3 => { o["record_length"] = (*rng.pick(&[0u64, 1, 2, 65535, 65536, 1 << 40, u64::MAX >> 1])).into(); o.dump() }
            4 => { o["records"] = rand_json_value(&mut rng, 3); o.dump() }
            5 => { let key = rng.pick(&["-1", "x", "", "18446744073709551615", "4294967296", "72057594037927936", "+3"]).to_string();
                   o["records"][key] = json::array!["Z"]; o.dump() }
            6 => { o["fimg_type"] = rand_json_value(&mut rng, 1); o.dump() }
            _ => { o["records"]["1"] = rand_json_value(&mut rng, 2); o.dump() }
        };
        let t2 = text.clone();
        r.mark(idx, "json/records", &clip(&text, 400));
        let out = watched(5000, move || {
            match Records::from_json(&t2) {
                Ok(recs) => {
                    let _ = recs.to_json(None);
                    let _ = recs.to_string();
                    Ok("accepted".to_string())
                }
                Err(_) => Err(()),
            }
        });
        r.verdict(idx, "json/records", &out, &clip(&text, 400));
        r.case(text.as_bytes(), true);
    }
}

// ------------------------------------------------------------------------------------------------
// stream T: token streams and machine code
// ------------------------------------------------------------------------------------------------

fn applesoft_seeds() -> Vec<Vec<u8>> {
    let progs = ["10 PRINT \"HELLO\"\n20 GOTO 10\n", "10 REM A COMMENT\n20 DATA 1,\"TWO\",3: PRINT A$\n30 FOR I = 1 TO 10: NEXT I\n", "1 HOME : A$ = \"X\\x0aY\"\n"];
    let mut v = Vec::new();
    for p in progs {
        let mut t = a2kit::lang::applesoft::tokenizer::Tokenizer::new();
        if let Ok(b) = t.tokenize(p, 2049) { v.push(b); }
    }
    v
}
fn integer_seeds() -> Vec<Vec<u8>> {
    let progs = ["10 PRINT \"HELLO\"\n20 GOTO 10\n", "10 REM A COMMENT\n20 A=A+1: IF A<10 THEN 20\n30 DIM A$(20): A$=\"XYZ\"\n40 END\n"];
    let mut v = Vec::new();
    for p in progs {
        let mut t = a2kit::lang::integer::tokenizer::Tokenizer::new();
        if let Ok(b) = t.tokenize(p.to_string()) { v.push(b); }
    }
    v
}
fn merlin_seeds() -> Vec<Vec<u8>> {
    let progs = ["         ORG   $300\nSTART    LDA   #$00\n         RTS\n", "* COMMENT\nLOOP     JSR   $FDED ; PRINT\n         BNE   LOOP\n"];
    let mut v = Vec::new();
    for p in progs {
        let mut t = a2kit::lang::merlin::tokenizer::Tokenizer::new();
        if let Ok(b) = t.tokenize(p.to_string()) { v.push(b); }
    }
    v
}

fn mutate_bytes(rng: &mut Rng, seed: &[u8], special: &[u8]) -> Vec<u8> {
    let mut b = seed.to_vec();
    for _ in 0..rng.range(1, 3) {
        if b.is_empty() { b.push(rng.byte()); continue; }
        let i = rng.below(b.len());
        match rng.below(7) {
            0 => { b.truncate(i); }
            1 => { b[i] = *rng.pick(special); }
            2 => { b[i] = rng.byte(); }
            3 => { b.insert(i, *rng.pick(special)); }
            4 => { b.remove(i); }
            5 => { b[i] = 0; }
            _ => { let n = rng.below(4); for _ in 0..n { b.push(rng.byte()); } }
        }
    }
    b
}

fn stream_tokens(r: &mut Run) {
    let mut rng0 = Rng::new(r.ctx.seed ^ 0x70);
    let aseeds = applesoft_seeds();
    let iseeds = integer_seeds();
    let mseeds = merlin_seeds();
    // fixed witnesses first (DESIGN 9 item 18 and relatives)
    let fixed_a: Vec<Vec<u8>> = vec![vec![0x01, 0x08, 0x0A, 0x00, 0x22, 0x41], vec![1, 8, 10, 0, 0x83, 0x41], vec![1, 8, 10, 0, 0xB2, 0x41], vec![1, 8, 10], vec![1, 8, 10, 0], vec![1, 8], vec![1], vec![], vec![1, 8, 10, 0, 0x22]];
    let fixed_i: Vec<Vec<u8>> = vec![vec![0x05, 0x0A, 0x00, 0x28, 0xC1], vec![5, 10, 0, 0x28], vec![5, 10, 0, 0x5D, 0xC1], vec![5, 10, 0, 0x28, 0xDC, 0xF8, 0x30, 0x30, 0x29, 1], vec![5, 10, 0, 0xB1, 1], vec![5, 10, 0, 0xC1], vec![5, 10, 0], vec![5, 10], vec![5], vec![]];
    let n = r.ctx.n(1500, 40000);
    for k in 0..(fixed_a.len() + n) {
        let mut rng = rng0.fork(k as u64);
        let Some(idx) = r.claim() else { continue };
        let input = if k < fixed_a.len() { fixed_a[k].clone() } else if aseeds.is_empty() || rng.chance(25) { let n = rng.below(24); rng.bytes(n) }
            else { let sd: &Vec<u8> = &aseeds[rng.below(aseeds.len())]; mutate_bytes(&mut rng, sd, &[0, 0x22, 0x83, 0xB2, 0x3A, 0x5C, 0x78, 0xFF, 0xEB, 0x80]) };
        let i2 = input.clone();
        r.mark(idx, "detok/applesoft", &cliphex(&input, 200));
        let out = watched(5000, move || a2kit::lang::applesoft::tokenizer::Tokenizer::new().detokenize(&i2).map(|s| s.len().to_string()).map_err(|_| ()));
        r.q(&format!("c12 adetok {}", hx(&input)), out.class());
        r.verdict(idx, "detok/applesoft", &out, &cliphex(&input, 200));
        r.case(&[b"A", &input[..]].concat(), true);
        if k == 0 { r.sample(&format!("detok/applesoft {}", hx(&input))); }
    }
    for k in 0..(fixed_i.len() + n) {
        let mut rng = rng0.fork(0x10_0000 + k as u64);
        let Some(idx) = r.claim() else { continue };
        let input = if k < fixed_i.len() { fixed_i[k].clone() } else if iseeds.is_empty() || rng.chance(25) { let n = rng.below(24); rng.bytes(n) }
            else { let sd: &Vec<u8> = &iseeds[rng.below(iseeds.len())]; mutate_bytes(&mut rng, sd, &[1, 0x28, 0x29, 0x5D, 0xDC, 0xF8, 0xB0, 0xB9, 0xC1, 0x7F, 0x30]) };
        let i2 = input.clone();
        r.mark(idx, "detok/integer", &cliphex(&input, 200));
        let out = watched(5000, move || a2kit::lang::integer::tokenizer::Tokenizer::new().detokenize(&i2).map(|s| s.len().to_string()).map_err(|_| ()));
        r.q(&format!("c12 idetok {}", hx(&input)), out.class());
        r.verdict(idx, "detok/integer", &out, &cliphex(&input, 200));
        r.case(&[b"I", &input[..]].concat(), true);
        if k == 0 { r.sample(&format!("detok/integer {}", hx(&input))); }
    }
    let n = r.ctx.n(500, 20000);
    for k in 0..n {
        let mut rng = rng0.fork(0x20_0000 + k as u64);
        let Some(idx) = r.claim() else { continue };
        let input = if mseeds.is_empty() || rng.chance(30) { let n = rng.below(40); rng.bytes(n) }
            else { let sd: &Vec<u8> = &mseeds[rng.below(mseeds.len())]; mutate_bytes(&mut rng, sd, &[0x8d, 0xa0, 0x20, 0x09, 0xbb, 0xaa, 0xa2, 0xa7, 0x7f, 0xff]) };
        let i2 = input.clone();
        r.mark(idx, "detok/merlin", &cliphex(&input, 200));
        let out = watched(5000, move || a2kit::lang::merlin::tokenizer::Tokenizer::new().detokenize(&i2).map(|s| s.len().to_string()).map_err(|_| ()));
        r.verdict(idx, "detok/merlin", &out, &cliphex(&input, 200));
        r.case(&[b"M", &input[..]].concat(), true);
    }
    // disassembler: all processors, MX combinations, random bytes + opcode-dense buffers cut short
    use a2kit::lang::merlin::ProcessorType;
    use a2kit::lang::merlin::disassembly::{DasmRange, Disassembler};
    let n = r.ctx.n(600, 30000);
    for k in 0..n {
        let mut rng = rng0.fork(0x30_0000 + k as u64);
        let Some(idx) = r.claim() else { continue };
        let len = if rng.chance(20) { rng.below(4) } else { rng.below(48) };
        let input = match rng.below(4) {
            0 => { let b = rng.byte(); vec![b; len] }
            1 => (0..len).map(|_| *rng.pick(&[0x20u8, 0x4c, 0xa9, 0x44, 0x54, 0x80, 0x82, 0x22, 0x5c, 0x00, 0xff, 0xc1, 0x41])).collect(),
            _ => rng.bytes(len),
        };
        let pk = rng.below(4);
        let (m8, x8) = (rng.chance(50), rng.chance(50));
        let mode = rng.below(5);
        let labeling = rng.pick(&["all", "some", "none"]).to_string();
        let i2 = input.clone();
        let desc = format!("proc={} m8={} x8={} mode={} labels={} bytes={}", pk, m8, x8, mode, labeling, cliphex(&input, 200));
        r.mark(idx, "dasm", &desc);
        let out = watched(8000, move || {
            let proc = match pk { 0 => ProcessorType::_6502, 1 => ProcessorType::_65c02, 2 => ProcessorType::_65802, _ => ProcessorType::_65c816 };
            let mut d = Disassembler::new();
            d.set_mx(m8, x8);
            match mode {
                0 | 1 => d.disassemble(&i2, DasmRange::All, proc, &labeling).map(|s| s.len().to_string()).map_err(|_| ()),
                2 => { let e = i2.len(); let b = if e > 0 { e / 2 } else { 0 }; d.disassemble(&i2, DasmRange::Range([b, e]), proc, &labeling).map(|s| s.len().to_string()).map_err(|_| ()) }
                3 => { d.set_program_counter(Some(0x300)); Ok(d.disassemble_as_data(&i2).len().to_string()) }
                _ => { d.set_program_counter(Some(0x300)); Ok(d.disassemble_as_code(&i2).len().to_string()) }
            }
        });
        r.verdict(idx, "dasm", &out, &desc);
        r.case(desc.as_bytes(), !input.is_empty());
    }
}

// ------------------------------------------------------------------------------------------------
// stream I: disk images
// ------------------------------------------------------------------------------------------------

#[derive(Clone)]
pub struct Seed {
    pub name: String,
    pub ext: &'static str,
    pub fs: &'static str,
    pub bytes: Vec<u8>,
    /// raw sector container (fast to mount): FS-level corruptions are enumerated exhaustively
    pub raw: bool,
}

fn add_files(disk: &mut Box<dyn DiskFS>, fs: &str) -> usize {
    let mut n = 0;
    let (txt, bin, prog, big, sub) = match fs {
        "cpm" => ("HELLO.TXT", "BIN1.COM", "PROG.BAS", "BIG.DAT", ""),
        "fat" => ("HELLO.TXT", "BIN1.COM", "PROG.BAS", "BIG.DAT", "DIR1"),
        "pascal" => ("HELLO.TEXT", "BIN1.CODE", "PROG.DATA", "BIG.DATA", ""),
        "prodos" => ("HELLO", "BIN1", "PROG", "BIG", "DIR1"),
        _ => ("HELLO", "BIN1", "PROG", "BIG", ""),
    };
    if disk.write_text(txt, "HELLO WORLD\nSECOND LINE\n").is_ok() { n += 1; }
    let data: Vec<u8> = (0..700u32).map(|i| (i * 7 % 251) as u8).collect();
    if disk.bsave(bin, &data, Some(0x300), None).is_ok() { n += 1; }
    let mut t = a2kit::lang::applesoft::tokenizer::Tokenizer::new();
    if let Ok(tok) = t.tokenize("10 PRINT \"HI\"\n20 END\n", 2049) {
        if disk.save(prog, &tok, ItemType::ApplesoftTokens, None).is_ok() { n += 1; }
    }
    let bigdat: Vec<u8> = (0..9000u32).map(|i| (i % 253) as u8).collect();
    if disk.bsave(big, &bigdat, Some(0x2000), None).is_ok() { n += 1; }
    if !sub.is_empty() {
        if disk.create(sub).is_ok() {
            n += 1;
            let p = format!("{}/{}", sub, if fs == "fat" { "SUB.TXT" } else { "SUBFILE" });
            if disk.write_text(&p, "IN A SUBDIRECTORY\n").is_ok() { n += 1; }
        }
    }
    n
}

fn format_onto(img: Box<dyn DiskImage>, fs: &str, kind: &DiskKind) -> Result<Vec<u8>, String> {
    let e = |x: Box<dyn std::error::Error>| x.to_string();
    let mut disk: Box<dyn DiskFS> = match fs {
        "dos33" => { let mut d = a2kit::fs::dos3x::Disk::from_img(img).map_err(e)?; d.init33(254, false).map_err(e)?; Box::new(d) }
        "dos32" => { let mut d = a2kit::fs::dos3x::Disk::from_img(img).map_err(e)?; d.init32(254, false).map_err(e)?; Box::new(d) }
        "prodos" => { let floppy = matches!(img.kind(), DiskKind::D35(_) | DiskKind::D525(_)); let mut d = a2kit::fs::prodos::Disk::from_img(img).map_err(e)?; d.format("NEW.DISK", floppy, None).map_err(e)?; Box::new(d) }
        "pascal" => { let mut d = a2kit::fs::pascal::Disk::from_img(img).map_err(e)?; d.format("BLANK", 0xee, None).map_err(e)?; Box::new(d) }
        "cpm" => { let mut d = a2kit::fs::cpm::Disk::from_img(img, a2kit::bios::dpb::DiskParameterBlock::create(kind), [2, 2, 3]).map_err(e)?; d.format("", None).map_err(e)?; Box::new(d) }
        "cpm3" => { let t = chrono::NaiveDate::from_ymd_opt(2000, 1, 1).unwrap().and_hms_opt(0, 0, 0);
                    let mut d = a2kit::fs::cpm::Disk::from_img(img, a2kit::bios::dpb::DiskParameterBlock::create(kind), [3, 1, 0]).map_err(e)?; d.format("VOL", t).map_err(e)?; Box::new(d) }
        "fat" => { let bs = a2kit::bios::bpb::BootSector::create(&img.kind()).map_err(e)?; let mut d = a2kit::fs::fat::Disk::from_img(img, Some(bs)).map_err(e)?; d.format("VOLNAME", None).map_err(e)?; Box::new(d) }
        _ => return Err("unknown fs".to_string()),
    };
    let fsk = if fs == "cpm3" { "cpm" } else if fs.starts_with("dos3") { "dos" } else { fs };
    let n = add_files(&mut disk, fsk);
    if n == 0 { return Err("no files could be added".to_string()); }
    Ok(disk.get_img().to_bytes())
}

pub fn build_seeds(thorough: bool) -> Vec<Seed> {
    use a2kit::img::*;
    let mut v: Vec<Seed> = Vec::new();
    let mut add = |name: &str, ext: &'static str, fs: &'static str, raw: bool, mk: &dyn Fn() -> Option<(Box<dyn DiskImage>, DiskKind)>| {
        let name2 = name.to_string();
        let res = guarded(|| { match mk() { Some((img, kind)) => format_onto(img, fs, &kind), None => Err("image type refused".to_string()) } });
        match res {
            Ok(Ok(bytes)) => v.push(Seed { name: name2, ext, fs: if fs == "cpm3" { "cpm" } else { fs }, bytes, raw }),
            Ok(Err(e)) => eprintln!("c12: seed {} not built: {}", name2, e),
            Err(p) => eprintln!("c12: seed {} not built: panic {}", name2, p),
        }
    };
    let w = |s: &str| Some(s.to_string());
    // --- raw sector containers
    add("do/dos33", "do", "dos33", true, &|| Some((Box::new(dsk_do::DO::create(35, 16)), names::A2_DOS33_KIND)));
    add("d13/dos32", "d13", "dos32", true, &|| Some((Box::new(dsk_d13::D13::create(35)), names::A2_DOS32_KIND)));
    add("po/prodos", "po", "prodos", true, &|| Some((Box::new(dsk_po::PO::create(280)), names::A2_DOS33_KIND)));
    add("do/prodos", "do", "prodos", true, &|| Some((Box::new(dsk_do::DO::create(35, 16)), names::A2_DOS33_KIND)));
    add("po/pascal", "po", "pascal", true, &|| Some((Box::new(dsk_po::PO::create(280)), names::A2_DOS33_KIND)));
    add("do/pascal", "do", "pascal", true, &|| Some((Box::new(dsk_do::DO::create(35, 16)), names::A2_DOS33_KIND)));
    add("do/cpm", "do", "cpm", true, &|| Some((Box::new(dsk_do::DO::create(35, 16)), names::A2_DOS33_KIND)));
    add("img/fat-360", "img", "fat", true, &|| { let k = DiskKind::D525(names::IBM_DSDD_9); Some((Box::new(dsk_img::Img::create(k)), k)) });
    add("img/fat-160", "img", "fat", true, &|| { let k = DiskKind::D525(names::IBM_SSDD_8); Some((Box::new(dsk_img::Img::create(k)), k)) });
    // 180K: one FAT sector holds 341 entries but the data region has 353 clusters (usable < abstract)
    add("img/fat-180", "img", "fat", true, &|| { let k = DiskKind::D525(names::IBM_SSDD_9); Some((Box::new(dsk_img::Img::create(k)), k)) });
    add("po/prodos-800", "po", "prodos", true, &|| Some((Box::new(dsk_po::PO::create(1600)), names::A2_800_KIND)));
    // --- containers with a header or an encoding
    add("2mg-do/prodos", "2mg", "prodos", false, &|| dot2mg::Dot2mg::create(254, names::A2_DOS33_KIND, w("do").as_ref()).ok().map(|i| (i, names::A2_DOS33_KIND)));
    add("2mg-do/dos33", "2mg", "dos33", false, &|| dot2mg::Dot2mg::create(254, names::A2_DOS33_KIND, w("do").as_ref()).ok().map(|i| (i, names::A2_DOS33_KIND)));
    add("2mg-po/prodos-400", "2mg", "prodos", false, &|| dot2mg::Dot2mg::create(254, names::A2_400_KIND, w("po").as_ref()).ok().map(|i| (i, names::A2_400_KIND)));
    add("woz2/dos33", "woz", "dos33", false, &|| Some((Box::new(woz2::Woz2::create(254, names::A2_DOS33_KIND)), names::A2_DOS33_KIND)));
    add("woz1/dos33", "woz", "dos33", false, &|| Some((Box::new(woz1::Woz1::create(254, names::A2_DOS33_KIND)), names::A2_DOS33_KIND)));
    add("woz2/prodos", "woz", "prodos", false, &|| Some((Box::new(woz2::Woz2::create(254, names::A2_DOS33_KIND)), names::A2_DOS33_KIND)));
    add("nib/dos33", "nib", "dos33", false, &|| Some((Box::new(nib::Nib::create(254, names::A2_DOS33_KIND)), names::A2_DOS33_KIND)));
    add("imd/cpm-osb", "imd", "cpm", false, &|| Some((Box::new(imd::Imd::create(names::OSBORNE1_DD_KIND)), names::OSBORNE1_DD_KIND)));
    add("imd/fat-360", "imd", "fat", false, &|| { let k = DiskKind::D525(names::IBM_DSDD_9); Some((Box::new(imd::Imd::create(k)), k)) });
    add("td0/fat-360", "td0", "fat", false, &|| { let k = DiskKind::D525(names::IBM_DSDD_9); Some((Box::new(td0::Td0::create(k)), k)) });
    add("td0/cpm-kay", "td0", "cpm", false, &|| Some((Box::new(td0::Td0::create(names::KAYPROII_KIND)), names::KAYPROII_KIND)));
    if thorough {
        add("woz2/dos32", "woz", "dos32", false, &|| Some((Box::new(woz2::Woz2::create(254, names::A2_DOS32_KIND)), names::A2_DOS32_KIND)));
        add("woz1/dos32", "woz", "dos32", false, &|| Some((Box::new(woz1::Woz1::create(254, names::A2_DOS32_KIND)), names::A2_DOS32_KIND)));
        add("woz1/prodos", "woz", "prodos", false, &|| Some((Box::new(woz1::Woz1::create(254, names::A2_DOS33_KIND)), names::A2_DOS33_KIND)));
        add("woz2/pascal", "woz", "pascal", false, &|| Some((Box::new(woz2::Woz2::create(254, names::A2_DOS33_KIND)), names::A2_DOS33_KIND)));
        add("woz2/cpm", "woz", "cpm", false, &|| Some((Box::new(woz2::Woz2::create(254, names::A2_DOS33_KIND)), names::A2_DOS33_KIND)));
        add("woz2/prodos-800", "woz", "prodos", false, &|| Some((Box::new(woz2::Woz2::create(254, names::A2_800_KIND)), names::A2_800_KIND)));
        add("woz2/prodos-400", "woz", "prodos", false, &|| Some((Box::new(woz2::Woz2::create(254, names::A2_400_KIND)), names::A2_400_KIND)));
        add("nib/dos32", "nib", "dos32", false, &|| Some((Box::new(nib::Nib::create(254, names::A2_DOS32_KIND)), names::A2_DOS32_KIND)));
        add("nib/prodos", "nib", "prodos", false, &|| Some((Box::new(nib::Nib::create(254, names::A2_DOS33_KIND)), names::A2_DOS33_KIND)));
        add("2mg-nib/dos33", "2mg", "dos33", false, &|| dot2mg::Dot2mg::create(254, names::A2_DOS33_KIND, w("nib").as_ref()).ok().map(|i| (i, names::A2_DOS33_KIND)));
        add("imd/cpm-kay4", "imd", "cpm", false, &|| Some((Box::new(imd::Imd::create(names::KAYPRO4_KIND)), names::KAYPRO4_KIND)));
        add("imd/cpm-8in", "imd", "cpm", false, &|| Some((Box::new(imd::Imd::create(names::IBM_CPM1_KIND)), names::IBM_CPM1_KIND)));
        add("imd/cpm3-ams", "imd", "cpm3", false, &|| Some((Box::new(imd::Imd::create(names::AMSTRAD_SS_KIND)), names::AMSTRAD_SS_KIND)));
        add("imd/cpm-nabu", "imd", "cpm", false, &|| Some((Box::new(imd::Imd::create(names::NABU_CPM_KIND)), names::NABU_CPM_KIND)));
        add("imd/cpm-trs", "imd", "cpm", false, &|| Some((Box::new(imd::Imd::create(names::TRS80_M2_CPM_KIND)), names::TRS80_M2_CPM_KIND)));
        add("imd/fat-1440", "imd", "fat", false, &|| { let k = DiskKind::D35(names::IBM_1440); Some((Box::new(imd::Imd::create(k)), k)) });
        add("td0/fat-720", "td0", "fat", false, &|| { let k = DiskKind::D35(names::IBM_720); Some((Box::new(td0::Td0::create(k)), k)) });
        add("td0/cpm-osb-sd", "td0", "cpm", false, &|| Some((Box::new(td0::Td0::create(names::OSBORNE1_SD_KIND)), names::OSBORNE1_SD_KIND)));
        add("img/fat-1200", "img", "fat", true, &|| { let k = DiskKind::D525(names::IBM_DSHD); Some((Box::new(dsk_img::Img::create(k)), k)) });
        add("imd/fat-180", "imd", "fat", false, &|| { let k = DiskKind::D525(names::IBM_SSDD_9); Some((Box::new(imd::Imd::create(k)), k)) });
        add("td0/fat-180", "td0", "fat", false, &|| { let k = DiskKind::D525(names::IBM_SSDD_9); Some((Box::new(td0::Td0::create(k)), k)) });
        add("img/fat-720", "img", "fat", true, &|| { let k = DiskKind::D35(names::IBM_720); Some((Box::new(dsk_img::Img::create(k)), k)) });
    }
    v
}

/// identify + mount + the read-only queries; returns a short summary (or Err if nothing mounted)
fn exercise(bytes: &Vec<u8>, ext: Option<&str>) -> Result<String, ()> {
    // identification of the container alone
    let _ = a2kit::create_img_from_bytestream(bytes, ext).map(|mut i| { let _ = i.get_metadata(None); });
    let mut disk = match a2kit::create_fs_from_bytestream(bytes, ext) { Ok(d) => d, Err(_) => return Err(()) };
    let mut sum = String::new();
    let st = disk.stat();
    sum += if st.is_ok() { "S" } else { "s" };
    if let Ok(s) = st { let _ = s.to_json(None); }
    let cat = disk.catalog_to_vec("/");
    sum += if cat.is_ok() { "C" } else { "c" };
    let tr = disk.tree(true, None);
    sum += if tr.is_ok() { "T" } else { "t" };
    let mut paths: Vec<String> = Vec::new();
    for pat in ["*", "*/*"] {
        match disk.glob(pat, false) { Ok(mut g) => { sum += "G"; paths.append(&mut g); } Err(_) => sum += "g" }
    }
    // names straight from the catalog rows as well (column 12.. is the basename)
    if let Ok(rows) = &cat { for row in rows { if row.len() > 12 { paths.push(row[12..].to_string()); } } }
    paths.sort(); paths.dedup();
    let mut got = 0;
    for p in paths.iter().take(24) {
        if let Ok(f) = disk.get(p) { got += 1; let _ = f.unpack_raw(true); let _ = f.to_json(None); }
    }
    sum += &format!(" files={} got={}", paths.len(), got);
    Ok(sum)
}

#[derive(Clone, Debug)]
enum Mutn {
    /// byte at file offset := value
    Poke(usize, u8),
    /// 16/32-bit little-endian field at file offset := value
    PokeLE(usize, usize, u64),
    Truncate(usize),
    Extend(usize, u8),
    /// byte `off` of FS block := value  (written through the image layer, so the container stays valid)
    Blk(BlockRef, usize, u8),
    /// little-endian field of `width` bytes at `off` of FS block := value
    BlkLE(BlockRef, usize, usize, u64),
    /// several bytes of one FS block at once (fields that only matter in combination)
    BlkMany(BlockRef, Vec<(usize, u8)>),
    /// FAT entry `n` := value, in every copy of the FAT (the mount repairs the first FAT from the backups)
    FatEnt(usize, u32),
    /// several little-endian fields of the file at once: (offset, width, value) — fields that only matter in combination
    PokeMulti(Vec<(usize, usize, u64)>),
}

/// what the boot sector of a FAT seed says: (bits per entry, usable clusters, clusters in the data region,
/// entries the FAT buffer can hold, first root sector, root sectors, sectors per cluster, reserved, FATs, FAT sectors)
#[derive(Clone, Copy, Debug)]
struct FatGeom { typ: usize, usable: usize, abstract_: usize, entries: usize, root: u64, rootsecs: u64, spc: u64, res: u64, nfats: u64, fsz: u64 }
fn fat_geom(b: &[u8]) -> Option<FatGeom> {
    if b.len() < 64 { return None; }
    let bps = b[11] as u64 + 256 * b[12] as u64; let spc = b[13] as u64;
    let res = b[14] as u64 + 256 * b[15] as u64; let nf = b[16] as u64; let fsz = b[22] as u64 + 256 * b[23] as u64;
    let ents = b[17] as u64 + 256 * b[18] as u64; let tot = b[19] as u64 + 256 * b[20] as u64;
    if bps == 0 || spc == 0 || fsz == 0 { return None; }
    let rootsecs = (ents * 32 + bps - 1) / bps;
    let over = res + nf * fsz + rootsecs;
    if tot <= over { return None; }
    let a = ((tot - over) / spc) as usize;
    let typ = if a < 4085 { 12 } else { 16 };
    let entries = (fsz * bps * 8 / typ as u64) as usize;
    Some(FatGeom { typ, usable: a.min(entries.saturating_sub(2)), abstract_: a, entries, root: res + nf * fsz, rootsecs, spc, res, nfats: nf, fsz })
}

#[derive(Clone, Copy, Debug)]
enum BlockRef { D13(usize, usize), DO(usize, usize), PO(usize), CPM(usize, u8, u16), FAT(u64) }
impl BlockRef {
    fn to_block(&self) -> Block {
        match *self { BlockRef::D13(t, s) => Block::D13([t, s]), BlockRef::DO(t, s) => Block::DO([t, s]), BlockRef::PO(b) => Block::PO(b),
            BlockRef::CPM(b, bsh, off) => Block::CPM((b, bsh, off)), BlockRef::FAT(s) => Block::FAT((s, 1)) }
    }
}

fn values_for(orig: u8) -> Vec<u8> {
    let mut v = vec![0x00, 0xFF, orig.wrapping_add(1), orig.wrapping_sub(1), orig ^ 0x80];
    v.sort(); v.dedup(); v.retain(|x| *x != orig);
    v
}

/// the FS metadata blocks of a mounted seed: (block, bytes)
fn fs_blocks(seed: &Seed) -> Vec<(BlockRef, Vec<u8>)> {
    let mut out = Vec::new();
    let r = guarded(|| -> Vec<(BlockRef, Vec<u8>)> {
        let mut v = Vec::new();
        let mut img = match a2kit::create_img_from_bytestream(&seed.bytes, Some(seed.ext)) { Ok(i) => i, Err(_) => return v };
        let mut refs: Vec<BlockRef> = Vec::new();
        match seed.fs {
            "dos33" => {
                refs.push(BlockRef::DO(17, 0)); refs.push(BlockRef::DO(17, 15)); refs.push(BlockRef::DO(17, 14));
                if let Ok(cat) = img.read_block(Block::DO([17, 15])) { // T/S list of the first two files
                    for e in 0..2 { let (t, s) = (cat[0x0b + e * 35] as usize, cat[0x0c + e * 35] as usize); if t < 35 && s < 16 && t > 0 { refs.push(BlockRef::DO(t, s)); } }
                }
            }
            "dos32" => {
                refs.push(BlockRef::D13(17, 0)); refs.push(BlockRef::D13(17, 12)); refs.push(BlockRef::D13(17, 11));
                if let Ok(cat) = img.read_block(Block::D13([17, 12])) {
                    for e in 0..2 { let (t, s) = (cat[0x0b + e * 35] as usize, cat[0x0c + e * 35] as usize); if t < 35 && s < 13 && t > 0 { refs.push(BlockRef::D13(t, s)); } }
                }
            }
            "prodos" => {
                refs.push(BlockRef::PO(2)); refs.push(BlockRef::PO(3)); refs.push(BlockRef::PO(6));
                if let Ok(dir) = img.read_block(Block::PO(2)) { // key blocks of the entries (index blocks, subdirectory key block)
                    for e in 1..8 { let o = 4 + e * 39; let st = dir[o] >> 4; let kp = dir[o + 0x11] as usize + 256 * dir[o + 0x12] as usize;
                        if (st == 2 || st == 3 || st == 13) && kp > 6 && kp < 1600 { refs.push(BlockRef::PO(kp)); } }
                }
            }
            "pascal" => { refs.push(BlockRef::PO(2)); refs.push(BlockRef::PO(3)); }
            "cpm" => {
                let kind = img.kind();
                let dpb = guarded(|| a2kit::bios::dpb::DiskParameterBlock::create(&kind));
                if let Ok(dpb) = dpb { refs.push(BlockRef::CPM(0, dpb.bsh, dpb.off)); }
            }
            "fat" => {
                refs.push(BlockRef::FAT(0)); refs.push(BlockRef::FAT(1));
                if let Ok(b) = img.read_block(Block::FAT((0, 1))) {
                    let res = b[14] as u64 + 256 * b[15] as u64; let nf = b[16] as u64; let fsz = b[22] as u64 + 256 * b[23] as u64;
                    let root = res + nf * fsz; let rootsecs = (b[17] as u64 + 256 * b[18] as u64) * 32 / 512;
                    refs.push(BlockRef::FAT(root));
                    // first sector of the subdirectory DIR1 if present: scan root for attribute 0x10
                    if let Ok(rd) = img.read_block(Block::FAT((root, 1))) {
                        for e in 0..16 { if rd[e * 32 + 11] == 0x10 { let cl = rd[e * 32 + 26] as u64 + 256 * rd[e * 32 + 27] as u64; let spc = b[13] as u64;
                            if cl >= 2 && spc > 0 { refs.push(BlockRef::FAT(root + rootsecs + (cl - 2) * spc)); } } }
                    }
                }
            }
            _ => {}
        }
        for rf in refs { if let Ok(b) = img.read_block(rf.to_block()) { v.push((rf, b)); } }
        v
    });
    if let Ok(v) = r { out = v; }
    out
}

fn apply(seed: &Seed, m: &Mutn) -> Option<Vec<u8>> {
    match m {
        Mutn::Poke(o, v) => { let mut b = seed.bytes.clone(); if *o < b.len() { b[*o] = *v; Some(b) } else { None } }
        Mutn::PokeLE(o, w, v) => { let mut b = seed.bytes.clone(); if o + w <= b.len() { for i in 0..*w { b[o + i] = (v >> (8 * i)) as u8; } Some(b) } else { None } }
        Mutn::PokeMulti(ps) => { let mut b = seed.bytes.clone(); for (o, w, v) in ps { if o + w > b.len() { return None; } for i in 0..*w { b[o + i] = (v >> (8 * i)) as u8; } } Some(b) }
        Mutn::Truncate(n) => { if *n <= seed.bytes.len() { Some(seed.bytes[..*n].to_vec()) } else { None } }
        Mutn::Extend(n, v) => { let mut b = seed.bytes.clone(); b.extend(std::iter::repeat(*v).take(*n)); Some(b) }
        Mutn::Blk(rf, off, v) => {
            let (rf, off, v) = (*rf, *off, *v);
            let bytes = seed.bytes.clone(); let ext = seed.ext;
            guarded(move || -> Option<Vec<u8>> {
                let mut img = a2kit::create_img_from_bytestream(&bytes, Some(ext)).ok()?;
                let mut blk = img.read_block(rf.to_block()).ok()?;
                if off >= blk.len() { return None; }
                blk[off] = v;
                img.write_block(rf.to_block(), &blk).ok()?;
                Some(img.to_bytes())
            }).ok().flatten()
        }
        Mutn::BlkLE(rf, off, w, v) => {
            let (rf, off, w, v) = (*rf, *off, *w, *v);
            let bytes = seed.bytes.clone(); let ext = seed.ext;
            guarded(move || -> Option<Vec<u8>> {
                let mut img = a2kit::create_img_from_bytestream(&bytes, Some(ext)).ok()?;
                let mut blk = img.read_block(rf.to_block()).ok()?;
                if off + w > blk.len() { return None; }
                for i in 0..w { blk[off + i] = (v >> (8 * i)) as u8; }
                img.write_block(rf.to_block(), &blk).ok()?;
                Some(img.to_bytes())
            }).ok().flatten()
        }
        Mutn::BlkMany(rf, pokes) => {
            let (rf, pokes) = (*rf, pokes.clone());
            let bytes = seed.bytes.clone(); let ext = seed.ext;
            guarded(move || -> Option<Vec<u8>> {
                let mut img = a2kit::create_img_from_bytestream(&bytes, Some(ext)).ok()?;
                let mut blk = img.read_block(rf.to_block()).ok()?;
                for (off, v) in pokes { if off >= blk.len() { return None; } blk[off] = v; }
                img.write_block(rf.to_block(), &blk).ok()?;
                Some(img.to_bytes())
            }).ok().flatten()
        }
        Mutn::FatEnt(n, v) => {
            let (n, v) = (*n, *v);
            let bytes = seed.bytes.clone(); let ext = seed.ext;
            guarded(move || -> Option<Vec<u8>> {
                let mut img = a2kit::create_img_from_bytestream(&bytes, Some(ext)).ok()?;
                let boot = img.read_block(Block::FAT((0, 1))).ok()?;
                let g = fat_geom(&boot)?;
                let ssz = boot.len();
                for copy in 0..g.nfats {
                    let first = g.res + copy * g.fsz;
                    let mut fat: Vec<u8> = Vec::new();
                    for s in 0..g.fsz { fat.extend(img.read_block(Block::FAT((first + s, 1))).ok()?); }
                    if g.typ == 12 {
                        let o = n + n / 2;
                        if o + 1 >= fat.len() { return None; }
                        let old = u16::from_le_bytes([fat[o], fat[o + 1]]);
                        let new = if n & 1 == 1 { (old & 0x000f) | ((v as u16) << 4) } else { (old & 0xf000) | (v as u16 & 0x0fff) };
                        fat[o] = new as u8; fat[o + 1] = (new >> 8) as u8;
                    } else {
                        let o = n * 2;
                        if o + 1 >= fat.len() { return None; }
                        fat[o] = v as u8; fat[o + 1] = (v >> 8) as u8;
                    }
                    for s in 0..g.fsz as usize { img.write_block(Block::FAT((first + s as u64, 1)), &fat[s * ssz..(s + 1) * ssz]).ok()?; }
                }
                Some(img.to_bytes())
            }).ok().flatten()
        }
    }
}

/// Two-step cases that byte-wise corruption does not reach: a pointer field set to a value just inside or just
/// outside what the *next* structure can hold (FAT first-cluster fields and FAT links around the usable and the
/// abstract cluster count and the capacity of the FAT buffer; block pointers around the volume size; track/sector
/// pairs around the geometry; WOZ track bit counts just above the track's own buffer).  Always run in full.
fn targeted(seed: &Seed, blocks: &[(BlockRef, Vec<u8>)], thorough: bool) -> Vec<Mutn> {
    let mut m: Vec<Mutn> = Vec::new();
    let b = &seed.bytes;
    match seed.fs {
        "fat" => {
            let boot = blocks.iter().find(|(rf, _)| matches!(rf, BlockRef::FAT(0)));
            if let Some(g) = boot.and_then(|(_, d)| fat_geom(d)) {
                let mut vals: Vec<u64> = Vec::new();
                for base in [2 + g.usable, 2 + g.abstract_, g.entries] { for d in [-2i64, -1, 0, 1, 2] { vals.push((base as i64 + d) as u64); } }
                vals.extend([0, 1, 0xFF6, 0xFF7]);
                vals.sort(); vals.dedup();
                // every value `BPBFoundation::verify` accepts for the sector size and the cluster size, and FAT sizes around the real one
                for v in [512u64, 1024, 2048, 4096] { m.push(Mutn::BlkLE(BlockRef::FAT(0), 11, 2, v)); }
                for v in [1u8, 2, 4, 8, 16, 32, 64, 128] { m.push(Mutn::Blk(BlockRef::FAT(0), 13, v)); }
                for v in [g.fsz - 1, g.fsz + 1, g.fsz * 2, 255] { if v > 0 { m.push(Mutn::BlkLE(BlockRef::FAT(0), 22, 2, v)); } }
                for v in [1u64, 2, 8] { m.push(Mutn::BlkLE(BlockRef::FAT(0), 14, 2, v)); }
                // sector size doubled (accepted by verify) with a FAT that is then too small for the data region
                for fs in [1u8, 2] { for ss in [4u8, 8] { m.push(Mutn::BlkMany(BlockRef::FAT(0), vec![(11, 0), (12, ss), (22, fs), (23, 0)])); } }
                for (rf, data) in blocks {
                    let is_dir = match rf { BlockRef::FAT(s) => *s >= g.root, _ => false };
                    if !is_dir { continue; }
                    for e in 0..data.len() / 32 {
                        let d = &data[e * 32..e * 32 + 32];
                        if d[0] == 0 || d[0] == 0xE5 || d[11] & 0x08 != 0 || d[0] == b'.' { continue; }
                        for v in &vals { m.push(Mutn::BlkLE(*rf, e * 32 + 26, 2, *v)); }
                        let c = d[26] as usize + 256 * d[27] as usize;
                        if c >= 2 {
                            for v in &vals { m.push(Mutn::FatEnt(c, *v as u32)); }
                            if d[28] as usize + 256 * d[29] as usize > 2 * 512 * g.spc as usize { for v in &vals { m.push(Mutn::FatEnt(c + 1, *v as u32)); } }
                        }
                    }
                }
            }
        }
        "prodos" => {
            let total = blocks.iter().find(|(rf, _)| matches!(rf, BlockRef::PO(2))).map(|(_, d)| d[0x29] as u64 + 256 * d[0x2a] as u64).unwrap_or(280);
            for (rf, data) in blocks {
                if !matches!(rf, BlockRef::PO(2)) { continue; }
                for e in 1..13 {
                    let o = 4 + e * 39;
                    if o + 39 > data.len() || data[o] == 0 { continue; }
                    for v in [total - 1, total, total + 1, 0xFFFF] { m.push(Mutn::BlkLE(*rf, o + 0x11, 2, v)); }
                    for v in [0xFFFFFFu64, 0x1000000 - 1, 512 * total] { m.push(Mutn::BlkLE(*rf, o + 0x15, 3, v)); }
                }
                for v in [total - 1, total, total + 1] { m.push(Mutn::BlkLE(*rf, 2, 2, v)); }
            }
        }
        "pascal" => {
            for (rf, data) in blocks {
                if !matches!(rf, BlockRef::PO(2)) { continue; }
                let total = data[14] as u64 + 256 * data[15] as u64;
                for e in 1..8 {
                    let o = e * 26;
                    if data[o] == 0 && data[o + 1] == 0 { continue; }
                    for v in [total - 1, total, total + 1, 0xFFFF] { m.push(Mutn::BlkLE(*rf, o, 2, v)); m.push(Mutn::BlkLE(*rf, o + 2, 2, v)); }
                }
                for v in [5u64, 6, 7, 20, 21, 77, 78] { m.push(Mutn::BlkLE(*rf, 2, 2, v)); m.push(Mutn::BlkLE(*rf, 16, 2, v)); }
            }
        }
        "dos33" | "dos32" => {
            let secs: u64 = if seed.fs == "dos33" { 16 } else { 13 };
            for (rf, data) in blocks.iter().skip(3) { // the T/S lists
                let _ = data;
                for k in 0..3 { for (t, s2) in [(35u64, 0u64), (34, secs), (34, secs - 1), (255, 255)] { m.push(Mutn::BlkLE(*rf, 12 + 2 * k, 2, t + 256 * s2)); } }
                m.push(Mutn::BlkLE(*rf, 1, 2, 35)); m.push(Mutn::BlkLE(*rf, 1, 2, 17 + 256 * secs));
            }
        }
        _ => {}
    }
    if seed.ext == "woz" && b.len() > 300 {
        let tracks: Vec<usize> = if thorough { (0..35).collect() } else { vec![0, 1, 2, 16, 17, 18, 19] };
        if b[3] == b'2' {
            for t in tracks { let o = 256 + 8 * t; let cap = (b[o + 2] as u64 + 256 * b[o + 3] as u64) * 512 * 8;
                if cap == 0 { continue; }
                for d in [1u64, 8, 64, 4096] { m.push(Mutn::PokeLE(o + 4, 4, cap + d)); } }
        } else {
            for t in tracks { let o = 256 + 6656 * t + 6648; if o + 2 > b.len() { continue; }
                for v in [53169u64, 53176, 53232, 60000] { m.push(Mutn::PokeLE(o, 2, v)); } }
        }
    }
    m
}


/// Container header fields that are only dangerous **together** (a length and the count it is checked against, a start
/// and a size, …): 2-3 related fields of one structure corrupted consistently, at boundary values.  Always run in full.
fn related(seed: &Seed, thorough: bool) -> Vec<Mutn> {
    let mut m: Vec<Mutn> = Vec::new();
    let b = &seed.bytes;
    let flen = b.len() as u64;
    match seed.ext {
        "woz" if b.len() > 300 && b[3] == b'1' => {
            // WOZ1 TRK entry: 6646 bytes of bits, bytes_used u16, bit_count u16 (+ the TMAP entry that leads to it)
            let tracks: Vec<usize> = if thorough { (0..35).collect() } else { vec![0, 1, 17, 18, 34] };
            for t in tracks {
                let e = 256 + 6656 * t;
                if e + 6656 > b.len() { continue; }
                for (bu, bc) in [(6647u64, 53169u64), (6647, 53176), (6656, 53248), (7000, 53176), (8000, 64000), (8191, 65528), (8192, 65535), (0xFFFF, 0xFFFF),
                                 (0xFFFF, 53169), (6646, 53169), (6645, 53168), (1, 9), (1, 8), (0, 1), (0, 0), (6646, 0)] {
                    m.push(Mutn::PokeMulti(vec![(e + 6646, 2, bu), (e + 6648, 2, bc)]));
                }
                // another quarter-track entry of the TMAP pointing at the corrupted TRK
                if t + 1 < 35 { m.push(Mutn::PokeMulti(vec![(88 + 4 * (t + 1), 1, t as u64), (e + 6646, 2, 0xFFFF), (e + 6648, 2, 0xFFFF)])); }
            }
        }
        "woz" if b.len() > 1600 && b[3] == b'2' => {
            // WOZ2 TRK entry: starting_block u16, block_count u16, bit_count u32
            let tracks: Vec<usize> = if thorough { (0..35).collect() } else { vec![0, 1, 17, 18, 34] };
            let total_blocks = flen / 512;
            for t in tracks {
                let o = 256 + 8 * t;
                let start = b[o] as u64 + 256 * b[o + 1] as u64; let cnt = b[o + 2] as u64 + 256 * b[o + 3] as u64;
                if cnt == 0 { continue; }
                for (st, ct, bc) in [(start, cnt + 1, (cnt + 1) * 4096), (start, cnt + 1, cnt * 4096 + 1), (start, 0xFFFF, 0xFFFF * 4096), (start, 0xFFFF, 0xFFFFFFFF),
                                     (total_blocks - 1, cnt, cnt * 4096), (total_blocks, 1, 4096), (total_blocks - cnt, cnt, cnt * 4096), (total_blocks - cnt + 1, cnt, cnt * 4096),
                                     (3, total_blocks - 3, (total_blocks - 3) * 4096), (3, total_blocks - 2, (total_blocks - 2) * 4096), (2, cnt, cnt * 4096), (0, cnt, cnt * 4096),
                                     (start, 1, 4097), (start, 1, 4096), (start, 0, 1), (start, 0, 0), (0xFFFF, 0xFFFF, 0xFFFFFFFF), (start, cnt, cnt * 4096 + 1)] {
                    m.push(Mutn::PokeMulti(vec![(o, 2, st), (o + 2, 2, ct), (o + 4, 4, bc)]));
                }
            }
            // INFO: largest track (blocks) and the flux fields with the version
            m.push(Mutn::PokeMulti(vec![(20, 1, 3), (66, 2, 3), (68, 2, 1)]));
            m.push(Mutn::PokeMulti(vec![(20, 1, 3), (66, 2, total_blocks), (68, 2, 0xFFFF)]));
        }
        "2mg" if b.len() > 64 => {
            let (doff, dlen) = (u32::from_le_bytes([b[0x18], b[0x19], b[0x1a], b[0x1b]]) as u64, u32::from_le_bytes([b[0x1c], b[0x1d], b[0x1e], b[0x1f]]) as u64);
            let blocks = u32::from_le_bytes([b[0x14], b[0x15], b[0x16], b[0x17]]) as u64;
            for (o, l) in [(doff, dlen + 1), (doff + 1, dlen), (doff + 1, dlen - 1), (doff - 1, dlen + 1), (flen - 1, 1), (flen, 0), (flen, 1), (0, flen), (0, 0), (64, 0xFFFFFFFF), (0xFFFFFFFF, 1), (0xFFFFFF00, 0x200), (dlen, doff)] {
                m.push(Mutn::PokeMulti(vec![(0x18, 4, o), (0x1c, 4, l)]));
            }
            for (bl, l) in [(blocks + 1, dlen + 512), (blocks + 1, dlen), (blocks - 1, dlen - 512), (0, dlen), (0xFFFFFFFF, dlen), (blocks * 2, dlen * 2), (1, 512), (0x800000, 0)] {
                m.push(Mutn::PokeMulti(vec![(0x14, 4, bl), (0x1c, 4, l)]));
            }
            // comment and creator chunks: offset + length
            for base in [0x20usize, 0x28] {
                for (o, l) in [(flen - 1, 1), (flen - 1, 2), (flen, 1), (doff, dlen), (doff + dlen, 0xFFFFFFFF), (0xFFFFFFFF, 0xFFFFFFFF), (1, flen), (64, 0), (0, 5)] {
                    m.push(Mutn::PokeMulti(vec![(base, 4, o), (base + 4, 4, l)]));
                }
            }
            // header length with the data offset; format with the block count
            for (hl, o) in [(0u64, 0u64), (63, 63), (65, 65), (0xFFFF, 64), (64, 0xFFFF)] { m.push(Mutn::PokeMulti(vec![(8, 2, hl), (0x18, 4, o)])); }
            for (fm, bl) in [(0u64, 0u64), (1, 0), (2, blocks), (2, 0), (3, blocks), (0, blocks * 2)] { m.push(Mutn::PokeMulti(vec![(0x0c, 4, fm), (0x14, 4, bl)])); }
        }
        "imd" => {
            // track header: mode, cylinder, head (+ map flags), sector count, size code — count and size together, flags and count
            let eoh = b.iter().position(|x| *x == 0x1a).unwrap_or(0);
            let mut p = eoh + 1;
            for t in 0..(if thorough { 12 } else { 4 }) {
                if p + 5 > b.len() { break; }
                let nsec = b[p + 3] as u64; let sz = b[p + 4] as u64; let ssz = 128usize << (b[p + 4].min(6));
                for (n, z) in [(nsec + 1, sz), (nsec - 1, sz), (nsec, sz + 1), (nsec, sz.saturating_sub(1)), (nsec * 2, sz.saturating_sub(1)), (nsec / 2, sz + 1), (0, 6), (255, 6), (255, 0), (1, 0), (1, 6), (0, 0), (nsec, 7), (nsec, 255), (255, 255)] {
                    m.push(Mutn::PokeMulti(vec![(p + 3, 1, n), (p + 4, 1, z)]));
                }
                for (h, n) in [(0x80u64, nsec), (0x40, nsec), (0xC0, nsec), (0x80, nsec / 2), (0xC0, nsec / 3), (0xC1, 255), (0x3F, nsec)] { m.push(Mutn::PokeMulti(vec![(p + 2, 1, h), (p + 3, 1, n)])); }
                // first sector record type with the size code
                let q = p + 5 + nsec as usize;
                if q < b.len() { for (ty, z) in [(0u64, sz), (2, sz), (2, sz + 1), (1, sz + 1), (8, 0), (9, sz), (0, 7)] { m.push(Mutn::PokeMulti(vec![(q, 1, ty), (p + 4, 1, z)])); } }
                let _ = t;
                let mut q2 = q;
                for _s in 0..nsec { if q2 >= b.len() { break; } q2 += match b[q2] { 1 | 3 | 5 | 7 => 1 + ssz, 2 | 4 | 6 | 8 => 2, _ => 1 }; }
                p = q2;
            }
        }
        _ => {}
    }
    m
}

/// offsets in the seed file that belong to container structures (headers, chunk headers, track headers)
fn container_offsets(seed: &Seed) -> (Vec<usize>, Vec<usize>) {
    // returns (byte offsets to corrupt, structure boundaries for truncation)
    let b = &seed.bytes;
    let mut offs: Vec<usize> = Vec::new();
    let mut bounds: Vec<usize> = vec![0, 1, 99, 100, 101, 512, b.len() / 2, b.len() - 1];
    match seed.ext {
        "woz" => {
            offs.extend(0..12);
            let mut p = 12;
            while p + 8 <= b.len() {
                let size = u32::from_le_bytes([b[p + 4], b[p + 5], b[p + 6], b[p + 7]]) as usize;
                let id = &b[p..p + 4];
                bounds.push(p); bounds.push(p + 8);
                offs.extend(p..p + 8);
                if id == b"INFO" { offs.extend(p + 8..(p + 8 + size).min(b.len())); }
                if id == b"TMAP" { offs.extend((p + 8..p + 8 + 16).chain(p + 8 + 156..p + 8 + 160)); }
                if id == b"TRKS" { if b[3] == b'2' { offs.extend(p + 8..p + 8 + 24); offs.extend(p + 8 + 34 * 8..p + 8 + 36 * 8); bounds.push(p + 8 + 1280); }
                    else { offs.extend(p + 8 + 6646..p + 8 + 6656); bounds.push(p + 8 + 6656); } }
                if id == b"META" { offs.extend(p + 8..(p + 8 + size.min(24)).min(b.len())); }
                p += 8 + size;
            }
            bounds.push(p.min(b.len()));
        }
        "2mg" => { offs.extend(0..64); bounds.extend([63, 64, 65]); }
        "imd" => {
            let eoh = b.iter().position(|x| *x == 0x1a).unwrap_or(0);
            offs.extend(0..(eoh + 1).min(40)); offs.push(eoh);
            bounds.extend([eoh, eoh + 1]);
            // first two track headers, sector maps and the first data-record type byte of each
            let mut p = eoh + 1;
            for _t in 0..3 {
                if p + 5 > b.len() { break; }
                let nsec = b[p + 3] as usize; let ssz = 128usize << (b[p + 4].min(6));
                bounds.push(p); bounds.push(p + 5); bounds.push(p + 5 + nsec);
                offs.extend(p..(p + 5 + nsec).min(b.len()));
                let mut q = p + 5 + nsec;
                for _s in 0..nsec { if q >= b.len() { break; } offs.push(q); q += match b[q] { 1 | 3 | 5 | 7 => 1 + ssz, 2 | 4 | 6 | 8 => 2, _ => 1 }; }
                p = q;
            }
        }
        "td0" => { offs.extend(0..12.min(b.len())); offs.extend(12..40.min(b.len())); bounds.extend([11, 12, 13, 22]); }
        "nib" | "do" | "po" | "d13" | "img" => {}
        _ => {}
    }
    offs.sort(); offs.dedup(); offs.retain(|o| *o < b.len());
    let mut bb: Vec<usize> = Vec::new();
    for x in bounds { for d in [-1i64, 0, 1] { let y = x as i64 + d; if y >= 0 && (y as usize) < b.len() { bb.push(y as usize); } } }
    bb.sort(); bb.dedup();
    (offs, bb)
}

fn stream_images(r: &mut Run) {
    let thorough = r.ctx.tier_thorough;
    let seeds = build_seeds(thorough);
    let mut rng0 = Rng::new(r.ctx.seed ^ 0x1316);
    r.count_n("img:seeds", seeds.len() as u64);
    for (si, seed) in seeds.iter().enumerate() {
        let mut rng = rng0.fork(si as u64);
        // 0: the seed itself must mount (sanity of the generator, and a PASS case)
        let mut muts: Vec<Mutn> = Vec::new();
        let (offs, bounds) = container_offsets(seed);
        for o in &offs { for v in values_for(seed.bytes[*o]) { muts.push(Mutn::Poke(*o, v)); } }
        for n in &bounds { muts.push(Mutn::Truncate(*n)); }
        for n in [1usize, 2, 255, 256, 512, 4096] { muts.push(Mutn::Extend(n, 0)); muts.push(Mutn::Extend(n, 0xFF)); }
        let blocks = fs_blocks(seed);
        for (rf, data) in &blocks {
            for off in 0..data.len() {
                // all of the first 64 bytes and every byte that is in use; zero filler only sparsely
                if off < 64 || data[off] != 0 || off % 16 == 0 || off + 2 >= data.len() {
                    for v in values_for(data[off]) { muts.push(Mutn::Blk(*rf, off, v)); }
                }
            }
        }
        // random multi-byte pokes into container offsets (16/32 bit fields set to extreme values)
        for o in &offs { if o % 2 == 0 { muts.push(Mutn::PokeLE(*o, 2, 0xFFFF)); muts.push(Mutn::PokeLE(*o, 4, 0xFFFF_FFFF)); muts.push(Mutn::PokeLE(*o, 4, 0x10)); } }
        // budget: raw containers are cheap; encoded ones are sampled in the quick tier
        let budget = if thorough { if seed.raw { 8000 } else { 2000 } } else if seed.raw { 900 } else { 160 };
        let total = muts.len();
        if muts.len() > budget {
            // deterministic sample: keep order, choose `budget` indices
            let mut keep: Vec<usize> = (0..muts.len()).collect();
            for i in 0..budget { let j = i + rng.below(keep.len() - i); keep.swap(i, j); }
            keep.truncate(budget); keep.sort();
            muts = keep.into_iter().map(|i| muts[i].clone()).collect();
        }
        let tg = targeted(seed, &blocks, thorough);
        r.count_n(&format!("img:{}:targeted", seed.name), tg.len() as u64);
        muts.extend(tg);
        let rl = related(seed, thorough);
        r.count_n(&format!("img:{}:related", seed.name), rl.len() as u64);
        muts.extend(rl);
        r.count_n(&format!("img:{}:mutations-enumerated", seed.name), total as u64);
        // the untouched seed
        if let Some(idx) = r.claim() {
            let b = seed.bytes.clone(); let ext = seed.ext;
            r.mark(idx, &format!("img/{}", seed.name), "seed");
            let o = watched(20000, move || exercise(&b, Some(ext)));
            r.verdict(idx, &format!("img/{}", seed.name), &o, "seed");
            if let Outc::Ok(s) = &o { r.sample(&format!("seed {} ({} bytes) mounts: {}", seed.name, seed.bytes.len(), s)); }
            else { r.count(&format!("img:{}:SEED-DOES-NOT-MOUNT", seed.name)); }
            r.case(seed.name.as_bytes(), false);
        }
        for m in muts {
            let Some(idx) = r.claim() else { continue };
            if r.gave_up(&format!("img/{}", seed.name)) { continue; }
            let Some(bytes) = apply(seed, &m) else { r.count("img:mutation-not-applicable"); continue };
            let with_ext = idx % 4 != 0;
            let desc = format!("seed={} ext={} mutation={:?}", seed.name, if with_ext { seed.ext } else { "-" }, m);
            let ext = seed.ext;
            let canon = [desc.as_bytes()].concat();
            let nontrivial = bytes != seed.bytes;
            r.mark(idx, &format!("img/{}", seed.name), &desc);
            let o = watched(20000, move || exercise(&bytes, if with_ext { Some(ext) } else { None }));
            r.verdict(idx, &format!("img/{}", seed.name), &o, &desc);
            r.case(&canon, nontrivial);
        }
    }
    // random byte strings with a plausible signature in front (identification must reject or survive)
    let sigs: [&[u8]; 8] = [b"WOZ1\xFF\x0A\x0D\x0A", b"WOZ2\xFF\x0A\x0D\x0A", b"2IMG", b"IMD 1.18: 01/01/2000 00:00:00\r\n", b"TD\0", b"td\0", b"", b"\xEB\x3C\x90"];
    let n = r.ctx.n(400, 20000);
    for k in 0..n {
        let mut rng = rng0.fork(0x5_0000 + k as u64);
        let Some(idx) = r.claim() else { continue };
        let mut b = rng.pick(&sigs).to_vec();
        let len = *rng.pick(&[100usize, 128, 200, 512, 1024, 5000]);
        let body = match rng.below(3) { 0 => vec![0u8; len], 1 => vec![0xFFu8; len], _ => rng.bytes(len) };
        b.extend(body);
        if rng.chance(30) { b.extend_from_slice(b"\x1a"); b.extend(rng.bytes(64)); }
        let desc = format!("random sig+{} bytes: {}", len, cliphex(&b, 160));
        let b2 = b.clone();
        r.mark(idx, "img/random", &desc);
        let o = watched(20000, move || exercise(&b2, None));
        r.verdict(idx, "img/random", &o, &desc);
        r.case(&b, true);
    }
}

fn child(ctx: &mut Ctx, start: usize, rec_path: &str) {
    let f = std::fs::File::create(rec_path).expect("create record file");
    let mut r = Run { ctx, w: std::io::LineWriter::new(f), cur_path: format!("{}.cur", rec_path), start, idx: 0, hangs: Default::default() };
    stream_fronts(&mut r);
    stream_json(&mut r);
    stream_tokens(&mut r);
    stream_images(&mut r);
    r.line("END".to_string());
}

/// The cases run in child processes (`C12_CHILD=<first idx>:<record file>`): a stack overflow or an
/// allocation failure in a2kit aborts the whole process and cannot be caught; the parent then records
/// the case that was running (sig `abort:<front>`) and starts a new child behind it.
pub fn run(ctx: &mut Ctx) {
    if let Ok(spec) = std::env::var("C12_CHILD") {
        let (a, b) = spec.split_once(':').expect("C12_CHILD");
        child(ctx, a.parse().expect("C12_CHILD idx"), b);
        return;
    }
    let exe = std::env::current_exe().expect("current_exe");
    let tier = if ctx.tier_thorough { "thorough" } else { "quick" };
    let tmp = std::env::temp_dir().join(format!("c12-{}-{}", std::process::id(), ctx.seed));
    let rec = format!("{}.rec", tmp.display());
    let mut start = 0usize;
    let mut aborts = 0;
    let mut dist: std::collections::BTreeMap<String, u64> = Default::default();
    loop {
        let _ = std::fs::remove_file(format!("{}.cur", rec));
        let mut cmd = std::process::Command::new(&exe);
        cmd.arg("c12").arg(tier).arg(ctx.seed.to_string()).arg(format!("{}.ctxout", tmp.display()));
        if let Some(k) = ctx.out.only { cmd.arg("--only").arg(k.to_string()); }
        cmd.env("C12_CHILD", format!("{}:{}", start, rec)).stdout(std::process::Stdio::null());
        match std::fs::File::create(format!("{}.err", tmp.display())) { Ok(f) => { cmd.stderr(f); } Err(_) => { cmd.stderr(std::process::Stdio::null()); } }
        let status = cmd.status();
        let mut ended = false;
        if let Ok(text) = std::fs::read(&rec) {
            for line in String::from_utf8_lossy(&text).lines() {
                let p: Vec<&str> = line.split('\t').collect();
                match p[0] {
                    "Q" if p.len() >= 3 => ctx.out.q(p[1], p[2]),
                    "O" if p.len() >= 5 => ctx.out.oracle(p[1] == "PASS", p[2], p[3], p[4]),
                    "C" if p.len() >= 3 => ctx.out.case(p[1].as_bytes(), p[2] == "1"),
                    "S" if p.len() >= 2 => ctx.out.sample(p[1]),
                    "D" if p.len() >= 3 => { *dist.entry(p[1].to_string()).or_insert(0) += p[2].parse::<u64>().unwrap_or(0); }
                    "END" => ended = true,
                    _ => {}
                }
            }
        }
        let ok = matches!(&status, Ok(st) if st.success());
        if ok && ended { break; }
        // the child died: which case was it running?
        aborts += 1;
        let cur = std::fs::read_to_string(format!("{}.cur", rec)).unwrap_or_default();
        let p: Vec<&str> = cur.split('\t').collect();
        let errtxt = std::fs::read_to_string(format!("{}.err", tmp.display())).unwrap_or_default();
        let errtail: String = errtxt.lines().rev().take(3).collect::<Vec<&str>>().into_iter().rev().collect::<Vec<&str>>().join(" | ");
        let how = format!("{}; stderr: {}", match &status { Ok(st) => format!("{}", st), Err(e) => format!("{}", e) }, clip(&errtail, 300));
        if p.len() >= 3 {
            let idx: usize = p[0].parse().unwrap_or(usize::MAX - 1);
            ctx.out.oracle(false, ORACLE, &format!("abort:{}", p[1]), &format!("idx={} front={} process died ({}) input={}", idx, p[1], how, p[2]));
            *dist.entry(format!("{}:abort", p[1].split('/').next().unwrap_or(""))).or_insert(0) += 1;
            if ctx.out.only.is_some() || aborts >= 40 || idx < start { break; }
            start = idx + 1;
        } else {
            ctx.out.oracle(false, ORACLE, "abort:harness", &format!("idx=0 child process died ({}) before its first case", how));
            break;
        }
    }
    for (k, v) in dist { ctx.out.count_n(&k, v); }
    for sfx in [".rec", ".rec.cur", ".ctxout", ".err"] { let _ = std::fs::remove_file(format!("{}{}", tmp.display(), sfx)); }
}
