//! harness family c09 (property C09: image encode/decode is stable and self-identifying)
//!
//! Case streams (`idx` ranges; every case forks its own PRNG stream from the seed):
//!   A  0..      one image per (format, disk kind) configuration as `mkdsk::mkimage` builds it, random sector /
//!               block writes, random accepted metadata edits; direct oracle for the whole property; model ties
//!   B  10000..  pure codec ties: crc32 / crc16 / TD0 sector records / IMD track buffers / chunk walks
//!   C  20000..  images a2kit *loads* (foreign but valid byte streams built here), same oracle as A
//!   D  30000..  replay of the candidate defect DESIGN §9 item 27 (WOZ2 with non-creator chunk order)
//!   E  40000..  one directed case per hazardous metadata value class
//!   F  50000..  LOADED IMD / TD0 images with mixed sector record types / flags / encodings (built as bytes by the
//!               independent encoder of `c08::mix`): random sequences of sector writes, notes / comment edits of
//!               other lengths (also where there was no comment block), saves and reloads on the SAME object;
//!               every step on the real object and on the Lean object model (`c09 imdseq|td0seq`), saved bytes
//!               against the bytes the reference encoder predicts (all CRC and length fields included)
//!   G  60000..  2MG files of other programs built byte-wise (extents anywhere, non-UTF-8 text, stale fields)
//!   H  70000..  the value domain of every metadata key: acceptance sweep, then every accepted value through the round trip
use crate::util::*;
use a2kit::fs::Block;
use a2kit::img::{self, names, DiskImage, DiskKind};

// ------------------------------------------------------------------------------------------------
// reference implementations (independent of a2kit and of the Lean model)

fn crc32_ref(buf: &[u8]) -> u32 {
    let mut crc: u32 = 0xffff_ffff;
    for b in buf {
        crc ^= *b as u32;
        for _ in 0..8 {
            crc = if crc & 1 == 1 { (crc >> 1) ^ 0xedb8_8320 } else { crc >> 1 };
        }
    }
    !crc
}

fn crc16_ref(buf: &[u8]) -> u16 {
    let mut crc: u16 = 0;
    for b in buf {
        crc ^= (*b as u16) << 8;
        for _ in 0..8 {
            crc = if crc & 0x8000 != 0 { (crc << 1) ^ 0xa097 } else { crc << 1 };
        }
    }
    crc
}

/// panic site relative to the source tree (independent of where the tree is checked out)
fn site(p: &str) -> String {
    let s = p.split(" [").next().unwrap_or(p);
    match s.find("src/") { Some(i) => s[i..].to_string(), None => s.to_string() }
}

fn le16(b: &[u8]) -> usize { b[0] as usize + 256 * b[1] as usize }
fn le32(b: &[u8]) -> usize { b[0] as usize + 256 * b[1] as usize + 65536 * b[2] as usize + 16777216 * b[3] as usize }
fn uniform(b: &[u8]) -> bool { b.iter().all(|x| *x == b[0]) }

// ------------------------------------------------------------------------------------------------
// configurations: every (image type, disk kind) pair accepted by commands/mkdsk.rs `mkimage`

#[derive(Clone)]
struct Cfg { typ: &'static str, kind_name: &'static str, kind: DiskKind, wrap: Option<&'static str> }

fn cpm_kinds() -> Vec<(&'static str, DiskKind)> {
    vec![("IBM_CPM1", names::IBM_CPM1_KIND), ("OSBORNE1_SD", names::OSBORNE1_SD_KIND), ("OSBORNE1_DD", names::OSBORNE1_DD_KIND),
         ("KAYPROII", names::KAYPROII_KIND), ("KAYPRO4", names::KAYPRO4_KIND), ("TRS80_M2_CPM", names::TRS80_M2_CPM_KIND),
         ("NABU_CPM", names::NABU_CPM_KIND), ("AMSTRAD_SS", names::AMSTRAD_SS_KIND)]
}
fn ibm_kinds() -> Vec<(&'static str, DiskKind)> {
    vec![("IBM_SSDD_8", DiskKind::D525(names::IBM_SSDD_8)), ("IBM_SSDD_9", DiskKind::D525(names::IBM_SSDD_9)),
         ("IBM_DSDD_8", DiskKind::D525(names::IBM_DSDD_8)), ("IBM_DSDD_9", DiskKind::D525(names::IBM_DSDD_9)),
         ("IBM_SSQD", DiskKind::D525(names::IBM_SSQD)), ("IBM_DSQD", DiskKind::D525(names::IBM_DSQD)),
         ("IBM_DSHD", DiskKind::D525(names::IBM_DSHD)), ("IBM_720", DiskKind::D35(names::IBM_720)),
         ("IBM_1440", DiskKind::D35(names::IBM_1440)), ("IBM_2880", DiskKind::D35(names::IBM_2880))]
}

fn configs() -> Vec<Cfg> {
    let mut v = Vec::new();
    let mut add = |typ: &'static str, kind_name: &'static str, kind: DiskKind, wrap: Option<&'static str>| v.push(Cfg { typ, kind_name, kind, wrap });
    add("d13", "A2_DOS32", names::A2_DOS32_KIND, None);
    add("do", "A2_DOS33", names::A2_DOS33_KIND, None);
    add("po", "A2_DOS33", names::A2_DOS33_KIND, None);
    add("po", "A2_400", names::A2_400_KIND, None);
    add("po", "A2_800", names::A2_800_KIND, None);
    add("po", "A2_HD_MAX", names::A2_HD_MAX, None);
    add("woz1", "A2_DOS32", names::A2_DOS32_KIND, None);
    add("woz1", "A2_DOS33", names::A2_DOS33_KIND, None);
    add("woz2", "A2_DOS32", names::A2_DOS32_KIND, None);
    add("woz2", "A2_DOS33", names::A2_DOS33_KIND, None);
    add("woz2", "A2_400", names::A2_400_KIND, None);
    add("woz2", "A2_800", names::A2_800_KIND, None);
    add("2mg", "A2_DOS33", names::A2_DOS33_KIND, Some("do"));
    add("2mg", "A2_DOS33", names::A2_DOS33_KIND, Some("nib"));
    add("2mg", "A2_400", names::A2_400_KIND, Some("po"));
    add("2mg", "A2_800", names::A2_800_KIND, Some("po"));
    add("2mg", "A2_HD_MAX", names::A2_HD_MAX, Some("po"));
    add("nib", "A2_DOS32", names::A2_DOS32_KIND, None);
    add("nib", "A2_DOS33", names::A2_DOS33_KIND, None);
    for (n, k) in cpm_kinds() { add("imd", n, k, None); }
    for (n, k) in ibm_kinds() { add("imd", n, k, None); }
    for (n, k) in cpm_kinds() { add("td0", n, k, None); }
    for (n, k) in ibm_kinds() { add("td0", n, k, None); }
    for (n, k) in ibm_kinds() { add("img", n, k, None); }
    v
}

fn build(cfg: &Cfg, vol: u8) -> Result<Box<dyn DiskImage>, String> {
    let k = cfg.kind;
    Ok(match cfg.typ {
        "d13" => Box::new(img::dsk_d13::D13::create(35)),
        "do" => Box::new(img::dsk_do::DO::create(35, 16)),
        "po" => Box::new(img::dsk_po::PO::create(match cfg.kind_name { "A2_DOS33" => 280, "A2_400" => 800, "A2_800" => 1600, _ => 65535 })),
        "woz1" => Box::new(img::woz1::Woz1::create(vol, k)),
        "woz2" => Box::new(img::woz2::Woz2::create(vol, k)),
        "2mg" => { let w = cfg.wrap.map(|s| s.to_string()); match img::dot2mg::Dot2mg::create(vol, k, w.as_ref()) { Ok(i) => i, Err(e) => return Err(e.to_string()) } },
        "nib" => Box::new(img::nib::Nib::create(vol, k)),
        "imd" => Box::new(img::imd::Imd::create(k)),
        "td0" => Box::new(img::td0::Td0::create(k)),
        "img" => Box::new(img::dsk_img::Img::create(k)),
        _ => return Err("unknown type".into())
    })
}

/// extension hint used when the bytes are parsed back
fn ext_of(typ: &str) -> &'static str {
    match typ { "d13" => "d13", "do" => "do", "po" => "po", "woz1" | "woz2" => "woz", "2mg" => "2mg", "nib" => "nib", "imd" => "imd", "td0" => "td0", _ => "img" }
}
/// formats whose byte stream identifies itself without an extension hint (signature or a size no other
/// format accepts earlier in `create_img_from_bytestream`); DO / PO / IMG are headerless sector dumps whose
/// type cannot be decided from the bytes of an unformatted disk
fn self_identifying(typ: &str) -> bool { matches!(typ, "d13" | "woz1" | "woz2" | "2mg" | "nib" | "imd" | "td0") }
/// formats that record enough to recover the disk kind a2kit created them with (see design/C09.md)
fn records_kind(cfg: &Cfg) -> bool {
    match cfg.typ {
        "d13" | "do" | "woz1" | "woz2" | "nib" => true,
        "po" => true, // block count determines the kind PO::create chose
        "2mg" => false, // kind of the wrapped raw image is reported after reload
        // IMD has no drive-type field: 3 inch Amstrad and 5.25 inch IBM SSDD9 are the same bytes
        "imd" => cfg.kind_name != "AMSTRAD_SS",
        "td0" => true, // drive type, sides and per-track cylinder/head are all recorded
        // a raw sector dump records only its size: 80x1x8 (SSQD) and 40x2x8 (DSDD8) are both 327680 bytes
        "img" => cfg.kind_name != "IBM_SSQD",
        _ => false
    }
}

// ------------------------------------------------------------------------------------------------
// observing an image through the public DiskImage interface

#[derive(Clone, PartialEq)]
struct Obs {
    typ: String, kind: String, cap: usize, tracks: usize, heads: usize, meta: String, geometry: String,
    /// (address, content hash or error text)
    sectors: Vec<(String, String)>,
}

#[derive(Clone)]
struct TrackGeo { cyl: usize, head: usize, secs: Vec<(usize, usize)> }

fn geometry(img: &mut Box<dyn DiskImage>) -> (String, Vec<TrackGeo>) {
    let mut s = match img.export_geometry(None) { Ok(s) => s, Err(e) => format!("ERR {}", e) };
    let mut v = Vec::new();
    if let Ok(mut j) = json::parse(&s) {
        // the "package" member is a function of the disk kind, which has its own comparison
        j.remove("package");
        s = json::stringify(j.clone());
        for t in j["tracks"].members() {
            if t.is_null() { continue; }
            let mut secs = Vec::new();
            for c in t["chs_map"].members() { secs.push((c[2].as_usize().unwrap_or(0), c[3].as_usize().unwrap_or(0))); }
            v.push(TrackGeo { cyl: t["cylinder"].as_usize().unwrap_or(0), head: t["head"].as_usize().unwrap_or(0), secs });
        }
    }
    (s, v)
}

fn res_hash(r: Result<Vec<u8>, Box<dyn std::error::Error>>) -> String {
    match r { Ok(d) => format!("{}:{:016x}", d.len(), fnv(&d)), Err(e) => format!("ERR {}", e) }
}

fn dump_sectors(img: &mut Box<dyn DiskImage>, geo: &[TrackGeo]) -> Vec<(String, String)> {
    let mut out = Vec::new();
    let typ = img.what_am_i().to_string();
    let blocky = typ == "po" || (typ == "2mg" && geo.is_empty());
    if blocky {
        for b in 0..img.byte_capacity() / 512 { out.push((format!("B{}", b), res_hash(img.read_block(Block::PO(b))))); }
    } else if typ == "img" {
        let heads = img.num_heads();
        let nsec = if geo.is_empty() { 0 } else { geo[0].secs.len() };
        for t in 0..img.track_count() {
            for s in 1..=nsec { out.push((format!("{}/{}/{}", t / heads, t % heads, s), res_hash(img.read_sector(t / heads, t % heads, s)))); }
        }
    } else {
        for t in geo {
            for (s, _) in &t.secs { out.push((format!("{}/{}/{}", t.cyl, t.head, s), res_hash(img.read_sector(t.cyl, t.head, *s)))); }
        }
    }
    out
}

fn observe(img: &mut Box<dyn DiskImage>) -> (Obs, Vec<TrackGeo>) {
    let (g, geo) = geometry(img);
    let sectors = dump_sectors(img, &geo);
    (Obs { typ: img.what_am_i().to_string(), kind: img.kind().to_string(), cap: img.byte_capacity(), tracks: img.track_count(),
           heads: img.num_heads(), meta: img.get_metadata(None), geometry: g, sectors }, geo)
}

// ------------------------------------------------------------------------------------------------
// random writes

fn payload(rng: &mut Rng, size: usize) -> Vec<u8> {
    match rng.below(8) {
        6 | 7 => gen_data(rng, size).0,                // shared shapes: two-periodic, k-periodic, runs, CR LF only, …
        0 => vec![rng.byte(); size],                   // uniform: the compressible case of IMD / TD0
        1 => vec![0; size],
        2 => { let mut v = vec![rng.byte(); size]; let i = rng.below(size); v[i] ^= 1 + rng.byte() % 255; v } // almost uniform
        3 => { let n_ = rng.range(1, size); rng.bytes(n_) },             // short: padded with zeros by quantize_block
        _ => rng.bytes(size),
    }
}

/// returns a description of the writes; a refused write is not a C09 matter (C08 owns addressing)
/// `after_save` = (label, case) when the object has already been serialised: from then on a panic of the real code, or an
/// object that no longer exposes any geometry, is a failure of C09 ("the object stays usable"), not an addressing matter
fn random_writes(img: &mut Box<dyn DiskImage>, cfg_typ: &str, geo: &[TrackGeo], rng: &mut Rng, n: usize, out: &mut Out, after_save: Option<(&str, &str)>) -> String {
    let mut desc = String::new();
    let unusable = |out: &mut Out, what: &str, detail: &str| {
        if let Some((label, case)) = after_save {
            out.oracle(false, "object-usable-after-to_bytes", &format!("c09/{}/object-unusable-after-to_bytes:{}", label, what), &format!("{} {}", case, detail));
        }
    };
    let (typ, cap, heads, tracks) = match guarded(|| (img.what_am_i().to_string(), img.byte_capacity(), img.num_heads(), img.track_count())) {
        Ok(x) => x,
        Err(p) => { unusable(out, &format!("panic:{}", site(&p)), &format!("panic={}", p)); return format!("PANIC {}", p); }
    };
    let blocky0 = typ == "po" || (typ == "2mg" && geo.is_empty());
    if !blocky0 && (geo.is_empty() || (typ == "img" && geo[0].secs.is_empty())) {
        // nothing addressable: before the first save that is the format's business, afterwards the object is broken
        unusable(out, "no-track-solves", "export_geometry finds no track any more");
        return "no-geometry".to_string();
    }
    if heads == 0 || tracks == 0 || (blocky0 && cap < 512) { return "empty".to_string(); }
    for _ in 0..n {
        let blocky = blocky0;
        let r: Result<(), String>;
        let what: String;
        if blocky {
            let nb = cap / 512;
            let b = if rng.chance(20) { *rng.pick(&[0, 1, 2, nb - 1]) } else { rng.below(nb) };
            let d = payload(rng, 512);
            what = format!("PO{}:{}", b, d.len());
            r = guarded(|| img.write_block(Block::PO(b), &d).map_err(|e| e.to_string())).unwrap_or_else(|p| Err(format!("PANIC {}", p)));
        } else if typ == "img" {
            let t = rng.below(tracks);
            let nsec = geo[0].secs.len();
            let size = geo[0].secs[0].1;
            let s = rng.range(1, nsec);
            let d = payload(rng, size);
            what = format!("S{}/{}/{}:{}", t / heads, t % heads, s, d.len());
            r = guarded(|| img.write_sector(t / heads, t % heads, s, &d).map_err(|e| e.to_string())).unwrap_or_else(|p| Err(format!("PANIC {}", p)));
        } else {
            let t = rng.pick(geo).clone();
            if t.secs.is_empty() { continue; }
            let (s, size) = *rng.pick(&t.secs);
            let size = if size == 524 { 512 } else { size };
            let d = payload(rng, size);
            // a block write now and then where the format has an obvious block view
            if rng.chance(25) && (typ == "do" || typ == "d13" || ((typ == "woz1" || typ == "woz2" || typ == "nib" || typ == "2mg") && size == 256)) {
                let addr = if t.secs.len() == 13 { Block::D13([t.cyl, s]) } else { Block::DO([t.cyl, s % 16]) };
                what = format!("{}:{}", addr, d.len());
                r = guarded(|| img.write_block(addr, &d).map_err(|e| e.to_string())).unwrap_or_else(|p| Err(format!("PANIC {}", p)));
            } else {
                what = format!("S{}/{}/{}:{}", t.cyl, t.head, s, d.len());
                r = guarded(|| img.write_sector(t.cyl, t.head, s, &d).map_err(|e| e.to_string())).unwrap_or_else(|p| Err(format!("PANIC {}", p)));
            }
        }
        match r {
            Ok(()) => { out.count(&format!("write-ok:{}", cfg_typ)); desc += &format!("{} ", what); }
            Err(e) => {
                out.count(&format!("write-refused:{}", cfg_typ));
                if e.starts_with("PANIC ") { unusable(out, &format!("panic:{}", site(&e[6..])), &format!("write {} panic={}", what, &e[6..])); }
                desc += &format!("{}=>{} ", what, e);
            }
        }
    }
    desc
}

// ------------------------------------------------------------------------------------------------
// metadata edits

const LOREM: [&str; 12] = ["a2kit", "Disk 1, Side A", "ünïcödé", "日本語", "x", "", "The quick brown fox", "  padded  ", "tab-free", "1980", "Brøderbund", "<&\"'>"];

pub(super) fn leaves(meta: &str) -> Vec<(Vec<String>, String)> {
    let mut v = Vec::new();
    if let Ok(j) = json::parse(meta) {
        let mut curs = a2kit::JsonCursor::new();
        while let Some((_k, leaf)) = curs.next(&j) {
            if let Some(s) = leaf.as_str() { v.push((curs.key_path(), s.to_string())); }
        }
    }
    v
}

fn random_hex(rng: &mut Rng, nbytes: usize) -> String { hex::encode(rng.bytes(nbytes)) }

/// keys that the source documents as read-only (accepted with a warning, value unchanged)
pub(super) fn is_ro(path: &[String]) -> bool {
    let p: Vec<&str> = path.iter().map(|s| s.as_str()).filter(|s| *s != "_raw").collect();
    match p.as_slice() {
        ["imd", "header"] => true,
        ["td0", "comment", "timestamp"] => true,
        ["woz1", "info", "disk_type"] => true,
        ["woz2", "info", k] => ["disk_type", "disk_sides", "largest_track", "flux_block", "largest_flux_block"].contains(k),
        ["2mg", "header", k] => ["header_len", "version", "img_fmt", "data_offset", "data_len", "comment_offset", "comment_len", "creator_offset", "creator_len"].contains(k),
        _ => false
    }
}

/// candidate (path, value, class) for one edit.  `class` names the input class for the distribution and
/// for the signatures of the hazards that the generator exercises on purpose.
pub(super) fn candidate(typ: &str, lv: &[(Vec<String>, String)], rng: &mut Rng) -> (Vec<String>, String, &'static str) {
    let p = |v: &[&str]| v.iter().map(|s| s.to_string()).collect::<Vec<String>>();
    let text = |rng: &mut Rng| -> String {
        let mut s = rng.pick(&LOREM[..]).to_string();
        if rng.chance(30) { s += " "; s += *rng.pick(&LOREM[..]); }
        s
    };
    // format specific free-text / special keys
    if rng.chance(55) {
        match typ {
            "imd" => {
                return match rng.below(10) {
                    0 => (p(&["imd", "comment"]), format!("{}\u{1a}{}", text(rng), text(rng)), "imd-comment-with-eof-char"),
                    1 => (p(&["imd", "comment"]), format!("{}\r\n{}", text(rng), text(rng)), "text-multiline"),
                    _ => (p(&["imd", "comment"]), text(rng), "text"),
                };
            }
            "td0" => {
                return match rng.below(10) {
                    0 => (p(&["td0", "comment", "notes"]), format!("{}\n{}", text(rng), text(rng)), "td0-notes-with-newline"),
                    3 => (p(&["td0", "comment", "notes"]), format!("{}\r\n{}", text(rng), text(rng)), "td0-notes-with-crlf"),
                    1 => (p(&["td0", "header", "stepping", "_raw"]), format!("{:02x}", rng.below(3)), "td0-stepping-without-comment-flag"),
                    2 => (p(&["td0", "header", "stepping", "_raw"]), format!("{:02x}", 0x80 + rng.below(3)), "td0-stepping"),
                    _ => (p(&["td0", "comment", "notes"]), text(rng), "text"),
                };
            }
            "woz2" => {
                let std = ["title", "subtitle", "publisher", "developer", "copyright", "version", "notes", "side_name", "contributor", "image_date"];
                return match rng.below(12) {
                    0 => (p(&["woz2", "meta", "language"]), rng.pick(&["English", "French|German", "Klingon", "Other"]).to_string(), "woz2-meta-constrained"),
                    1 => (p(&["woz2", "meta", "requires_ram"]), rng.pick(&["48K", "1.5M+", "47K", "Unknown"]).to_string(), "woz2-meta-constrained"),
                    2 => (p(&["woz2", "meta", "requires_machine"]), rng.pick(&["2e|2c", "2+", "4", "2gs|3+"]).to_string(), "woz2-meta-constrained"),
                    3 => (p(&["woz2", "meta", "side"]), rng.pick(&["Disk 1, Side A", "Disk 12, Side B", "Side C"]).to_string(), "woz2-meta-constrained"),
                    4 => (p(&["woz2", "meta", &format!("custom{}", rng.below(3))]), text(rng), "woz2-meta-custom-key"),
                    5 => (p(&["woz2", "meta", *rng.pick(&std[..])]), format!("{}\r", text(rng)), "woz2-meta-value-ending-in-cr"),
                    6 => (p(&["woz2", "meta", *rng.pick(&std[..])]), format!("{}\t{}", text(rng), text(rng)), "woz2-meta-illegal-tab"),
                    7 => (p(&["woz2", "meta", *rng.pick(&std[..])]), String::new(), "woz2-meta-delete"),
                    _ => (p(&["woz2", "meta", *rng.pick(&std[..])]), text(rng), "text"),
                };
            }
            "2mg" => {
                return match rng.below(10) {
                    0 => (p(&["2mg", "header", "blocks"]), random_hex(rng, 4), "2mg-blocks-edit"),
                    1 | 2 | 3 => (p(&["2mg", "creator_info"]), text(rng), "text"),
                    _ => (p(&["2mg", "comment"]), text(rng), "text"),
                };
            }
            _ => {}
        }
    }
    // generic: re-put a leaf of the current metadata with a new value of the same shape
    let cand: Vec<&(Vec<String>, String)> = lv.iter().filter(|(k, _)| k.last().map(|s| s != "_pretty").unwrap_or(false)).collect();
    if cand.is_empty() { return (p(&[typ, "nothing"]), "00".to_string(), "no-leaf"); }
    let (k, old) = (*rng.pick(&cand)).clone();
    let is_hex = !old.is_empty() && old.len() % 2 == 0 && old.chars().all(|c| c.is_ascii_hexdigit());
    if is_hex {
        let n = old.len() / 2;
        let v = match rng.below(4) {
            0 => format!("{:02x}", rng.below(4)).repeat(1) + &"00".repeat(n - 1),
            1 => random_hex(rng, n),
            2 => old.clone(),
            _ => { let mut b = hex::decode(&old).unwrap(); let i = rng.below(n); b[i] = b[i].wrapping_add(1); hex::encode(b) }
        };
        // the two hex fields whose every value changes how the image loads get their own class
        let last2: Vec<&str> = k.iter().map(|s| s.as_str()).filter(|s| *s != "_raw").collect();
        // `sides` decides the number of heads on reload ("1 => 1, not 1 => 2"): keep the class of the value
        let v = match last2.as_slice() {
            ["td0", "header", "sides"] => if old == "01" { old.clone() } else if v == "01" { "02".to_string() } else { v },
            _ => v
        };
        let class = match last2.as_slice() {
            ["2mg", "header", "blocks"] => "2mg-blocks-edit",
            ["td0", "header", "stepping"] => if u8::from_str_radix(&v, 16).unwrap_or(0) & 0x80 == 0 { "td0-stepping-without-comment-flag" } else { "td0-stepping" },
            _ => "hex"
        };
        (k, v, class)
    } else {
        (k, text(rng), "text")
    }
}

/// what `get_metadata` is expected to show for a value that was accepted
pub(super) fn normal(path: &[String], v: &str) -> String {
    match path.last().map(|s| s.as_str()) {
        Some("creator") if path.len() == 3 && path[1] == "info" => v.trim_end().to_string(), // 32 bytes, space padded by the WOZ spec
        // TD0 stores line ends as NUL and loads them as LF: CR LF is normalised to LF when the notes are put
        Some("notes") if path.len() == 3 && path[0] == "td0" => { let mut s = v.to_string(); while s.contains("\r\n") { s = s.replace("\r\n", "\n"); } s },
        _ => v.to_string()
    }
}

pub(super) fn lookup(meta: &str, path: &[String]) -> Option<String> {
    let j = json::parse(meta).ok()?;
    let mut cur = &j;
    for k in path { if !cur.has_key(k) { return None; } cur = &cur[k.as_str()]; }
    if cur.is_object() && cur.has_key("_raw") { cur = &cur["_raw"]; }
    cur.as_str().map(|s| s.to_string())
}

struct EditLog { desc: String, classes: Vec<&'static str> }

fn random_edits(img: &mut Box<dyn DiskImage>, cfg: &Cfg, rng: &mut Rng, n: usize, out: &mut Out, tag: &str, idx: usize) -> EditLog {
    let mut log = EditLog { desc: String::new(), classes: Vec::new() };
    let typ = img.what_am_i().to_string();
    for _ in 0..n {
        let before = img.get_metadata(None);
        let lv = leaves(&before);
        let (path, val, class) = candidate(&typ, &lv, rng);
        if class == "no-leaf" { continue; }
        let jv = json::JsonValue::String(val.clone());
        let r = guarded(|| img.put_metadata(&path, &jv).map_err(|e| e.to_string()));
        let pstr = path.join("/");
        // model tie of the put/get law (the standard WOZ2 META keys have pattern rules that are not modelled;
        // key components with blanks or slashes cannot be sent over the line protocol)
        let modelled = !(path.len() > 1 && path[1] == "meta") && path.iter().all(|k| !k.is_empty() && !k.contains('/') && !k.contains(' '))
            && ["td0", "imd", "2mg", "woz1", "woz2"].contains(&typ.as_str());
        if modelled {
            let ans = match &r {
                Err(_) => "panic".to_string(),
                Ok(Err(_)) => "refused".to_string(),
                Ok(Ok(())) => if is_ro(&path) { "skipped".to_string() } else {
                    match lookup(&img.get_metadata(None), &path) { Some(v) => format!("ok {}", hx(v.as_bytes())), None => "ok ?".to_string() } }
            };
            out.q(&format!("c09 metaput {} /{} {}", typ, pstr, hx(val.as_bytes())), &ans);
        }
        match r {
            Err(p) => {
                out.oracle(false, "put_metadata-no-panic", &format!("c09/{}/put_metadata/panic:{}", cfg.typ, site(&p)), &format!("{} idx={} key=/{} val={:?} panic={}", tag, idx, pstr, val, p));
                log.desc += &format!("/{}={:?}=>PANIC ", pstr, val);
            }
            Ok(Err(e)) => { out.count(&format!("meta-refused:{}", class)); log.desc += &format!("/{}={:?}=>refused({}) ", pstr, val, e); }
            Ok(Ok(())) => {
                out.count(&format!("meta-accepted:{}", class));
                log.classes.push(class);
                log.desc += &format!("/{}={:?} ", pstr, val);
                // written is what is read back (immediately)
                let after = img.get_metadata(None);
                let got = lookup(&after, &path);
                let old = lookup(&before, &path);
                let deleted = class == "woz2-meta-delete";
                let ok = if deleted { got.is_none() || got.as_deref() == Some("") }
                    else if got.as_deref() == Some(normal(&path, &val).as_str()) { true }
                    else if is_ro(&path) && got == old { out.count("meta-read-only-skipped"); true }
                    else { false };
                out.oracle(ok, "metadata-put-then-get", &format!("c09/{}/meta/put-get-differs:{}", cfg.typ, path.iter().filter(|s| *s != "_raw").skip(1).take(2).cloned().collect::<Vec<_>>().join(".")),
                           &format!("{} idx={} key=/{} put={:?} got={:?} old={:?}", tag, idx, pstr, val, got, old));
            }
        }
    }
    log
}

// ------------------------------------------------------------------------------------------------
// integrity fields of the serialised bytes, checked against the reference implementations

/// parsed normal-layer TD0 (reference parser, a2kit-produced streams only use Raw/Repeated)
struct TdSec { hdr: [u8; 6], data: Vec<u8> }
struct TdTrk { hdr: [u8; 4], secs: Vec<TdSec> }
struct TdImg { hdr: Vec<u8>, comment: Option<(Vec<u8>, Vec<u8>)>, tracks: Vec<TdTrk>, tail: Vec<u8> }

fn td_unpack_ref(shift: u8, data: &[u8]) -> Option<Vec<u8>> {
    let size = 128usize << shift;
    if data.len() < 3 { return None; }
    let body = &data[3..];
    let mut ans = Vec::new();
    match data[2] {
        0 => { if body.len() < size { return None; } ans.extend_from_slice(&body[..size]); }
        1 => { let mut p = 0; while ans.len() < size { if p + 4 > body.len() { return None; } let c = le16(&body[p..]); for _ in 0..c { ans.push(body[p + 2]); ans.push(body[p + 3]); } p += 4; } }
        2 => { let mut p = 0; while ans.len() < size {
                if p >= body.len() { return None; }
                let rc = 2 * body[p] as usize; p += 1;
                if p >= body.len() { return None; }
                if rc == 0 { let n = body[p] as usize; p += 1; if p + n > body.len() { return None; } ans.extend_from_slice(&body[p..p + n]); p += n; }
                else { let rep = body[p] as usize; p += 1; if p + rc > body.len() { return None; } for _ in 0..rep { ans.extend_from_slice(&body[p..p + rc]); } p += rc; }
            } }
        _ => return None
    }
    if ans.len() == size { Some(ans) } else { None }
}

fn td_parse(x: &[u8]) -> Result<TdImg, String> {
    if x.len() < 12 { return Err("short".into()); }
    let mut p = 12;
    let mut comment = None;
    if x[7] & 0x80 != 0 {
        if x.len() < p + 10 { return Err("short comment header".into()); }
        let len = le16(&x[p + 2..]);
        if x.len() < p + 10 + len { return Err("short comment".into()); }
        comment = Some((x[p..p + 10].to_vec(), x[p + 10..p + 10 + len].to_vec()));
        p += 10 + len;
    }
    let mut tracks = Vec::new();
    loop {
        if p >= x.len() { return Err("no end mark".into()); }
        if x[p] == 0xff { break; }
        if p + 4 > x.len() { return Err("short track header".into()); }
        let mut t = TdTrk { hdr: [x[p], x[p + 1], x[p + 2], x[p + 3]], secs: Vec::new() };
        p += 4;
        for _ in 0..t.hdr[0] {
            if p + 6 > x.len() { return Err("short sector header".into()); }
            let mut s = TdSec { hdr: [x[p], x[p + 1], x[p + 2], x[p + 3], x[p + 4], x[p + 5]], data: Vec::new() };
            p += 6;
            if s.hdr[4] & 0x30 == 0 {
                if p + 2 > x.len() { return Err("short sector len".into()); }
                let n = le16(&x[p..]);
                if p + 2 + n > x.len() { return Err("short sector data".into()); }
                s.data = x[p..p + 2 + n].to_vec();
                p += 2 + n;
            }
            t.secs.push(s);
        }
        tracks.push(t);
    }
    Ok(TdImg { hdr: x[..12].to_vec(), comment, tracks, tail: x[p..].to_vec() })
}

fn integrity(typ: &str, b: &[u8]) -> Result<(), String> {
    match typ {
        "woz1" | "woz2" => {
            if b.len() < 256 { return Err("short".into()); }
            let want = if typ == "woz1" { b"WOZ1" } else { b"WOZ2" };
            if &b[0..4] != want || b[4..8] != [0xff, 0x0a, 0x0d, 0x0a] { return Err("woz/bad-signature".into()); }
            if le32(&b[8..12]) as u32 != crc32_ref(&b[12..]) { return Err("woz/crc32-wrong".into()); }
            if &b[12..16] != b"INFO" || le32(&b[16..20]) != 60 { return Err("woz/info-chunk-misplaced".into()); }
            if &b[80..84] != b"TMAP" || le32(&b[84..88]) != 160 { return Err("woz/tmap-chunk-misplaced".into()); }
            if &b[248..252] != b"TRKS" { return Err("woz/trks-chunk-misplaced".into()); }
            let tsize = le32(&b[252..256]);
            if 256 + tsize > b.len() { return Err("woz/trks-size-past-eof".into()); }
            if typ == "woz2" {
                if tsize < 1280 || (tsize - 1280) % 512 != 0 { return Err("woz2/trks-size-not-blocks".into()); }
                let mut maxblk = 0;
                for t in 0..160 {
                    let e = &b[256 + 8 * t..264 + 8 * t];
                    let (start, cnt, bits) = (le16(&e[0..2]), le16(&e[2..4]), le32(&e[4..8]));
                    if bits == 0 && start == 0 && cnt == 0 { continue; }
                    if start < 3 || (start + cnt) * 512 > 256 + tsize { return Err("woz2/trk-blocks-outside-chunk".into()); }
                    if bits > cnt * 512 * 8 { return Err("woz2/trk-bit-count-exceeds-blocks".into()); }
                    maxblk = maxblk.max(cnt);
                }
                // INFO.largest_track (19 for 3.5 inch) is smaller than the 20-block track buffers a2kit allocates:
                // not an integrity field of C09, recorded in design/C09.md as an observation only
                let _ = maxblk;
            } else if tsize % 6656 != 0 { return Err("woz1/trks-size-not-tracks".into()); }
            // the remaining chunks must tile the file exactly
            let mut p = 256 + tsize;
            while p < b.len() {
                if p + 8 > b.len() { return Err("woz/trailing-garbage".into()); }
                p += 8 + le32(&b[p + 4..p + 8]);
            }
            if p != b.len() { return Err("woz/chunk-size-past-eof".into()); }
            Ok(())
        }
        "td0" => {
            if b.len() < 12 || &b[0..2] != b"td" { return Err("td0/not-advanced-signature".into()); }
            if le16(&b[10..12]) as u16 != crc16_ref(&b[0..10]) { return Err("td0/header-crc-wrong".into()); }
            let x = match retrocompressor::td0::expand_slice(b) { Ok(x) => x, Err(e) => return Err(format!("td0/expand-failed:{}", e)) };
            // assumption spot check: the external compressor is a deterministic inverse pair
            match retrocompressor::td0::compress_slice(&x) { Ok(c) => if c != b { return Err("td0/retrocompressor-compress-not-inverse".into()); }, Err(_) => return Err("td0/retrocompressor-compress-failed".into()) }
            // retrocompressor swaps the signature (`TD` <-> `td`) and re-seals the header CRC
            if x.len() < 12 || &x[0..2] != b"TD" || x[2..10] != b[2..10] { return Err("td0/expanded-header-differs".into()); }
            if le16(&x[10..12]) as u16 != crc16_ref(&x[0..10]) { return Err("td0/normal-header-crc-wrong".into()); }
            let t = td_parse(&x)?;
            if let Some((h, text)) = &t.comment {
                if le16(&h[0..2]) as u16 != crc16_ref(&[&h[2..], &text[..]].concat()) { return Err("td0/comment-crc-wrong".into()); }
                if text.contains(&b'\n') { return Err("td0/comment-newline-not-encoded".into()); }
            }
            for trk in &t.tracks {
                if trk.hdr[3] != (crc16_ref(&trk.hdr[0..3]) & 0xff) as u8 { return Err("td0/track-crc-wrong".into()); }
                for s in &trk.secs {
                    if s.hdr[4] & 0x30 != 0 { continue; }
                    match td_unpack_ref(s.hdr[3], &s.data) {
                        Some(d) => if s.hdr[5] != (crc16_ref(&d) & 0xff) as u8 { return Err("td0/sector-crc-wrong".into()); },
                        None => return Err("td0/sector-record-undecodable".into())
                    }
                    if le16(&s.data[0..2]) + 2 != s.data.len() { return Err("td0/sector-length-word-wrong".into()); }
                }
            }
            if t.tail.first() != Some(&0xff) { return Err("td0/no-end-mark".into()); }
            Ok(())
        }
        "2mg" => {
            if b.len() < 64 || &b[0..4] != b"2IMG" { return Err("2mg/bad-signature".into()); }
            let (hl, fmt, blocks, doff, dlen, coff, clen, roff, rlen) = (le16(&b[8..10]), le32(&b[12..16]), le32(&b[20..24]), le32(&b[24..28]), le32(&b[28..32]), le32(&b[32..36]), le32(&b[36..40]), le32(&b[40..44]), le32(&b[44..48]));
            if hl != 64 { return Err("2mg/header-length-field-wrong".into()); }
            if doff != 64 { return Err("2mg/data-offset-wrong".into()); }
            if 64 + dlen + clen + rlen != b.len() { return Err("2mg/lengths-do-not-tile-file".into()); }
            if clen > 0 && coff != 64 + dlen { return Err("2mg/comment-offset-wrong".into()); }
            if clen == 0 && coff != 0 { return Err("2mg/comment-offset-wrong".into()); }
            if rlen > 0 && roff != 64 + dlen + clen { return Err("2mg/creator-offset-wrong".into()); }
            if rlen == 0 && roff != 0 { return Err("2mg/creator-offset-wrong".into()); }
            if fmt == 1 && blocks * 512 != dlen { return Err("2mg/blocks-field-disagrees-with-data-length".into()); }
            Ok(())
        }
        "imd" => {
            if b.len() < 30 || &b[0..4] != b"IMD " { return Err("imd/bad-signature".into()); }
            let eof = match b[29..].iter().position(|x| *x == 0x1a) { Some(i) => 29 + i, None => return Err("imd/no-comment-terminator".into()) };
            let mut p = eof + 1;
            while p < b.len() {
                if p + 5 > b.len() { return Err("imd/short-track-header".into()); }
                let (head, n, shift) = (b[p + 2], b[p + 3] as usize, b[p + 4]);
                if shift > 6 { return Err("imd/bad-sector-size-code".into()); }
                p += 5 + n;
                if head & 0x80 != 0 { p += n; }
                if head & 0x40 != 0 { p += n; }
                let size = 128usize << shift;
                for _ in 0..n {
                    if p >= b.len() { return Err("imd/short-track".into()); }
                    match b[p] {
                        0 => p += 1,
                        1 | 3 | 5 | 7 => { if p + 1 + size > b.len() { return Err("imd/short-sector".into()); } if uniform(&b[p + 1..p + 1 + size]) { return Err("imd/uniform-sector-not-compressed".into()); } p += 1 + size; }
                        2 | 4 | 6 | 8 => p += 2,
                        _ => return Err("imd/bad-sector-code".into())
                    }
                }
            }
            if p != b.len() { return Err("imd/short-track".into()); }
            Ok(())
        }
        _ => Ok(())
    }
}

// ------------------------------------------------------------------------------------------------
// the whole-property oracle for one image

struct Verdict { ok: bool }

/// `img` is an image a2kit created or loaded; `hints` = extension hints to reload with
fn flush(out: &mut Out, buf: Vec<(bool, String, String, String)>, typ: &str, hazards: &[&'static str]) {
    if hazards.is_empty() {
        for (p, n, s, c) in buf { out.oracle(p, &n, &s, &c); }
    } else {
        let sig = format!("c09/{}/roundtrip-after:{}", typ, hazards[0]);
        match buf.iter().find(|x| !x.0) {
            Some((_, n, s, c)) => out.oracle(false, "roundtrip-after-hazard", &sig, &format!("{} first-symptom={} ({})", c, s, n)),
            None => out.oracle(true, "roundtrip-after-hazard", &sig, "")
        }
    }
}

fn roundtrip_oracle(out: &mut Out, img: &mut Box<dyn DiskImage>, label: &str, typ: &str, check_kind: bool, hints: &[Option<&str>], case: &str, hazards: &[&'static str]) -> (Verdict, Vec<u8>) {
    // a hazard class exercised by the generator gets its own signature so that a known defect does not hide other failures
    let sig = |what: &str| format!("c09/{}/{}", label, what);
    let mut ok = true;
    // verdicts are buffered: a case that exercised a known hazard class reports ONE verdict under the
    // signature of the hazard (so that the finding key does not depend on which symptom shows first)
    let mut buf: Vec<(bool, String, String, String)> = Vec::new();
    macro_rules! emit { ($pass:expr, $name:expr, $sig:expr, $case:expr) => { buf.push(($pass, $name.to_string(), $sig.to_string(), $case.to_string())) } }
    // sectors as seen BEFORE the first serialisation: `to_bytes` takes `&mut self` (2MG, TD0 and WOZ2 rewrite parts
    // of the object), the object must stay the same disk afterwards and must serialise identically again
    let pre = guarded(|| if img.byte_capacity() <= 4_000_000 { let (_, g) = geometry(img); Some(dump_sectors(img, &g)) } else { None }).ok().flatten();
    let b1 = match guarded(|| img.to_bytes()) {
        Ok(b) => b,
        Err(p) => { emit!(false, "to_bytes-no-panic", &sig(&format!("to_bytes-panic:{}", site(&p))), &format!("{} panic={}", case, p)); flush(out, buf, typ, hazards); return (Verdict { ok: false }, Vec::new()); }
    };
    let (o1, geo1) = match guarded(|| observe(img)) {
        Ok(o) => o,
        Err(p) => { emit!(false, "observe-no-panic", &sig(&format!("observe-panic:{}", site(&p))), &format!("{} panic={}", case, p)); flush(out, buf, typ, hazards); return (Verdict { ok: false }, b1); }
    };
    if let Some(pre) = &pre {
        let first = pre.iter().zip(o1.sectors.iter()).find(|(a, b)| a != b);
        let same = pre.len() == o1.sectors.len() && first.is_none();
        ok &= same;
        emit!(same, "object-intact-after-to_bytes", &sig("object-changed-by-to_bytes"), &format!("{} n={}/{} first={:?}", case, pre.len(), o1.sectors.len(), first));
    }
    // serialising is repeatable (same object, after every sector has been read again)
    match guarded(|| img.to_bytes()) {
        Ok(b) => { let same = b == b1; ok &= same; emit!(same, "to_bytes-repeatable", &sig("to_bytes-not-repeatable"), case); }
        Err(p) => { ok = false; emit!(false, "to_bytes-no-panic", &sig(&format!("to_bytes-panic:{}", site(&p))), &format!("{} panic={}", case, p)); }
    }
    // integrity fields
    match guarded(|| integrity(typ, &b1)) {
        Ok(Ok(())) => emit!(true, "integrity-fields", &sig("integrity"), case),
        Ok(Err(e)) => { ok = false; emit!(false, "integrity-fields", &sig(&format!("integrity:{}", e)), &format!("{} what={}", case, e)); }
        Err(p) => { ok = false; emit!(false, "integrity-fields", &sig("integrity:reference-parser-panic"), &format!("{} panic={}", case, p)); }
    }
    for hint in hints {
        let hs = hint.unwrap_or("none");
        let r = guarded(|| a2kit::create_img_from_bytestream(&b1, *hint).map_err(|e| e.to_string()));
        let mut img2 = match r {
            Ok(Ok(i)) => i,
            Ok(Err(e)) => { ok = false; emit!(false, "reload", &sig("reload-refused"), &format!("{} hint={} err={}", case, hs, e)); continue; }
            Err(p) => { ok = false; emit!(false, "reload", &sig(&format!("reload-panic:{}", site(&p))), &format!("{} hint={} panic={}", case, hs, p)); continue; }
        };
        // FIRST what a user sees right after loading, before anything is asked that makes the object look at its tracks
        // (`export_geometry` / `get_track_solution` re-derive the kind of a nibble image): the kind as loaded, and every sector
        // through the geometry of the saved object
        if check_kind {
            let k2 = guarded(|| img2.kind().to_string()).unwrap_or_else(|p| format!("panic {}", p));
            let same = k2 == o1.kind; ok &= same;
            emit!(same, "same-kind-as-loaded", &sig("kind-differs-right-after-load"), &format!("{} hint={} was={} now={}", case, hs, o1.kind, k2));
        }
        if o1.cap <= 4_000_000 && !(typ == "img" && !check_kind) {
            match guarded(|| dump_sectors(&mut img2, &geo1)) {
                Ok(sec2) => {
                    let first = o1.sectors.iter().zip(sec2.iter()).find(|(a, b)| a != b);
                    let same = o1.sectors.len() == sec2.len() && first.is_none(); ok &= same;
                    emit!(same, "same-sectors-as-loaded", &sig("sector-content-differs-right-after-load"), &format!("{} hint={} n={}/{} first={:?}", case, hs, o1.sectors.len(), sec2.len(), first));
                }
                Err(p) => { ok = false; emit!(false, "same-sectors-as-loaded", &sig(&format!("read-after-load-panic:{}", site(&p))), &format!("{} hint={} panic={}", case, hs, p)); }
            }
        }
        let o2 = match guarded(|| observe(&mut img2)) {
            Ok((o, _)) => o,
            Err(p) => { ok = false; emit!(false, "reload", &sig(&format!("observe-reloaded-panic:{}", site(&p))), &format!("{} panic={}", case, p)); continue; }
        };
        let mut chk = |pass: bool, name: &str, what: &str, detail: String| {
            if !pass { ok = false; }
            buf.push((pass, name.to_string(), sig(what), format!("{} hint={} {}", case, hs, detail)));
        };
        chk(o2.typ == o1.typ, "same-type", "type-differs", format!("was={} now={}", o1.typ, o2.typ));
        if o2.typ != o1.typ { continue; }
        if check_kind { chk(o2.kind == o1.kind, "same-kind", "kind-differs", format!("was={} now={}", o1.kind, o2.kind)); }
        chk(o2.cap == o1.cap, "same-capacity", "capacity-differs", format!("was={} now={}", o1.cap, o2.cap));
        // a headerless dump whose kind is ambiguous keeps the linear sector order but not the cylinder/head split
        let linear_only = typ == "img" && !check_kind;
        chk(o2.tracks == o1.tracks && (linear_only || o2.heads == o1.heads), "same-track-count", "track-count-differs", format!("was={}x{} now={}x{}", o1.tracks, o1.heads, o2.tracks, o2.heads));
        if !linear_only { chk(o2.geometry == o1.geometry, "same-geometry", "geometry-differs", format!("was={} now={}", &o1.geometry[..o1.geometry.len().min(120)], &o2.geometry[..o2.geometry.len().min(120)])); }
        let first = o1.sectors.iter().zip(o2.sectors.iter()).find(|(a, b)| if linear_only { a.1 != b.1 } else { a != b });
        chk(o1.sectors.len() == o2.sectors.len() && first.is_none(), "same-sectors", "sector-content-differs", format!("n={}/{} first={:?}", o1.sectors.len(), o2.sectors.len(), first));
        chk(o2.meta == o1.meta, "same-metadata", "metadata-differs", format!("was={} now={}", o1.meta, o2.meta));
        match guarded(|| img2.to_bytes()) {
            Ok(b2) => chk(b2 == b1, "reserialize-identical", "reserialize-differs", format!("len={}/{} firstdiff={:?}", b1.len(), b2.len(), b1.iter().zip(b2.iter()).position(|(a, b)| a != b))),
            Err(p) => chk(false, "reserialize-identical", &format!("reserialize-panic:{}", site(&p)), format!("panic={}", p)),
        }
    }
    flush(out, buf, typ, hazards);
    (Verdict { ok }, b1)
}

// ------------------------------------------------------------------------------------------------
// model ties

fn tie_woz(out: &mut Out, b1: &[u8], full_crc: bool) {
    // chunk walk of the real `get_next_chunk`
    out.q(&format!("c09 wozchunks {}", hx(&walk_skeleton(b1))), &real_walk(&walk_skeleton(b1)));
    if full_crc { out.q(&format!("c09 crc32 {}", hx(&b1[12..])), &format!("{}", le32(&b1[8..12]))); }
}

/// the chunk walk only looks at ids and sizes; to keep requests small the payloads are cut out and the
/// sizes patched accordingly (the real function is run on the same skeleton)
fn walk_skeleton(b: &[u8]) -> Vec<u8> {
    let mut out = b[..12.min(b.len())].to_vec();
    let mut p = 12;
    while p + 8 <= b.len() {
        let size = le32(&b[p + 4..p + 8]);
        if p + 8 + size > b.len() { out.extend_from_slice(&b[p..]); break; }
        let keep = size.min(16);
        out.extend_from_slice(&b[p..p + 4]);
        out.extend_from_slice(&(keep as u32).to_le_bytes());
        out.extend_from_slice(&b[p + 8..p + 8 + keep]);
        p += 8 + size;
    }
    out
}

fn id_text(id: u32) -> String { id.to_le_bytes().iter().map(|b| if *b > 32 && *b < 127 { *b as char } else { '?' }).collect() }

fn real_walk(buf: &[u8]) -> String {
    let mut v = Vec::new();
    let mut ptr = 12;
    let mut fuel = buf.len() + 1;
    while ptr > 0 && fuel > 0 {
        fuel -= 1;
        let r = guarded(|| img::woz::get_next_chunk(ptr, buf));
        match r {
            Ok((next, id, chunk)) => {
                // what the model calls "found": a chunk header that fits in the buffer
                if ptr + 8 <= buf.len() {
                    let size = le32(&buf[ptr + 4..ptr + 8]);
                    if ptr + 8 + size <= buf.len() {
                        v.push(format!("{}@{}+{}{}", id_text(id), ptr, size, if chunk.is_some() { "" } else { "!" }));
                    }
                }
                ptr = next;
            }
            Err(_) => return "panic".into()
        }
    }
    if v.is_empty() { "-".into() } else { v.join(",") }
}

/// IMD: describe the image from what the public interface shows + the maps parsed from the bytes, ask the model
/// for `toBytes` of that description
fn tie_imd(out: &mut Out, img: &mut Box<dyn DiskImage>, b1: &[u8]) {
    let eof = match b1[29..].iter().position(|x| *x == 0x1a) { Some(i) => 29 + i, None => return };
    let mut req = format!("c09 imdimg {} {}", hx(&b1[..29]), hx(&b1[29..eof]));
    let mut p = eof + 1;
    let mut trks = Vec::new();
    while p + 5 <= b1.len() {
        let (mode, cyl, head, n, shift) = (b1[p], b1[p + 1], b1[p + 2], b1[p + 3] as usize, b1[p + 4]);
        let smap = b1[p + 5..p + 5 + n].to_vec();
        p += 5 + n;
        let cmap = if head & 0x80 != 0 { let m = b1[p..p + n].to_vec(); p += n; m } else { vec![] };
        let hmap = if head & 0x40 != 0 { let m = b1[p..p + n].to_vec(); p += n; m } else { vec![] };
        let mut t = format!(" {} {} {} {} {} {} {} {}", mode, cyl, head, n, shift, hx(&smap), hx(&cmap), hx(&hmap));
        for i in 0..n {
            // content through the public interface, not from the bytes
            match img.read_sector(cyl as usize, (head & 0x0f) as usize, smap[i] as usize) {
                Ok(d) => if uniform(&d) { t += &format!(" U1:{:02X}", d[0]); } else { t += &format!(" R1:{}", hx(&d)); },
                Err(_) => t += " N"
            }
            p += match b1[p] { 0 => 1, 2 | 4 | 6 | 8 => 2, _ => 1 + (128usize << shift) };
        }
        trks.push(t);
    }
    req += &format!(" {}", trks.len());
    for t in trks { req += &t; }
    out.q(&req, &format!("{} rt-ok", hx(b1)));
}

fn tie_td0(out: &mut Out, b1: &[u8], rng: &mut Rng, whole: bool, notes: Option<String>) {
    let x = match retrocompressor::td0::expand_slice(b1) { Ok(x) => x, Err(_) => return };
    let t = match td_parse(&x) { Ok(t) => t, Err(_) => return };
    // sector records: what `pack` made of the content (content via the reference decoder of the stored record)
    let mut n = 0;
    for trk in &t.tracks {
        for s in &trk.secs {
            if s.hdr[4] & 0x30 != 0 { continue; }
            if let Some(d) = td_unpack_ref(s.hdr[3], &s.data) {
                let interesting = s.data[2] == 0 || d[0] != 0;
                if (interesting && n < 6) || rng.chance(1) {
                    n += 1;
                    out.q(&format!("c09 td0pack {} {}", s.hdr[3], hx(&d)), &hx(&s.data));
                }
            }
        }
    }
    if whole {
        // the notes as the real object holds them (from get_metadata), not as stored: the model has to encode them
        let com = match (&t.comment, &notes) { (Some((h, _)), Some(n)) => format!("{}:{}", hx(&h[4..10]), hx(n.as_bytes())), _ => "none".into() };
        let mut req = format!("c09 td0img {} {} {}", hx(&t.hdr[2..10]), com, t.tracks.len());
        for trk in &t.tracks {
            req += &format!(" {} {} {}", trk.hdr[0], trk.hdr[1], trk.hdr[2]);
            for s in &trk.secs { req += &format!(" {} {} {} {} {} {} {}", s.hdr[0], s.hdr[1], s.hdr[2], s.hdr[3], s.hdr[4], 0, hx(&s.data)); }
        }
        // the LZHUF decoder may emit a few surplus bytes after the 7 trailer bytes: compare up to the trailer
        let end = (x.len() - t.tail.len() + 8).min(x.len());
        out.q(&req, &format!("{} rt-ok", hx(&x[..end])));
    }
}

fn tie_2mg(out: &mut Out, b1: &[u8], rng: &mut Rng) {
    // scramble the fields that `to_bytes` recomputes; the model must restore exactly what the real code wrote
    let mut h = b1[..64].to_vec();
    for i in (24..28).chain(32..48) { h[i] = rng.byte(); }
    out.q(&format!("c09 mgfinal {} {} {}", hx(&h), le32(&b1[36..40]), le32(&b1[44..48])), &hx(&b1[..64]));
}

// ------------------------------------------------------------------------------------------------
// stream A: created images

fn case_created(ctx: &mut Ctx, idx: usize, cfg: &Cfg, rng: &mut Rng, heavy: bool) {
    let out = &mut ctx.out;
    let label = format!("{}/{}{}", cfg.typ, cfg.kind_name, cfg.wrap.map(|w| format!("+{}", w)).unwrap_or_default());
    let vol = if rng.chance(50) { 254 } else { rng.range(1, 254) as u8 };
    let mut img = match guarded(|| build(cfg, vol)) {
        Ok(Ok(i)) => i,
        Ok(Err(e)) => { out.oracle(false, "create", &format!("c09/{}/create-refused", label), &format!("A idx={} err={}", idx, e)); return; }
        // `mkimage` accepts (IMD|TD0, 3.5in-ibm-2880) but the constructors panic on the 1000 kbps data rate:
        // that pairing cannot be created at all, which is a matter for C10, not for the round trip
        Err(p) => { out.count(&format!("create-panic(C10):{}:{}", label, site(&p))); return; }
    };
    let (_, geo) = geometry(&mut img);
    let nw = if heavy { rng.range(0, 12) } else { rng.range(0, 4) };
    let wdesc = random_writes(&mut img, cfg.typ, &geo, rng, nw, out, None);
    let ne = rng.below(4);
    let elog = random_edits(&mut img, cfg, rng, ne, out, "A", idx);
    let case = format!("A idx={} cfg={} vol={} writes=[{}] edits=[{}]", idx, label, vol, wdesc.trim(), elog.desc.trim());
    let hazards: Vec<&'static str> = elog.classes.iter().cloned().filter(|c| matches!(*c, "imd-comment-with-eof-char" | "td0-notes-with-newline" | "td0-stepping-without-comment-flag" | "woz2-meta-value-ending-in-cr" | "2mg-blocks-edit" | "td0-notes-with-crlf")).collect();
    let mut hints: Vec<Option<&str>> = vec![Some(ext_of(cfg.typ))];
    if self_identifying(cfg.typ) { hints.push(None); }
    let (v, b1) = roundtrip_oracle(out, &mut img, &label, cfg.typ, records_kind(cfg), &hints, &case, &hazards);
    out.count(&format!("cfg:{}", label));
    let canon = format!("{}|{}|{}", label, wdesc, elog.desc);
    out.case(canon.as_bytes(), nw + elog.classes.len() > 0);
    out.sample(&case);
    let _ = v;
    if b1.len() < 64 { return; }
    // model ties on the bytes the real code produced
    match cfg.typ {
        "woz1" | "woz2" => {
            tie_woz(out, &b1, cfg.typ == "woz1" && idx % 8 == 6);
            if cfg.typ == "woz2" && cfg.kind_name == "A2_DOS32" { out.q(&format!("c09 woz2save {}", hx(&b1)), &format!("1536 1536 {} {} stable reparse-ok", b1.len(), le32(&b1[8..12]))); }
        }
        "imd" => if b1.len() < 120_000 || idx % 16 == 3 { let _ = guarded(|| tie_imd(out, &mut img, &b1)); },
        "td0" => { let notes = guarded(|| img.get_metadata(None)).ok().and_then(|m| lookup(&m, &["td0".to_string(), "comment".to_string(), "notes".to_string()])); tie_td0(out, &b1, rng, b1.len() < 60_000, notes) },
        "2mg" => tie_2mg(out, &b1, rng),
        _ => {}
    }
    // the SAME object keeps working after it has been serialised: write again, run the oracle again
    if v.ok && !b1.is_empty() && b1.len() < 1_200_000 && hazards.is_empty() {
        // geometry as the object shows it NOW (after to_bytes), under guard
        let geo2 = match guarded(|| geometry(&mut img).1) {
            Ok(g) => g,
            Err(p) => { out.oracle(false, "object-usable-after-to_bytes", &format!("c09/{}/object-unusable-after-to_bytes:panic:{}", label, site(&p)), &format!("{} panic={}", case, p)); return; }
        };
        let w2 = random_writes(&mut img, cfg.typ, &geo2, rng, 2, out, Some((&label, &case)));
        let (v2, _) = roundtrip_oracle(out, &mut img, &label, cfg.typ, records_kind(cfg), &hints[..1], &format!("{} then writes=[{}]", case, w2.trim()), &[]);
        let _ = v2;
    }
}

// ------------------------------------------------------------------------------------------------
// stream B: pure codec ties

fn td_record(rng: &mut Rng, shift: u8) -> Vec<u8> {
    let size = 128usize << shift;
    let mut body = Vec::new();
    let enc = rng.below(4) as u8;
    match enc {
        0 => { body = { let n_ = if rng.chance(10) { size - 1 } else { size }; rng.bytes(n_) }; }
        1 => { let mut left = size / 2; while left > 0 { let c = if rng.chance(50) { left } else { rng.range(1, left) }; let c = if rng.chance(5) { c + 1 } else { c }; body.extend_from_slice(&(c as u16).to_le_bytes()); body.push(rng.byte()); body.push(rng.byte()); left = left.saturating_sub(c); } }
        2 => { let mut have = 0; while have < size {
                if rng.chance(50) { let n = rng.range(1, 255.min(size - have)); body.push(0); body.push(n as u8); body.extend(rng.bytes(n)); have += n; }
                else { let rc = rng.range(1, 4); let rep = rng.range(1, 255.min(((size - have) / (2 * rc)).max(1))); body.push(rc as u8); body.push(rep as u8); body.extend(rng.bytes(2 * rc)); have += 2 * rc * rep; }
            } if rng.chance(10) { body.pop(); } }
        _ => { body = { let n_ = rng.below(8); rng.bytes(n_) }; }
    }
    let mut rec = ((body.len() + 1) as u16).to_le_bytes().to_vec();
    rec.push(enc);
    rec.extend(body);
    rec
}

/// a minimal normal-compression (`TD`) image with one track; sector `i` has id `i+1`
fn td_image(shift: u8, recs: &[Vec<u8>]) -> Vec<u8> {
    let mut b = vec![b'T', b'D', 0, 0, 0x15, 0, 1, 0, 0, 1];
    let c = crc16_ref(&b);
    b.extend_from_slice(&c.to_le_bytes());
    let th = [recs.len() as u8, 0, 0];
    b.extend_from_slice(&th);
    b.push((crc16_ref(&th) & 0xff) as u8);
    for (i, r) in recs.iter().enumerate() {
        b.extend_from_slice(&[0, 0, (i + 1) as u8, shift, 0, 0]);
        b.extend_from_slice(r);
    }
    b.push(0xff);
    b
}

fn case_codec(ctx: &mut Ctx, idx: usize, rng: &mut Rng) {
    let out = &mut ctx.out;
    match idx % 5 {
        0 => { // crc32 / crc16 of the public functions
            let n = if rng.chance(10) { 0 } else { rng.range(1, 600) };
            let buf = if rng.chance(20) { vec![rng.byte(); n] } else { rng.bytes(n) };
            out.q(&format!("c09 crc32 {}", hx(&buf)), &format!("{}", img::woz::crc32(0, &buf)));
            out.q(&format!("c09 crc16 {}", hx(&buf)), &format!("{}", img::td0::crc16(0, &buf)));
            out.oracle(img::woz::crc32(0, &buf) == crc32_ref(&buf), "crc32-is-crc32", "c09/woz/crc32-function-wrong", &format!("B idx={} len={}", idx, n));
            out.oracle(img::td0::crc16(0, &buf) == crc16_ref(&buf), "crc16-is-td0-crc", "c09/td0/crc16-function-wrong", &format!("B idx={} len={}", idx, n));
            out.case(&buf, n > 0);
        }
        1 | 2 => { // TD0 sector records decoded by the real `Sector::unpack` (through from_bytes + read_sector)
            let shift = rng.below(4) as u8;
            let nrec = rng.range(1, 4);
            let recs: Vec<Vec<u8>> = (0..nrec).map(|_| td_record(rng, shift)).collect();
            let bytes = td_image(shift, &recs);
            let r = guarded(|| img::td0::Td0::from_bytes(&bytes));
            match r {
                Ok(Ok(mut t)) => {
                    for (i, rec) in recs.iter().enumerate() {
                        let a = match guarded(|| t.read_sector(0, 0, i + 1)) { Ok(Ok(d)) => hx(&d), Ok(Err(_)) => "err".into(), Err(_) => "panic".into() };
                        out.q(&format!("c09 td0unpack {} {}", shift, hx(rec)), &a);
                        out.count(&format!("td0-record-enc{}:{}", rec[2], if a == "err" { "err" } else { "ok" }));
                    }
                }
                Ok(Err(_)) => out.count("td0-handmade-refused"),
                Err(_) => out.count("td0-handmade-panic(C12)"),
            }
            out.case(&bytes, true);
        }
        3 => { // chunk walks over shuffled / truncated / unknown chunks
            let mut b = b"WOZ2\xff\n\r\n\0\0\0\0".to_vec();
            let ids: [&[u8; 4]; 7] = [b"INFO", b"TMAP", b"TRKS", b"META", b"WRIT", b"FLUX", b"\0\0\0\0"];
            for _ in 0..rng.range(0, 6) {
                let id = *rng.pick(&ids);
                let n = rng.below(20);
                b.extend_from_slice(id);
                let claimed = if rng.chance(12) { n + rng.range(1, 40) } else { n };
                b.extend_from_slice(&(claimed as u32).to_le_bytes());
                b.extend(rng.bytes(n));
            }
            if rng.chance(30) { let cut = rng.below(9); let l = b.len(); b.truncate(l.saturating_sub(cut).max(12)); }
            out.q(&format!("c09 wozchunks {}", hx(&b)), &real_walk(&b));
            out.case(&b, b.len() > 12);
        }
        _ => { // IMD compress/expand through a real image: one track of a hand-made IMD file
            let shift = rng.below(3) as u8;
            let size = 128usize << shift;
            let n = rng.range(1, 5);
            let mut b = b"IMD 1.18: 01/01/2000 00:00:00".to_vec();
            b.extend_from_slice(b"c09\x1a");
            b.extend_from_slice(&[5, 0, 0, n as u8, shift]);
            for i in 0..n { b.push(i as u8 + 1); }
            let mut stored = Vec::new();
            for _ in 0..n {
                let code = *rng.pick(&[0u8, 1, 1, 2, 2, 3, 4, 5, 6, 7, 8]);
                stored.push(code);
                match code { 0 => {}, 2 | 4 | 6 | 8 => stored.push(rng.byte()), _ => stored.extend(if rng.chance(30) { vec![rng.byte(); size] } else { rng.bytes(size) }) }
            }
            b.extend_from_slice(&stored);
            // real: from_bytes expands, to_bytes compresses again
            let r = guarded(|| img::imd::Imd::from_bytes(&b).map(|mut i| i.to_bytes()));
            let hdr = 29 + 4 + 5 + n;
            let a = match r { Ok(Ok(b2)) => hx(&b2[hdr..]), Ok(Err(_)) => "err".into(), Err(_) => "panic".into() };
            // model: compress (expand stored)
            out.q(&format!("c09 imdrecompress {} {} {}", shift, n, hx(&stored)), &a);
            out.case(&b, true);
        }
    }
}

// ------------------------------------------------------------------------------------------------
// stream C: loaded images (foreign byte streams a2kit accepts)

fn case_loaded(ctx: &mut Ctx, idx: usize, rng: &mut Rng) {
    let out = &mut ctx.out;
    let (label, typ, bytes, ext): (&str, &str, Vec<u8>, &str) = match idx % 4 {
        0 => { // IMD written by another tool: uniform sectors left uncompressed, deleted-data and error codes
            let mut i = img::imd::Imd::create(names::OSBORNE1_SD_KIND);
            let b = i.to_bytes();
            let eof = b.iter().position(|x| *x == 0x1a).unwrap();
            let mut o = b[..29].to_vec();
            o.extend_from_slice(b"foreign tool\r\nline 2\x1a");
            let mut p = eof + 1;
            while p < b.len() {
                let n = b[p + 3] as usize; let shift = b[p + 4]; let size = 128usize << shift;
                o.extend_from_slice(&b[p..p + 5 + n]);
                p += 5 + n;
                for _ in 0..n {
                    let (code, fill) = (b[p], b[p + 1]);
                    p += 2; // created image: every sector is compressed (code 2)
                    let _ = code;
                    match rng.below(5) {
                        0 => { o.push(*rng.pick(&[1u8, 3, 5, 7])); o.extend(vec![fill; size]); }      // uniform but stored expanded
                        1 => { o.push(*rng.pick(&[2u8, 4, 6, 8])); o.push(rng.byte()); }
                        2 => { o.push(*rng.pick(&[1u8, 3])); o.extend(rng.bytes(size)); }
                        _ => { o.push(2); o.push(fill); }
                    }
                }
            }
            ("imd/loaded-foreign", "imd", o, "imd")
        }
        1 => { // TD0 without advanced compression, no comment, all three sector encodings
            let shift = 1u8;
            let mut recs = Vec::new();
            // `create_img_from_bytestream` does not look at streams shorter than 100 bytes
            while recs.len() < 5 || td_image(shift, &recs).len() < 100 { let r = td_record(rng, shift); if td_unpack_ref(shift, &r).is_some() { recs.push(r); } }
            ("td0/loaded-normal-compression", "td0", td_image(shift, &recs), "td0")
        }
        2 => { // WOZ2 with META before WRIT-like extra chunks appended by another tool (creator order INFO,TMAP,TRKS kept)
            let mut w = img::woz2::Woz2::create(254, names::A2_DOS33_KIND);
            let mut b = w.to_bytes();
            let writ = { let n_ = rng.range(1, 40); rng.bytes(n_) };
            b.extend_from_slice(b"WRIT"); b.extend_from_slice(&(writ.len() as u32).to_le_bytes()); b.extend(writ);
            let meta = b"title\tForeign\nlanguage\tEnglish\n".to_vec();
            b.extend_from_slice(b"META"); b.extend_from_slice(&(meta.len() as u32).to_le_bytes()); b.extend(meta);
            if rng.chance(50) { let x = { let n_ = rng.range(1, 30); rng.bytes(n_) }; b.extend_from_slice(b"XTRA"); b.extend_from_slice(&(x.len() as u32).to_le_bytes()); b.extend(x); }
            let crc = crc32_ref(&b[12..]).to_le_bytes();
            b[8..12].copy_from_slice(&crc);
            ("woz2/loaded-extra-chunks", "woz2", b, "woz")
        }
        _ => { // 2MG from another creator: comment and creator stored in the other order, non-a2kit creator id
            let data = rng.bytes(143360);
            let comment = b"a comment".to_vec();
            let creator = b"other creator data".to_vec();
            let mut h = b"2IMGXGS!".to_vec();
            h.extend_from_slice(&[64, 0, 1, 0]); h.extend_from_slice(&0u32.to_le_bytes()); h.extend_from_slice(&[254, 1, 0, 0]);
            h.extend_from_slice(&280u32.to_le_bytes()); h.extend_from_slice(&64u32.to_le_bytes()); h.extend_from_slice(&(data.len() as u32).to_le_bytes());
            let roff = 64 + data.len(); let coff = roff + creator.len();
            h.extend_from_slice(&(coff as u32).to_le_bytes()); h.extend_from_slice(&(comment.len() as u32).to_le_bytes());
            h.extend_from_slice(&(roff as u32).to_le_bytes()); h.extend_from_slice(&(creator.len() as u32).to_le_bytes());
            h.extend_from_slice(&[0; 16]);
            h.extend(data); h.extend(creator); h.extend(comment);
            ("2mg/loaded-foreign-layout", "2mg", h, "2mg")
        }
    };
    let r = guarded(|| a2kit::create_img_from_bytestream(&bytes, Some(ext)).map_err(|e| e.to_string()));
    let mut img = match r {
        Ok(Ok(i)) => i,
        Ok(Err(e)) => { out.count(&format!("loaded-refused:{}", label)); out.oracle(false, "load-handmade", &format!("c09/{}/handmade-stream-refused", label), &format!("C idx={} err={} file={}", idx, e, hx(&bytes[..bytes.len().min(3000)]))); return; }
        Err(p) => { out.oracle(false, "load-handmade", &format!("c09/{}/handmade-stream-panic:{}", label, site(&p)), &format!("C idx={} panic={}", idx, p)); return; }
    };
    let case = format!("C idx={} cfg={} len={}", idx, label, bytes.len());
    let (_v, _b) = roundtrip_oracle(out, &mut img, label, typ, true, &[Some(ext), None], &case, &[]);
    out.count(&format!("cfg:{}", label));
    out.case(&bytes, true);
}

// ------------------------------------------------------------------------------------------------
// stream D: DESIGN §9 item 27

fn case_item27(ctx: &mut Ctx, idx: usize, rng: &mut Rng) {
    let out = &mut ctx.out;
    // a WOZ2 whose META chunk (a whole number of 512-byte blocks long) precedes TRKS and whose TRK entries point
    // at the shifted blocks: every chunk is found by the walk, every track decodes, the image loads
    let mut w = img::woz2::Woz2::create(254, names::A2_DOS33_KIND);
    let b = w.to_bytes();
    let k = 1 + idx % 3; // blocks inserted before TRKS
    let mut meta = format!("title\tchunk order {}", rng.below(100)).into_bytes();
    while meta.len() < 512 * k - 9 { meta.push(b'.'); }
    meta.push(b'\n');
    let mut o = b[..248].to_vec();
    o.extend_from_slice(b"META"); o.extend_from_slice(&(meta.len() as u32).to_le_bytes()); o.extend(&meta);
    o.extend_from_slice(&b[248..]);
    for t in 0..160 {
        let e = 248 + 512 * k + 8 + 8 * t;
        let start = le16(&o[e..e + 2]);
        if start > 0 { o[e..e + 2].copy_from_slice(&((start + k) as u16).to_le_bytes()); }
    }
    let crc = crc32_ref(&o[12..]).to_le_bytes();
    o[8..12].copy_from_slice(&crc);
    let case = format!("D idx={} woz2 INFO,TMAP,META({}),TRKS", idx, meta.len());
    match guarded(|| a2kit::create_img_from_bytestream(&o, Some("woz")).map_err(|e| e.to_string())) {
        Ok(Ok(mut i)) => {
            match guarded(|| i.to_bytes()) {
                Ok(b1) => {
                    out.oracle(true, "loaded-image-serialises", "c09/woz2/loaded-nonstandard-chunk-order/to_bytes-panic", &case);
                    // the object model loads the same file, re-bases and must produce the same bytes (length + CRC-32 field)
                    out.q(&format!("c09 woz2save {}", hx(&o)), &format!("{} 1536 {} {} stable reparse-ok", 1536 + 512 * k, b1.len(), le32(&b1[8..12])));
                }
                Err(p) => { out.oracle(false, "loaded-image-serialises", "c09/woz2/loaded-nonstandard-chunk-order/to_bytes-panic", &format!("{} panic={}", case, p)); out.case(&o[..300], true); return; }
            }
            // a FRESH object from the same bytes goes through the whole oracle (sectors before = after the first
            // to_bytes, second to_bytes identical, reload equal); then the SAME object is written to and checked again
            if let Ok(Ok(mut j)) = guarded(|| a2kit::create_img_from_bytestream(&o, Some("woz")).map_err(|e| e.to_string())) {
                let label = "woz2/loaded-nonstandard-chunk-order";
                roundtrip_oracle(out, &mut j, label, "woz2", true, &[Some("woz"), None], &case, &[]);
                match guarded(|| geometry(&mut j).1) {
                    Ok(geo) => {
                        let wdesc = random_writes(&mut j, "woz2", &geo, rng, 3, out, Some((label, &case)));
                        roundtrip_oracle(out, &mut j, label, "woz2", true, &[Some("woz")], &format!("{} then writes=[{}]", case, wdesc.trim()), &[]);
                    }
                    Err(p) => out.oracle(false, "object-usable-after-to_bytes", &format!("c09/{}/object-unusable-after-to_bytes:panic:{}", label, site(&p)), &format!("{} panic={}", case, p)),
                }
            }
        }
        Ok(Err(_)) => { out.count("item27-refused-at-load"); out.oracle(true, "loaded-image-serialises", "c09/woz2/loaded-nonstandard-chunk-order/to_bytes-panic", &case); }
        Err(p) => out.oracle(false, "loaded-image-serialises", "c09/woz2/loaded-nonstandard-chunk-order/load-panic", &format!("{} panic={}", case, p)),
    }
    out.case(&o[..300], true);
}

// ------------------------------------------------------------------------------------------------
// stream E: one directed case per hazard class, so that the quick tier meets each of them with every seed

fn case_directed(ctx: &mut Ctx, idx: usize, rng: &mut Rng) {
    let out = &mut ctx.out;
    let cfgs = configs();
    let find = |typ: &str, kind: &str| cfgs.iter().find(|c| c.typ == typ && c.kind_name == kind).unwrap().clone();
    let p = |v: &[&str]| v.iter().map(|s| s.to_string()).collect::<Vec<String>>();
    let (cfg, path, val, class): (Cfg, Vec<String>, String, &'static str) = match idx % 11 {
        0 => (find("imd", "OSBORNE1_SD"), p(&["imd", "comment"]), "first\u{1a}second".to_string(), "imd-comment-with-eof-char"),
        1 => (find("td0", "OSBORNE1_SD"), p(&["td0", "comment", "notes"]), "line 1\nline 2".to_string(), "td0-notes-with-newline"),
        2 => (find("td0", "OSBORNE1_DD"), p(&["td0", "header", "stepping", "_raw"]), format!("{:02x}", rng.below(3)), "td0-stepping-without-comment-flag"),
        3 => (find("woz2", "A2_DOS33"), p(&["woz2", "meta", "title"]), "Title\r".to_string(), "woz2-meta-value-ending-in-cr"),
        4 => (find("2mg", "A2_400"), p(&["2mg", "header", "blocks"]), random_hex(rng, 4), "2mg-blocks-edit"),
        5 => (find("2mg", "A2_DOS33"), p(&["2mg", "header", "blocks"]), random_hex(rng, 4), "2mg-blocks-edit"),
        6 => (find("td0", "OSBORNE1_SD"), p(&["td0", "comment", "notes"]), "line 1\r\nline 2\r\n".to_string(), "td0-notes-with-crlf"),
        7 => (find("td0", "KAYPROII"), p(&["td0", "comment", "notes"]), "cr\r\r\nthen crlf".to_string(), "td0-notes-with-cr-before-crlf"),
        8 => (find("td0", "OSBORNE1_SD"), p(&["td0", "comment", "notes"]), "nul\u{0}inside\r\u{0}".to_string(), "td0-notes-with-nul"),
        9 => (find("imd", "OSBORNE1_SD"), p(&["imd", "comment"]), "line 1\r\nline 2\r\r\n".to_string(), "imd-comment-with-crlf"),
        _ => (find("imd", "KAYPROII"), p(&["imd", "comment"]), "lone cr\rlone lf\nnul\u{0}.".to_string(), "imd-comment-with-cr-lf-nul"),
    };
    let label = format!("{}/{}", cfg.typ, cfg.kind_name);
    let mut img = match guarded(|| build(&cfg, 254)) { Ok(Ok(i)) => i, _ => return };
    let (_, geo) = geometry(&mut img);
    let wdesc = random_writes(&mut img, cfg.typ, &geo, rng, 3, out, None);
    let jv = json::JsonValue::String(val.clone());
    let sig = format!("c09/{}/roundtrip-after:{}", cfg.typ, class);
    let case = format!("E idx={} cfg={} writes=[{}] put /{}={:?}", idx, label, wdesc.trim(), path.join("/"), val);
    match guarded(|| img.put_metadata(&path, &jv).map_err(|e| e.to_string())) {
        Err(pn) => out.oracle(false, "roundtrip-after-hazard", &sig, &format!("{} put_metadata panic={}", case, pn)),
        Ok(Err(_)) => {
            // refusing the value is one of the two acceptable answers; the image must still round-trip
            out.count(&format!("directed-refused:{}", class));
            roundtrip_oracle(out, &mut img, &label, cfg.typ, false, &[Some(ext_of(cfg.typ)), None], &case, &[class]);
        }
        Ok(Ok(())) => {
            out.count(&format!("directed-accepted:{}", class));
            roundtrip_oracle(out, &mut img, &label, cfg.typ, false, &[Some(ext_of(cfg.typ)), None], &case, &[class]);
        }
    }
    out.case(case.as_bytes(), true);
}

// ------------------------------------------------------------------------------------------------
// stream G: 2MG files written by OTHER programs, built byte-wise here (nothing of a2kit's writer is used): any data
// offset, comment / creator extents in any order, overlapping, inside the data, ending at EOF-1 / EOF / EOF+1 / far beyond,
// zero length with a non-zero offset, text that is ASCII, multi-byte UTF-8 or not UTF-8 at all (Latin-1 / MacRoman),
// stale or absurd block counts, lock bit and volume number in the flags, non-standard header length / version fields.
// Loaded with the real `from_bytes`, saved: the header a2kit writes, the length and the hash of the file are compared
// with the Lean model (`c09 mgforeign`), the offsets and lengths of the saved file against the independent field
// check of `integrity`, then the whole round-trip oracle (reload with / without hint, second save identical).

enum Piece { Bytes(Vec<u8>), Zeros(usize) }

/// probe of the tree being checked (DESIGN §2, code as written / as repaired): does `to_bytes` reset the header-length
/// field of a loaded file to the 64 bytes it writes?
fn probe_2mg_fixes_header_len() -> bool {
    let mut h: Vec<u8> = b"2IMGXGS!".to_vec();
    h.extend_from_slice(&[65, 0, 1, 0]); h.extend_from_slice(&0u32.to_le_bytes()); h.extend_from_slice(&[254, 1, 0, 0]);
    h.extend_from_slice(&280u32.to_le_bytes()); h.extend_from_slice(&64u32.to_le_bytes()); h.extend_from_slice(&143360u32.to_le_bytes());
    h.extend_from_slice(&[0; 32]);
    h.resize(64 + 143360, 0);
    match guarded(|| img::dot2mg::Dot2mg::from_bytes(&h).map(|mut i| i.to_bytes())) { Ok(Ok(b)) => b.len() > 10 && b[8] == 64 && b[9] == 0, _ => false }
}

fn case_foreign_2mg(ctx: &mut Ctx, idx: usize, rng: &mut Rng, fix_len: bool) {
    let out = &mut ctx.out;
    let fmt: u32 = *rng.pick(&[0u32, 0, 0, 1, 1, 1, 1, 3]);
    let blocks: usize = if fmt == 0 { *rng.pick(&[280usize, 280, 280, 320, 400]) } else { *rng.pick(&[280usize, 280, 800, 1600]) };
    let data_len = match rng.below(20) { 0 => blocks * 512 + 1, 1 => 279 * 512, 2 => blocks * 512 + 256, _ => blocks * 512 };
    let data_off = *rng.pick(&[64usize, 64, 64, 64, 65, 128, 512]);
    let texts: [&[u8]; 8] = [b"Disk 1 of the accounting package", b"x", "Fran\u{e7}ois \u{2014} c\u{f4}t\u{e9} A".as_bytes(), b"caf\xe9 au lait (Latin-1)", b"\xd0\xcf\x11\xe0 MacRoman \x8e\x8f", b"", b"two\r\nlines", "\u{65e5}\u{672c}\u{8a9e}".as_bytes()];
    let comment = rng.pick(&texts[..]).to_vec();
    let creator = if rng.chance(50) { let n_ = rng.below(40); rng.bytes(n_) } else { rng.pick(&texts[..]).to_vec() };
    let class = rng.below(11);
    // layout of the tail: what follows the data, and what the header says about it
    let end_data = data_off + data_len;
    let (mut tail, mut coff, mut clen, mut roff, mut rlen): (Vec<u8>, usize, usize, usize, usize);
    match class {
        1 => { tail = [creator.clone(), comment.clone()].concat(); roff = end_data; rlen = creator.len(); coff = end_data + creator.len(); clen = comment.len(); }
        _ => { tail = [comment.clone(), creator.clone()].concat(); coff = end_data; clen = comment.len(); roff = end_data + comment.len(); rlen = creator.len(); }
    }
    match class {
        2 => { clen = comment.len() + creator.len() + 1; }                                       // comment extent one byte past EOF
        3 => { clen = 0; coff = end_data + 7; }                                                  // zero length, non-zero offset
        4 => { rlen += 1; }                                                                      // creator extent one byte past EOF
        5 => { let n_ = 1 + rng.below(9); tail.extend(rng.bytes(n_)); }                                       // trailing bytes nobody points at
        6 => { coff = 0; clen = 0; roff = 0; rlen = 0; }                                         // texts present but not announced
        7 => { roff = 0xffff_fff0; rlen = 32; }                                                  // far beyond the file
        8 => { coff = data_off + 100; clen = 20; }                                               // an extent inside the data
        9 => { roff = coff + clen / 2; }                                                         // overlapping extents
        10 => { if !tail.is_empty() { tail.pop(); } }                                            // file truncated by one byte
        _ => {}
    }
    let hdr_blocks: u32 = if fmt == 1 { if rng.chance(12) { blocks as u32 + 1 } else { (data_len / 512) as u32 } } else { *rng.pick(&[0u32, 280, 0xdead_beef]) };
    let vol = rng.byte();
    let flags: u32 = (vol as u32) | if rng.chance(60) { 0x100 } else { 0 } | if rng.chance(15) { 0x8000_0000 } else { 0 };
    let mut h: Vec<u8> = b"2IMG".to_vec();
    h.extend_from_slice(rng.pick(&[b"XGS!", b"CTKG", b"WOOF", b"!nfc"]).as_slice());
    h.extend_from_slice(&(if rng.chance(85) { 64u16 } else { data_off as u16 }).to_le_bytes());
    h.extend_from_slice(&(if rng.chance(90) { 1u16 } else { rng.below(4) as u16 }).to_le_bytes());
    h.extend_from_slice(&fmt.to_le_bytes());
    h.extend_from_slice(&flags.to_le_bytes());
    h.extend_from_slice(&hdr_blocks.to_le_bytes());
    h.extend_from_slice(&(data_off as u32).to_le_bytes());
    h.extend_from_slice(&(data_len as u32).to_le_bytes());
    h.extend_from_slice(&(coff as u32).to_le_bytes());
    h.extend_from_slice(&(clen as u32).to_le_bytes());
    h.extend_from_slice(&(roff as u32).to_le_bytes());
    h.extend_from_slice(&(rlen as u32).to_le_bytes());
    h.extend(if rng.chance(70) { vec![0u8; 16] } else { rng.bytes(16) });
    assert_eq!(h.len(), 64);
    // the data: zeros with a few islands of other bytes (sent to the model as pieces)
    let mut pieces: Vec<Piece> = vec![Piece::Bytes(h)];
    if data_off > 64 { pieces.push(Piece::Bytes(rng.bytes(data_off - 64))); }
    let mut left = data_len;
    while left > 0 {
        let z = rng.range(1, left.min(60000));
        if rng.chance(35) { let n = z.min(rng.range(1, 700)); pieces.push(Piece::Bytes(gen_data(rng, n).0)); left -= n; } else { pieces.push(Piece::Zeros(z)); left -= z; }
    }
    pieces.push(Piece::Bytes(tail));
    let mut file: Vec<u8> = Vec::new();
    let mut toks: Vec<String> = Vec::new();
    for p in &pieces { match p { Piece::Bytes(b) => { if !b.is_empty() { file.extend_from_slice(b); toks.push(hx(b)); } } Piece::Zeros(n) => { file.resize(file.len() + n, 0); toks.push(format!("z{}", n)); } } }
    // what the two extents hold (independently of a2kit): text, or nothing when out of range or not UTF-8
    let extent = |off: usize, len: usize| -> (bool, String) {
        if off + len > file.len() { (true, String::new()) } else { match std::str::from_utf8(&file[off..off + len]) { Ok(s) => (true, s.to_string()), Err(_) => (false, String::new()) } }
    };
    let (vc, want_comment) = extent(coff, clen);
    let (vr, want_creator) = extent(roff, rlen);
    let case = format!("G idx={} 2mg-foreign fmt={} data={}@{} blocks-field={} comment={}@{} creator={}@{} file={} class={} flags={:08x}", idx, fmt, data_len, data_off, hdr_blocks, clen, coff, rlen, roff, file.len(), class, flags);
    let req = format!("c09 mgforeign {} {} {} {}", toks.join(","), vc as u8, vr as u8, fix_len as u8);
    let loaded = guarded(|| img::dot2mg::Dot2mg::from_bytes(&file));
    match loaded {
        Err(p) => { out.q(&req, "panic"); out.oracle(false, "load-foreign-no-panic", &format!("c09/2mg/foreign/load-panic:{}", site(&p)), &format!("{} panic={}", case, p)); }
        Ok(Err(_)) => { out.q(&req, "err"); out.count("2mg-foreign:refused"); }
        Ok(Ok(i)) => {
            out.count(&format!("2mg-foreign:loaded:class{}", class));
            let mut img: Box<dyn DiskImage> = Box::new(i);
            let meta = img.get_metadata(None);
            let got_c = lookup(&meta, &["2mg".to_string(), "comment".to_string()]).unwrap_or_default();
            let got_r = lookup(&meta, &["2mg".to_string(), "creator_info".to_string()]).unwrap_or_default();
            out.oracle(got_c == want_comment && got_r == want_creator, "foreign-strings-read", "c09/2mg/foreign/strings-differ", &format!("{} comment want {:?} got {:?} creator want {:?} got {:?}", case, want_comment, got_c, want_creator, got_r));
            match guarded(|| img.to_bytes()) {
                Ok(b1) => {
                    out.q(&req, &format!("{} {} {}", hx(&b1[..64.min(b1.len())]), b1.len(), fnv(&b1)));
                    // the strings are where the saved header says they are
                    let f = |o: usize| le32(&b1[o..o + 4]);
                    let slice = |off: usize, len: usize| if off + len <= b1.len() { Some(b1[off..off + len].to_vec()) } else { None };
                    let ok = slice(f(32), f(36)) == Some(want_comment.as_bytes().to_vec()) && slice(f(40), f(44)) == Some(want_creator.as_bytes().to_vec())
                        && b1.len() == 64 + data_len + want_comment.len() + want_creator.len() && f(24) == 64 && f(28) == data_len;
                    out.oracle(ok, "saved-offsets-and-lengths", "c09/2mg/foreign/saved-offsets-or-lengths-wrong", &format!("{} saved: data {}@{} comment {}@{} creator {}@{} file {}", case, f(28), f(24), f(36), f(32), f(44), f(40), b1.len()));
                }
                Err(p) => { out.q(&req, "panic"); out.oracle(false, "to_bytes-no-panic", &format!("c09/2mg/foreign/to_bytes-panic:{}", site(&p)), &format!("{} panic={}", case, p)); return; }
            }
            // a fresh object from the same file through the whole oracle
            if let Ok(Ok(j)) = guarded(|| img::dot2mg::Dot2mg::from_bytes(&file)) {
                let mut j: Box<dyn DiskImage> = Box::new(j);
                roundtrip_oracle(out, &mut j, "2mg/foreign", "2mg", false, &[Some("2mg"), None], &case, &[]);
            }
        }
    }
    out.case(case.as_bytes(), true);
    out.sample(&case);
}

// ------------------------------------------------------------------------------------------------
// stream H: the value DOMAIN of every metadata key.  For every key `get_metadata` shows (plus the standard WOZ2 META keys),
// every candidate value is offered to `put_metadata` on a scratch object — one-byte hex items: all 256 values; longer hex
// items: boundary patterns; text items: empty, ASCII, multi-byte, over-long, with TAB / CR / LF; constrained META keys: every
// option of the source's lists and values just outside — so the ACCEPTED domain is what the real code says it is (also sent to
// the Lean key tables: `metaput`).  Then, per key, accepted values that change the item (all of them for small domains, the
// boundaries and a sample otherwise) are each put on a FRESH image with a few written sectors, and the image goes through the
// whole round-trip oracle: after save and reload the SAME disk — kind, geometry, every sector — not just the same bytes.
// Keys whose value IS the description of the geometry (TD0 sides / drive type / data rate) are offered only their own value.

fn domain_candidates(path: &[String], old: &str, rng: &mut Rng) -> Vec<String> {
    let last: Vec<&str> = path.iter().map(|s| s.as_str()).filter(|s| *s != "_raw").collect();
    let is_hex = !old.is_empty() && old.len() % 2 == 0 && old.chars().all(|c| c.is_ascii_hexdigit());
    if last.len() == 3 && last[0] == "woz2" && last[1] == "meta" {
        let mut v: Vec<String> = vec!["".into(), "Title".into(), "two words".into(), "ünï 日本".into(), "tab\tinside".into(), "cr\r".into(), "lf\ninside".into(), "x".repeat(300)];
        match last[2] {
            "language" => v.extend(["English", "French", "Other", "Klingon", "English|French", "english"].iter().map(|s| s.to_string())),
            "requires_ram" => v.extend(["16K", "48K", "1.5M+", "1.25M", "Unknown", "47K", "1.5M", "64k"].iter().map(|s| s.to_string())),
            "requires_rom" => v.extend(["Any", "Integer", "IIgs ROM0+1", "IIgs ROM3", "IIgs ROM2", "any"].iter().map(|s| s.to_string())),
            "requires_machine" => v.extend(["2", "2+", "2e|2c", "2gs|3+", "4", "2e|"].iter().map(|s| s.to_string())),
            "side" => v.extend(["Disk 1, Side A", "Disk 12, Side B", "Disk 1, Side C", "Side A", "Disk , Side A"].iter().map(|s| s.to_string())),
            _ => {}
        }
        return v;
    }
    if is_hex {
        let n = old.len() / 2;
        if n == 1 { return (0..256).map(|b| format!("{:02x}", b)).collect(); }
        let mut v: Vec<String> = vec!["00".repeat(n), "ff".repeat(n), format!("01{}", "00".repeat(n - 1)), format!("{}01", "00".repeat(n - 1)), format!("{}80", "00".repeat(n - 1)), old.to_string(), old.to_uppercase()];
        if n == 2 { v.extend(["ff01", "0002", "0001", "ff00", "0100"].iter().map(|s| s.to_string())); }
        v.push(hex::encode(rng.bytes(n)));
        v.push("0".repeat(2 * n - 1)); v.push("00".repeat(n + 1)); v.push("zz".repeat(n));
        return v;
    }
    vec!["".into(), "x".into(), "Disk 1, Side A".into(), "ünïcödé 日本語".into(), "  padded  ".into(), "two\nlines".into(), "crlf\r\nline".into(), "tab\there".into(),
         "nul\u{0}inside".into(), "eof\u{1a}char".into(), "y".repeat(40), "z".repeat(300), "trailing cr\r".into()]
}

/// keys whose value decides how the bytes are read as a disk: editing them is editing the disk
fn describes_geometry(path: &[String]) -> bool {
    let p: Vec<&str> = path.iter().map(|s| s.as_str()).filter(|s| *s != "_raw").collect();
    matches!(p.as_slice(), ["td0", "header", "sides"] | ["td0", "header", "drive_type"] | ["td0", "header", "data_rate"])
}

fn case_meta_domain(ctx: &mut Ctx, base_idx: usize, cfg: &Cfg, rng: &mut Rng) {
    let label = format!("{}/{}{}", cfg.typ, cfg.kind_name, cfg.wrap.map(|w| format!("+{}", w)).unwrap_or_default());
    let mut scratch = match guarded(|| build(cfg, 254)) { Ok(Ok(i)) => i, _ => return };
    let typ = scratch.what_am_i().to_string();
    let meta0 = scratch.get_metadata(None);
    let mut keys: Vec<(Vec<String>, String)> = leaves(&meta0).into_iter().filter(|(k, _)| k.last().map(|s| s != "_pretty").unwrap_or(false)).collect();
    if typ == "woz2" {
        for k in ["title", "subtitle", "publisher", "developer", "copyright", "version", "language", "requires_ram", "requires_rom", "requires_machine", "apple2_requires", "notes", "side", "side_name", "contributor", "image_date", "custom_key"] {
            let p = vec!["woz2".to_string(), "meta".to_string(), k.to_string()];
            if !keys.iter().any(|(q, _)| *q == p) { keys.push((p, String::new())); }
        }
    }
    let mut ordinal = 0usize;
    for (path, old) in keys {
        let pstr = path.join("/");
        let cands = domain_candidates(&path, &old, rng);
        // phase 1: which values does the real code accept?
        let mut accepted: Vec<String> = Vec::new();
        let modelled = !(path.len() > 1 && path[1] == "meta") && path.iter().all(|k| !k.is_empty() && !k.contains('/') && !k.contains(' ')) && ["td0", "imd", "2mg", "woz1", "woz2"].contains(&typ.as_str());
        for v in &cands {
            let jv = json::JsonValue::String(v.clone());
            let r = guarded(|| scratch.put_metadata(&path, &jv).map_err(|e| e.to_string()));
            if modelled {
                let ans = match &r {
                    Err(_) => "panic".to_string(),
                    Ok(Err(_)) => "refused".to_string(),
                    Ok(Ok(())) => if is_ro(&path) { "skipped".to_string() } else { match lookup(&scratch.get_metadata(None), &path) { Some(g) => format!("ok {}", hx(g.as_bytes())), None => "ok ?".to_string() } }
                };
                ctx.out.q(&format!("c09 metaput {} /{} {}", typ, pstr, hx(v.as_bytes())), &ans);
            }
            match r {
                Err(p) => { ctx.out.oracle(false, "put_metadata-no-panic", &format!("c09/{}/put_metadata/panic:{}", cfg.typ, site(&p)), &format!("H idx={} key=/{} val={:?} panic={}", base_idx, pstr, v, p)); scratch = match guarded(|| build(cfg, 254)) { Ok(Ok(i)) => i, _ => return }; }
                Ok(Ok(())) => { if !is_ro(&path) { accepted.push(v.clone()); } }
                Ok(Err(_)) => {}
            }
        }
        ctx.out.count_n(&format!("domain:{}:{}:accepted", typ, path.iter().filter(|s| *s != "_raw").skip(1).cloned().collect::<Vec<_>>().join(".")), accepted.len() as u64);
        if is_ro(&path) { continue; }
        // phase 2: the accepted values that change the item, each on a fresh image through the whole oracle
        // hex items are shown in lower case whatever the spelling that was put
        let is_hex_item = !old.is_empty() && old.len() % 2 == 0 && old.chars().all(|c| c.is_ascii_hexdigit()) && !(path.len() > 1 && path[1] == "meta");
        let shown = |v: &str| if is_hex_item { normal(&path, v).to_lowercase() } else { normal(&path, v) };
        let mut pick: Vec<String> = accepted.iter().filter(|v| shown(v) != old).cloned().collect();
        if describes_geometry(&path) { pick.clear(); ctx.out.count("domain:geometry-describing-key-skipped"); }
        if pick.len() > 5 {
            let mut sel = vec![pick[0].clone(), pick[1].clone(), pick[2].clone(), pick[pick.len() - 1].clone()];
            for _ in 0..(if ctx.tier_thorough { 12 } else { 1 }) { sel.push(pick[rng.below(pick.len())].clone()); }
            sel.dedup();
            pick = sel;
        }
        for v in pick {
            let idx = base_idx + ordinal;
            ordinal += 1;
            if !ctx.out.wants(idx) { continue; }
            let mut r = rng.fork(idx as u64);
            let mut img = match guarded(|| build(cfg, 254)) { Ok(Ok(i)) => i, _ => return };
            let (_, geo) = geometry(&mut img);
            let wdesc = random_writes(&mut img, cfg.typ, &geo, &mut r, 2, &mut ctx.out, None);
            let jv = json::JsonValue::String(v.clone());
            let case = format!("H idx={} cfg={} writes=[{}] put /{}={:?}", idx, label, wdesc.trim(), pstr, v.chars().take(60).collect::<String>());
            match guarded(|| img.put_metadata(&path, &jv).map_err(|e| e.to_string())) {
                Ok(Ok(())) => {
                    let got = lookup(&img.get_metadata(None), &path);
                    let deleted = v.is_empty() && path.len() > 1 && path[1] == "meta";
                    ctx.out.oracle(got.as_deref() == Some(shown(&v).as_str()) || (deleted && got.as_deref().unwrap_or("") == ""), "metadata-put-then-get",
                        &format!("c09/{}/meta/put-get-differs:{}", cfg.typ, path.iter().filter(|s| *s != "_raw").skip(1).take(2).cloned().collect::<Vec<_>>().join(".")), &format!("{} got={:?}", case, got));
                    let mut hints: Vec<Option<&str>> = vec![Some(ext_of(cfg.typ))];
                    if ctx.tier_thorough && self_identifying(cfg.typ) { hints.push(None); }
                    roundtrip_oracle(&mut ctx.out, &mut img, &format!("{}/meta-domain", label), cfg.typ, records_kind(cfg), &hints, &case, &[]);
                }
                _ => ctx.out.oracle(false, "domain-stable", &format!("c09/{}/meta/acceptance-depends-on-history", cfg.typ), &case),
            }
            ctx.out.case(case.as_bytes(), true);
        }
    }
}

/// last line of defence: a panic that escaped the per-call guards of a case (real code reached through an unguarded
/// call, or a slip of the harness itself) becomes a failing verdict with a replayable index instead of killing the run
fn escaped(ctx: &mut Ctx, stream: &str, idx: usize, p: &str) {
    ctx.out.oracle(false, "case-completes", &format!("c09/case-panic:{}", site(p)), &format!("{} idx={} panic={}", stream, idx, p));
}

pub fn run(ctx: &mut Ctx) {
    let mut rng = Rng::new(ctx.seed);
    let cfgs = configs();
    let thorough = ctx.tier_thorough;
    // stream A: quick = every configuration once (light), thorough = 6 rounds, heavier write load
    let rounds = ctx.n(1, 6);
    for round in 0..rounds {
        for (ci, cfg) in cfgs.iter().enumerate() {
            let idx = round * cfgs.len() + ci;
            let mut r = rng.fork(idx as u64);
            if !ctx.out.wants(idx) { continue; }
            // the 32 MB configurations are exercised in every round but only lightly
            if let Err(p) = guarded(|| case_created(ctx, idx, cfg, &mut r, thorough || cfg.kind_name != "A2_HD_MAX")) { escaped(ctx, "A", idx, &p); }
        }
    }
    let nb = ctx.n(400, 6000);
    for i in 0..nb {
        let idx = 10000 + i;
        let mut r = rng.fork(idx as u64);
        if !ctx.out.wants(idx) { continue; }
        if let Err(p) = guarded(|| case_codec(ctx, idx, &mut r)) { escaped(ctx, "B", idx, &p); }
    }
    let nc = ctx.n(8, 80);
    for i in 0..nc {
        let idx = 20000 + i;
        let mut r = rng.fork(idx as u64);
        if !ctx.out.wants(idx) { continue; }
        if let Err(p) = guarded(|| case_loaded(ctx, idx, &mut r)) { escaped(ctx, "C", idx, &p); }
    }
    for i in 0..ctx.n(11, 66) {
        let idx = 40000 + i;
        let mut r = rng.fork(idx as u64);
        if !ctx.out.wants(idx) { continue; }
        if let Err(p) = guarded(|| case_directed(ctx, idx, &mut r)) { escaped(ctx, "E", idx, &p); }
    }
    for i in 0..ctx.n(120, 2400) {
        let idx = 50000 + i;
        let mut r = rng.fork(idx as u64);
        if !ctx.out.wants(idx) { continue; }
        let res = guarded(|| if i % 3 == 0 { super::c08::mix::imd_case(ctx, "c09", idx, &mut r, true) } else { super::c08::mix::td0_case(ctx, "c09", idx, &mut r, true) });
        if let Err(p) = res { escaped(ctx, "F", idx, &p); }
    }
    let fix_len = probe_2mg_fixes_header_len();
    ctx.out.count(if fix_len { "probe:2mg-header-len-reset-on-save" } else { "probe:2mg-header-len-kept-on-save" });
    for i in 0..ctx.n(36, 600) {
        let idx = 60000 + i;
        let mut r = rng.fork(idx as u64);
        if !ctx.out.wants(idx) { continue; }
        if let Err(p) = guarded(|| case_foreign_2mg(ctx, idx, &mut r, fix_len)) { escaped(ctx, "G", idx, &p); }
    }
    {
        let dom: Vec<(&str, &str)> = if ctx.tier_thorough {
            vec![("woz1", "A2_DOS33"), ("woz1", "A2_DOS32"), ("woz2", "A2_DOS33"), ("woz2", "A2_DOS32"), ("woz2", "A2_400"), ("woz2", "A2_800"), ("2mg", "A2_DOS33"), ("2mg", "A2_800"), ("imd", "OSBORNE1_SD"), ("imd", "IBM_SSDD_9"), ("td0", "OSBORNE1_SD"), ("td0", "IBM_SSDD_9")]
        } else {
            vec![("woz1", "A2_DOS33"), ("woz1", "A2_DOS32"), ("woz2", "A2_DOS33"), ("woz2", "A2_DOS32"), ("2mg", "A2_DOS33"), ("imd", "OSBORNE1_SD"), ("td0", "OSBORNE1_SD")]
        };
        for (ci, (t, k)) in dom.iter().enumerate() {
            let base_idx = 70000 + ci * 1000;
            let mut r = rng.fork(base_idx as u64);
            if let Some(k) = ctx.out.only { if k < base_idx || k >= base_idx + 1000 { continue; } }
            if let Some(cfg) = cfgs.iter().find(|c| c.typ == *t && c.kind_name == *k) {
                let cfg = cfg.clone();
                if let Err(p) = guarded(|| case_meta_domain(ctx, base_idx, &cfg, &mut r)) { escaped(ctx, "H", base_idx, &p); }
            }
        }
    }
    for i in 0..ctx.n(2, 9) {
        let idx = 30000 + i;
        let mut r = rng.fork(idx as u64);
        if !ctx.out.wants(idx) { continue; }
        if let Err(p) = guarded(|| case_item27(ctx, idx, &mut r)) { escaped(ctx, "D", idx, &p); }
    }
}
