//! harness family c11: "a failed or read-only command never changes the image file".
//!
//! Black-box observation of the REAL `a2kit` binary, built from the working tree ($A2KIT_REPO,
//! default /repo) into `<cwd>/c11-target` (cwd = /verif/work/C11 under bin/check).
//! For every case: an image of one of several (file system, container) kinds in a generated state
//! (empty / a few files / full disk / full directory) is copied to a scratch path, one subcommand
//! vector is run on it, and exit status + SHA-256 of the image file before/after are observed.
//!   oracle `failed-unchanged` : exit status != 0  =>  bytes identical
//!   oracle `readonly-unchanged`: read-only subcommand =>  bytes identical (whatever the status)
//!   oracle `mkdsk-no-file`    : failing mkdsk creates no file
//!   Q `c11 admits …`          : the observed (exit class, file written? = bytes changed or mtime moved) is a possible outcome of the
//!                               generated control skeleton under the scenario the vector was built for
//!   Q `c11 props <cmd>`       : skeleton classification vs. the harness's own table
use crate::util::*;
use a2kit::fs::DiskFS;
use std::path::{Path, PathBuf};
use std::process::{Command, Stdio};
use std::io::Write;

// ---- SHA-256 (the crate has no hash dependency) -------------------------------------------------
const K256: [u32; 64] = [
    0x428a2f98, 0x71374491, 0xb5c0fbcf, 0xe9b5dba5, 0x3956c25b, 0x59f111f1, 0x923f82a4, 0xab1c5ed5, 0xd807aa98, 0x12835b01,
    0x243185be, 0x550c7dc3, 0x72be5d74, 0x80deb1fe, 0x9bdc06a7, 0xc19bf174, 0xe49b69c1, 0xefbe4786, 0x0fc19dc6, 0x240ca1cc,
    0x2de92c6f, 0x4a7484aa, 0x5cb0a9dc, 0x76f988da, 0x983e5152, 0xa831c66d, 0xb00327c8, 0xbf597fc7, 0xc6e00bf3, 0xd5a79147,
    0x06ca6351, 0x14292967, 0x27b70a85, 0x2e1b2138, 0x4d2c6dfc, 0x53380d13, 0x650a7354, 0x766a0abb, 0x81c2c92e, 0x92722c85,
    0xa2bfe8a1, 0xa81a664b, 0xc24b8b70, 0xc76c51a3, 0xd192e819, 0xd6990624, 0xf40e3585, 0x106aa070, 0x19a4c116, 0x1e376c08,
    0x2748774c, 0x34b0bcb5, 0x391c0cb3, 0x4ed8aa4a, 0x5b9cca4f, 0x682e6ff3, 0x748f82ee, 0x78a5636f, 0x84c87814, 0x8cc70208,
    0x90befffa, 0xa4506ceb, 0xbef9a3f7, 0xc67178f2];

pub fn sha256(data: &[u8]) -> String {
    let mut h: [u32; 8] = [0x6a09e667, 0xbb67ae85, 0x3c6ef372, 0xa54ff53a, 0x510e527f, 0x9b05688c, 0x1f83d9ab, 0x5be0cd19];
    let mut msg = data.to_vec();
    let bitlen = (data.len() as u64).wrapping_mul(8);
    msg.push(0x80);
    while msg.len() % 64 != 56 { msg.push(0); }
    msg.extend_from_slice(&bitlen.to_be_bytes());
    for chunk in msg.chunks(64) {
        let mut w = [0u32; 64];
        for i in 0..16 { w[i] = u32::from_be_bytes([chunk[4 * i], chunk[4 * i + 1], chunk[4 * i + 2], chunk[4 * i + 3]]); }
        for i in 16..64 {
            let s0 = w[i - 15].rotate_right(7) ^ w[i - 15].rotate_right(18) ^ (w[i - 15] >> 3);
            let s1 = w[i - 2].rotate_right(17) ^ w[i - 2].rotate_right(19) ^ (w[i - 2] >> 10);
            w[i] = w[i - 16].wrapping_add(s0).wrapping_add(w[i - 7]).wrapping_add(s1);
        }
        let (mut a, mut b, mut c, mut d, mut e, mut f, mut g, mut hh) = (h[0], h[1], h[2], h[3], h[4], h[5], h[6], h[7]);
        for i in 0..64 {
            let s1 = e.rotate_right(6) ^ e.rotate_right(11) ^ e.rotate_right(25);
            let ch = (e & f) ^ (!e & g);
            let t1 = hh.wrapping_add(s1).wrapping_add(ch).wrapping_add(K256[i]).wrapping_add(w[i]);
            let s0 = a.rotate_right(2) ^ a.rotate_right(13) ^ a.rotate_right(22);
            let maj = (a & b) ^ (a & c) ^ (b & c);
            let t2 = s0.wrapping_add(maj);
            hh = g; g = f; f = e; e = d.wrapping_add(t1); d = c; c = b; b = a; a = t1.wrapping_add(t2);
        }
        for (x, y) in h.iter_mut().zip([a, b, c, d, e, f, g, hh]) { *x = x.wrapping_add(y); }
    }
    h.iter().map(|x| format!("{:08x}", x)).collect()
}

// ---- image kinds ---------------------------------------------------------------------------------
pub struct Kind { pub name: &'static str, pub ext: &'static str, pub mk: &'static [&'static str], pub hier: bool, pub track: bool }
pub const KINDS: [Kind; 11] = [
    Kind { name: "dos33-do", ext: "do", mk: &["-o", "dos33", "-v", "254", "-t", "do"], hier: false, track: false },
    Kind { name: "dos33-woz2", ext: "woz", mk: &["-o", "dos33", "-v", "254", "-t", "woz2"], hier: false, track: true },
    Kind { name: "dos32-d13", ext: "d13", mk: &["-o", "dos32", "-v", "254", "-t", "d13"], hier: false, track: false },
    Kind { name: "prodos-po", ext: "po", mk: &["-o", "prodos", "-v", "new.disk", "-t", "po"], hier: true, track: false },
    Kind { name: "prodos-woz2", ext: "woz", mk: &["-o", "prodos", "-v", "new.disk", "-t", "woz2"], hier: true, track: true },
    Kind { name: "pascal-do", ext: "do", mk: &["-o", "pascal", "-v", "blank", "-t", "do"], hier: false, track: false },
    Kind { name: "cpm2-do", ext: "do", mk: &["-o", "cpm2", "-t", "do"], hier: false, track: false },
    Kind { name: "cpm3-td0", ext: "td0", mk: &["-o", "cpm3", "-v", "lbl", "-t", "td0", "-k", "5.25in-kayii"], hier: false, track: false },
    Kind { name: "fat-img", ext: "img", mk: &["-o", "fat", "-t", "img", "-k", "5.25in-ibm-dsdd9"], hier: true, track: false },
    Kind { name: "fat-imd", ext: "imd", mk: &["-o", "fat", "-t", "imd", "-k", "5.25in-ibm-ssdd9"], hier: true, track: false },
    Kind { name: "dos33-nib", ext: "nib", mk: &["-o", "dos33", "-v", "254", "-t", "nib"], hier: false, track: true },
];
pub const STATES: [&str; 4] = ["empty", "few", "fulldisk", "fulldir"];

pub struct Run { pub code: i32, pub class: &'static str, pub stdout: Vec<u8> }

pub struct Env { pub bin: PathBuf, pub tmp: PathBuf, pub spawned: u64 }

impl Env {
    /// run the real binary; stdin is always a pipe (never a tty), stdout goes to a file
    pub fn run(&mut self, args: &[String], stdin: &[u8]) -> Run {
        self.spawned += 1;
        let outp = self.tmp.join("stdout.bin");
        let outf = std::fs::File::create(&outp).expect("stdout file");
        let mut child = Command::new(&self.bin).args(args).current_dir(&self.tmp)
            .env("RUST_LOG", "off").env("RUST_BACKTRACE", "0")
            .stdin(Stdio::piped()).stdout(Stdio::from(outf)).stderr(Stdio::null())
            .spawn().expect("spawn a2kit");
        let mut si = child.stdin.take().unwrap();
        let data = stdin.to_vec();
        let th = std::thread::spawn(move || { let _ = si.write_all(&data); });
        let t0 = std::time::Instant::now();
        let status = loop {
            match child.try_wait() {
                Ok(Some(st)) => break Some(st),
                Ok(None) => {
                    if t0.elapsed().as_secs() > 60 { let _ = child.kill(); let _ = child.wait(); break None; }
                    std::thread::sleep(std::time::Duration::from_micros(500));
                }
                Err(_) => break None,
            }
        };
        let _ = th.join();
        let stdout = std::fs::read(&outp).unwrap_or_default();
        match status {
            None => Run { code: -2, class: "timeout", stdout },
            Some(st) => match st.code() {
                Some(0) => Run { code: 0, class: "ok", stdout },
                Some(101) => Run { code: 101, class: "panic", stdout },
                Some(2) => Run { code: 2, class: "usage", stdout },
                Some(c) => Run { code: c, class: "err", stdout },
                None => Run { code: -1, class: "signal", stdout },
            },
        }
    }
}

/// build the a2kit binary from the working tree
pub fn build_binary() -> PathBuf {
    let repo = std::env::var("A2KIT_REPO").unwrap_or("/repo".to_string());
    let cwd = std::env::current_dir().expect("cwd");
    let target = match std::env::var("C11_TARGET_DIR") { Ok(t) => PathBuf::from(t), Err(_) => cwd.join("c11-target") };
    let out = Command::new("cargo").args(["build", "--offline", "--bin", "a2kit"]).current_dir(&repo)
        .env("CARGO_TARGET_DIR", &target).env_remove("LD_PRELOAD").env_remove("RUSTFLAGS")
        .stdout(Stdio::piped()).stderr(Stdio::piped()).output().expect("run cargo");
    if !out.status.success() {
        eprintln!("c11: cannot build the a2kit binary from {}:\n{}", repo, String::from_utf8_lossy(&out.stderr).lines().rev().take(20).collect::<Vec<_>>().join("\n"));
        std::process::exit(3);
    }
    target.join("debug").join("a2kit")
}

fn s(x: &str) -> String { x.to_string() }
fn sv(xs: &[&str]) -> Vec<String> { xs.iter().map(|x| x.to_string()).collect() }

/// put files in-process until one fails; returns the names that were stored (the image file is
/// written only with the state after the successful puts)
fn fill(path: &str, prefix: &str, size: usize, max: usize, rng: &mut Rng) -> Vec<String> {
    let datas: Vec<Vec<u8>> = (0..max).map(|_| rng.bytes(size)).collect();
    let attempt = |limit: usize, save: bool| -> usize {
        let r = guarded(|| {
            let mut disk = match a2kit::create_fs_from_file(path) { Ok(d) => d, Err(_) => return 0 };
            let mut n = 0;
            for i in 0..limit {
                let name = format!("{}{}", prefix, i);
                let ok = (|| -> Result<(), Box<dyn std::error::Error>> {
                    let mut f = disk.new_fimg(None, true, &name)?;
                    f.pack_raw(&datas[i])?;
                    disk.put(&f)?;
                    Ok(())
                })().is_ok();
                if !ok { break; }
                n += 1;
            }
            if save && n == limit { let _ = a2kit::save_img(&mut disk, path); }
            n
        });
        r.unwrap_or(usize::MAX)
    };
    // pass 1: how many succeed (a panic inside put counts as failure of that put: binary search down)
    let mut m = attempt(max, false);
    if m == usize::MAX {
        // some put panics: find the largest prefix that does not
        m = 0;
        for lim in 1..=max { let k = attempt(lim, false); if k == usize::MAX || k < lim { break; } m = lim; }
    }
    if m > 0 { let k = attempt(m, true); if k != m { return vec![]; } }
    (0..m).map(|i| format!("{}{}", prefix, i)).collect()
}

pub struct Base { pub path: PathBuf, pub files: Vec<String>, pub dirs: Vec<String>, pub cap: usize }

/// create the base image for (kind, state) once per run
pub fn make_base(env: &mut Env, ki: usize, st: usize, rng: &mut Rng) -> Option<Base> {
    let kind = &KINDS[ki];
    let path = env.tmp.join(format!("base-{}-{}.{}", kind.name, STATES[st], kind.ext));
    let p = path.to_string_lossy().to_string();
    let _ = std::fs::remove_file(&path);
    let mut args = vec![s("mkdsk")];
    args.extend(kind.mk.iter().map(|x| x.to_string()));
    args.extend([s("-d"), p.clone()]);
    let r = env.run(&args, b"");
    if r.code != 0 || !path.exists() { return None; }
    let cap = std::fs::metadata(&path).map(|m| m.len() as usize).unwrap_or(143360).max(100000).min(400000);
    let mut files = vec![];
    let mut dirs = vec![];
    match st {
        0 => {},
        1 => {
            files = fill(&p, "F", 300 + rng.below(3000), 3, rng);
            if kind.hier {
                let r = env.run(&sv(&["mkdir", "-f", "D1", "-d", &p]), b"");
                if r.code == 0 { dirs.push(s("D1")); }
            }
            let r = env.run(&sv(&["put", "-f", "T1", "-t", "txt", "-d", &p]), b"HELLO WORLD\n");
            if r.code == 0 { files.push(s("T1")); }
        },
        2 => {
            files = fill(&p, "BIG", cap / 7, 12, rng);
            let mut more = fill(&p, "MID", cap / 40, 12, rng);
            files.append(&mut more);
        },
        _ => {
            files = fill(&p, "E", 1 + rng.below(40), 320, rng);
        }
    }
    Some(Base { path, files, dirs, cap })
}

// ---- in-process peeks at the case image (read only; never saved) -----------------------------------
fn fimg_json(img: &str, name: &str, data: &[u8]) -> Option<String> {
    guarded(|| {
        let disk = a2kit::create_fs_from_file(img).ok()?;
        let mut f = disk.new_fimg(None, true, name).ok()?;
        f.pack_raw(data).ok()?;
        Some(f.to_json(None))
    }).ok().flatten()
}
fn block_len(img: &str, b: usize) -> Option<usize> {
    guarded(|| { let mut disk = a2kit::create_fs_from_file(img).ok()?; disk.read_block(&b.to_string()).ok().map(|v| v.len()) }).ok().flatten()
}
fn sector_len(img: &str, c: usize, h: usize, sec: usize) -> Option<usize> {
    guarded(|| { let mut im = a2kit::create_img_from_file(img).ok()?; im.read_sector(c, h, sec).ok().map(|v| v.len()) }).ok().flatten()
}

pub struct Case {
    pub cmd: &'static str,
    pub class: String,
    pub args: Vec<String>,
    pub stdin: Vec<u8>,
    pub readonly: bool,
    /// designed failure scenario: (categories, iteration, loop count); None = no failure designed
    pub scen: Option<(&'static str, Option<usize>, usize)>,
    pub n: usize,
    pub post_load: bool,
    /// for mkdsk onto a new path: the path that must not exist after a failure
    pub fresh: Option<PathBuf>,
}

fn case(cmd: &'static str, class: &str, args: Vec<String>, stdin: Vec<u8>, readonly: bool) -> Case {
    Case { cmd, class: class.to_string(), args, stdin, readonly, scen: None, n: 1, post_load: false, fresh: None }
}

const RO_CMDS: [&str; 7] = ["catalog", "tree", "stat", "geometry", "glob", "get", "mget"];
const W_CMDS: [&str; 11] = ["mkdsk", "mkdir", "delete", "protect", "unprotect", "lock", "unlock", "rename", "retype", "put", "mput"];

fn gen_case(env: &mut Env, rng: &mut Rng, ki: usize, st: usize, base: &Base, img: &str) -> Case {
    let kind = &KINDS[ki];
    let have = !base.files.is_empty();
    let exist = if have { rng.pick(&base.files).clone() } else { s("F0") };
    let absent = s("NOPE");
    let newn = format!("NEW{}", rng.below(9));
    let d = |x: &str| -> Vec<String> { let mut v: Vec<String> = x.split(' ').filter(|t| !t.is_empty()).map(|t| t.to_string()).collect(); v.push(s("-d")); v.push(img.to_string()); v };
    let which = rng.below(100);
    match which {
        // ------------------------------------------------ read-only commands
        0..=5 => {
            let alias = *rng.pick(&["catalog", "dir", "ls", "cat"]);
            let mut a = d(alias);
            let mut class = s("valid");
            if rng.chance(40) { a.push(s("--generic")); }
            if rng.chance(30) { a.push(s("-f")); if rng.chance(50) { a.push(s("/")); } else { a.push(absent.clone()); class = s("unknown-path"); } }
            let mut c = case("catalog", &class, a, vec![], true); c.post_load = true; c
        },
        6..=9 => {
            let (cmd, mut a): (&'static str, Vec<String>) = match rng.below(4) { 0 => ("tree", d("tree")), 1 => ("stat", d("stat")), 2 => ("geometry", d("geometry")), _ => ("tree", d("tree --meta")) };
            if rng.chance(30) { a.push(s("--indent")); a.push(s("2")); }
            let mut c = case(cmd, "valid", a, vec![], true); c.post_load = true; c
        },
        10..=12 => {
            let pat = *rng.pick(&["*", "F*", "**", "[", "*.TXT", "?1"]);
            let mut a = d("glob"); a.push(s("-f")); a.push(s(pat));
            let mut c = case("glob", if pat == "[" { "bad-pattern" } else { "valid" }, a, vec![], true); c.post_load = true; c
        },
        13..=19 => {
            let t = *rng.pick(&["raw", "bin", "txt", "any", "auto", "rec", "atok", "itok", "mtok"]);
            let miss = rng.chance(30);
            let mut a = d("get"); a.extend([s("-t"), s(t), s("-f"), if miss { absent.clone() } else { exist.clone() }]);
            let mut class = if miss || !have { s("unknown-path") } else { s("valid") };
            if rng.chance(15) { a.push(s("--trunc")); if t != "raw" { class = s("bad-args"); } }
            if rng.chance(10) { a.extend([s("-l"), s(*rng.pick(&["32", "x"]))]); }
            let mut c = case("get", &class, a, vec![], true); c.post_load = true;
            if miss { c.scen = Some(("3", None, 1)); }
            c
        },
        20..=23 => {
            let spec = *rng.pick(&["0", "1..4", "5,,7..9", "99999", "x", "3..2", "1,2"]);
            let mut a = d("get -t block"); a.extend([s("-f"), s(spec)]);
            let mut c = case("get", "block", a, vec![], true); c.post_load = true; c.n = 3; c
        },
        24..=28 => {
            let (t, spec) = match rng.below(8) {
                0 => ("sec", "0,0,0"), 1 => ("sec", "1,0,1..4"), 2 => ("sec", "99,0,0"), 3 => ("sec", "a,b"),
                4 => ("track", "1,0"), 5 => ("raw_track", "1,0"), 6 => ("raw_track", "1"), _ => ("meta", ""),
            };
            let mut a = d("get"); a.extend([s("-t"), s(t)]);
            if !spec.is_empty() { a.extend([s("-f"), s(spec)]); } else if rng.chance(50) { a.extend([s("-f"), s(*rng.pick(&["/woz2/info/", "/woz2/", "nokey", "/nokey/"]))]); }
            let mut c = case("get", t, a, vec![], true); c.post_load = true; c.n = 3; c
        },
        29..=34 => {
            // mget: list of names, the k-th one absent / not a string; or malformed JSON
            let n = rng.range(1, 5);
            let mode = rng.below(5);
            let k = rng.below(n);
            let mut arr = json::JsonValue::new_array();
            for i in 0..n {
                let nm = if have { base.files[(i + rng.below(3)) % base.files.len()].clone() } else { format!("F{}", i) };
                if i == k && mode == 1 { let _ = arr.push(absent.clone()); }
                else if i == k && mode == 2 { let _ = arr.push(42); }
                else { let _ = arr.push(nm); }
            }
            let mut text = arr.dump().into_bytes();
            let class = match mode { 1 => format!("failed-item-{}-of-{}", k + 1, n), 2 => format!("nonstring-item-{}-of-{}", k + 1, n), 3 => { text.truncate(text.len() / 2); s("malformed-stdin") }, 4 => { text = b"{\"a\":1}".to_vec(); s("malformed-stdin") }, _ => s("valid") };
            let mut c = case("mget", &class, d("mget"), text, true);
            c.n = n; c.post_load = mode <= 2;
            if mode == 1 || !have { c.scen = Some(("3", if have { Some(k) } else { Some(0) }, n)); }
            c
        },
        // ------------------------------------------------ writers
        35..=39 => {
            let alias = *rng.pick(&["delete", "del", "era"]);
            let miss = rng.chance(50) || !have;
            let mut a = d(alias); a.extend([s("-f"), if miss { absent.clone() } else { exist.clone() }]);
            let mut c = case("delete", if miss { "unknown-path" } else { "valid" }, a, vec![], false); c.post_load = true;
            if miss { c.scen = Some(("2", None, 1)); }
            c
        },
        40..=44 => {
            let mode = rng.below(3);
            let (from, to) = match mode { 0 => (exist.clone(), newn.clone()), 1 => (absent.clone(), newn.clone()), _ => (exist.clone(), if base.files.len() > 1 { base.files[0].clone() } else { exist.clone() }) };
            let mut a = d("rename"); a.extend([s("-f"), from, s("-n"), to]);
            let mut c = case("rename", match mode { 0 => "valid", 1 => "unknown-path", _ => "name-exists" }, a, vec![], false); c.post_load = true;
            if mode != 0 || !have { c.scen = Some(("2", None, 1)); }
            c
        },
        45..=48 => {
            let cmd: &'static str = if rng.chance(50) { "lock" } else { "unlock" };
            let miss = rng.chance(40) || !have;
            let mut a = d(cmd); a.extend([s("-f"), if miss { absent.clone() } else { exist.clone() }]);
            let mut c = case(cmd, if miss { "unknown-path" } else { "valid" }, a, vec![], false); c.post_load = true;
            if miss { c.scen = Some(("2", None, 1)); }
            c
        },
        49..=52 => {
            let mode = rng.below(3);
            let mut a = d("retype"); a.extend([s("-f"), if mode == 1 || !have { absent.clone() } else { exist.clone() }, s("-t"), s(if mode == 2 { "zzz?" } else { *rng.pick(&["bin", "txt", "0x06", "4"]) }), s("-a"), s(*rng.pick(&["0", "768", "x"]))]);
            let mut c = case("retype", match mode { 0 => "valid", 1 => "unknown-path", _ => "bad-type" }, a, vec![], false); c.post_load = true;
            if mode != 0 || !have { c.scen = Some(("2", None, 1)); }
            c
        },
        53..=56 => {
            let mode = rng.below(3);
            let target = match mode { 0 => s("NEWDIR"), 1 => if have { exist.clone() } else { s("NEWDIR") }, _ => s("A/B/C/D") };
            let mut a = d("mkdir"); a.extend([s("-f"), target]);
            let class = if !kind.hier { "flat-fs" } else { match mode { 0 => "valid", 1 => "name-exists", _ => "unknown-path" } };
            let mut c = case("mkdir", class, a, vec![], false); c.post_load = true;
            if !kind.hier || mode != 0 { c.scen = Some(("2", None, 1)); }
            c
        },
        57..=59 => {
            let (cmd, mut a): (&'static str, Vec<String>) = if rng.chance(50) { ("protect", d("protect -p secret --read --write")) } else { ("unprotect", d("unprotect")) };
            a.extend([s("-f"), if rng.chance(50) { exist.clone() } else { absent.clone() }]);
            let mut c = case(cmd, "any", a, vec![], false); c.post_load = true; c.scen = Some(("2", None, 1)); c
        },
        60..=69 => {
            // put a file
            let t = *rng.pick(&["bin", "raw", "txt", "rec", "atok", "any"]);
            let mode = rng.below(7);
            let big = st == 2 || mode == 5;
            let size = if big { base.cap / 3 } else { 1 + rng.below(2000) };
            let mut data = if t == "txt" { (0..size).map(|i| if i % 40 == 39 { b'\n' } else { b'A' + (i % 26) as u8 }).collect::<Vec<u8>>() } else { rng.bytes(size) };
            let name = if mode == 1 && have { exist.clone() } else { newn.clone() };
            let mut class = s(if mode == 1 && have { "name-exists" } else if big { "disk-full" } else if st == 3 { "directory-full" } else { "valid" });
            let mut scen: Option<(&'static str, Option<usize>, usize)> = if class != "valid" { Some(("2", None, 1)) } else { None };
            if t == "any" {
                let js = fimg_json(img, &name, &data).unwrap_or(s("{}"));
                data = js.clone().into_bytes();
                match mode {
                    2 => { data.truncate(data.len() / 2); class = s("malformed-stdin"); scen = Some(("0", None, 1)); },
                    3 => { data = js.replacen("\":\"", "\":\"ZZ", 2).into_bytes(); class = s("malformed-stdin-hex"); scen = Some(("0,2", None, 1)); },
                    4 => { data = js.replace("\"file_system\":\"", "\"file_system\":\"x").into_bytes(); class = s("wrong-fs"); scen = Some(("0,2", None, 1)); },
                    _ => {}
                }
            } else if t == "rec" {
                data = match mode { 2 => b"{\"fimg".to_vec(), _ => b"{\"a2kit_type\":\"rec\",\"record_length\":16,\"records\":{\"0\":[\"A\"],\"2\":[\"B\"]}}".to_vec() };
                if mode == 2 { class = s("malformed-stdin"); scen = Some(("0", None, 1)); }
            } else if t == "txt" && mode == 2 {
                data = vec![0xff, 0xfe, 0x80, 0x81]; class = s("malformed-stdin-utf8"); scen = Some(("0", None, 1));
            } else if mode == 3 && t == "bin" {
                data = vec![]; class = s("empty-stdin"); scen = None;
            }
            let mut a = d("put"); a.extend([s("-t"), s(t), s("-f"), name]);
            if t == "bin" || rng.chance(20) { a.extend([s("-a"), s(if mode == 6 { "xyz" } else { "768" })]); if mode == 6 { class = s("bad-args"); scen = Some(("0", None, 1)); } }
            let mut c = case("put", &class, a, data, false);
            c.post_load = class != "bad-args" && class != "empty-stdin"; c.scen = scen; c
        },
        70..=75 => {
            // put block(s)
            let bl = block_len(img, 5).unwrap_or(512);
            let mode = rng.below(7);
            let (spec, nblk, datalen): (String, usize, usize) = match mode {
                0 => (s("5"), 1, bl), 1 => (s("5"), 1, bl / 2), 2 => (s("5..8"), 3, 3 * bl), 3 => (s("5..8"), 3, 3 * bl - 7),
                4 => (s("99999"), 1, bl), 5 => (s("5..700"), 695, 695 * bl), _ => (s("5,,x"), 1, bl),
            };
            let mut a = d("put -t block"); a.extend([s("-f"), spec]);
            let class = match mode { 0 | 2 => "valid", 1 => "short-buffer", 3 => "buffer-mismatch", 4 => "out-of-range", 5 => format!("range-runs-off-end").leak() as &str, _ => "bad-args" };
            let mut c = case("put", &format!("block/{}", class), a, rng.bytes(datalen), false);
            c.n = nblk.min(6); c.post_load = mode != 6;
            if mode == 4 { c.scen = Some(("2,3", None, c.n)); }
            c
        },
        76..=81 => {
            // put sector(s) / raw track / track
            let sl = sector_len(img, 1, 0, 1).unwrap_or(256);
            let mode = rng.below(10);
            let (t, spec, datalen): (&str, &str, usize) = match mode {
                0 => ("sec", "1,0,1", sl), 1 => ("sec", "1,0,1..4", 3 * sl), 2 => ("sec", "1,0,1..4", 3 * sl + 5), 3 => ("sec", "1,0,77", sl),
                4 => ("sec", "99,0,1", sl), 5 => ("sec", "1,0", sl), 6 => ("sec", "1,0,7..40", 33 * sl), 7 => ("track", "1,0", 100),
                8 => ("raw_track", "1,0", 0), _ => ("raw_track", "1,0,3", 100),
            };
            let mut data = rng.bytes(datalen);
            let mut class = s(match mode { 0 | 1 => "valid", 2 => "buffer-mismatch", 3 | 4 => "out-of-range", 5 | 9 => "bad-args", 6 => "range-runs-off-end", 7 => "unsupported", _ => "valid" });
            if mode == 8 {
                let r = env.run(&{ let mut g = d("get -t raw_track -f 2,0"); g.truncate(g.len()); g }, b"");
                if r.code == 0 && !r.stdout.is_empty() { data = r.stdout; if rng.chance(40) { data.truncate(data.len() / 2); class = s("short-buffer"); } } else { data = rng.bytes(6656); class = s("no-tracks"); }
            }
            let mut a = d("put"); a.extend([s("-t"), s(t), s("-f"), s(spec)]);
            let mut c = case("put", &format!("{}/{}", t, class), a, data, false);
            c.n = 3; c.post_load = true;
            if mode == 3 || mode == 4 { c.scen = Some(("2,3", None, 1)); }
            c
        },
        82..=85 => {
            // put metadata
            let r = env.run(&d("get -t meta"), b"");
            let valid = if r.code == 0 { String::from_utf8_lossy(&r.stdout).to_string() } else { s("{}") };
            let mode = rng.below(7);
            let mut a = d("put -t meta");
            let mut class = s("valid");
            let data: Vec<u8> = match mode {
                0 => valid.clone().into_bytes(),
                1 => { a.extend([s("-f"), s("/woz2/info/")]); valid.clone().into_bytes() },
                2 => { a.extend([s("-f"), s("woz2/info")]); class = s("bad-selection"); valid.clone().into_bytes() },
                3 => { class = s("malformed-stdin"); valid[..valid.len() / 2].as_bytes().to_vec() },
                4 => { class = s("pretty-without-raw"); b"{\"woz2\":{\"info\":{\"disk_type\":{\"_pretty\":\"x\"}}}}".to_vec() },
                5 => {
                    // valid keys first, then a key the image must refuse: failure on the n-th item
                    class = s("failed-item-last");
                    match json::parse(&valid) {
                        Ok(mut v) => {
                            let mut done = false;
                            for (_k, top) in v.entries_mut() { if top.is_object() && !done { let _ = top.insert("zzz_bogus", json::object! { "_raw": "zz" }); done = true; } }
                            v.dump().into_bytes()
                        },
                        Err(_) => b"{\"zzz\":{\"_raw\":\"00\"}}".to_vec(),
                    }
                },
                _ => { class = s("malformed-stdin-utf8"); vec![0xff, 0x00, 0x7b] },
            };
            let mut c = case("put", &format!("meta/{}", class), a, data, false);
            c.n = 4; c.post_load = true;
            if mode == 3 || mode == 6 { c.scen = Some(("0", None, c.n)); }
            c
        },
        86..=94 => {
            // mput: batch of n file images, the k-th fails
            let n = rng.range(1, 5);
            let mode = rng.below(6);      // 0 all good; 1 duplicate name; 2 broken object; 3 number; 4 too large; 5 malformed JSON
            let k = rng.below(n);
            let mut arr = json::JsonValue::new_array();
            for i in 0..n {
                let nm = format!("M{}X{}", i, rng.below(99));
                let sz = if i == k && mode == 4 { base.cap / 2 } else if st == 2 { 8000 } else { 1 + rng.below(1500) };
                let data = rng.bytes(sz);
                let js = if i == k && mode == 1 && have { fimg_json(img, &exist, &data) } else { fimg_json(img, &nm, &data) };
                let v = match js { Some(t) => json::parse(&t).unwrap_or(json::JsonValue::Null), None => json::JsonValue::Null };
                if i == k && mode == 2 { let mut o = v.clone(); o.remove("chunks"); o.remove("fimg_version"); let _ = arr.push(o); }
                else if i == k && mode == 3 { let _ = arr.push(7); }
                else { let _ = arr.push(v); }
            }
            let mut text = arr.dump().into_bytes();
            let designed = (mode >= 1 && mode <= 4) && !(mode == 1 && !have);
            let mut class = if designed { format!("failed-item-{}-of-{}", k + 1, n) } else { s("valid") };
            if mode == 5 { text.truncate(text.len() * 2 / 3); class = s("malformed-stdin"); }
            if st == 2 && !designed && mode != 5 { class = s("disk-full"); }
            if st == 3 && !designed && mode != 5 { class = s("directory-full"); }
            let mut a = d("mput");
            if rng.chance(15) { a.extend([s("-f"), s(if kind.hier { "/" } else { "0:" })]); }
            let mut c = case("mput", &class, a, text, false);
            c.n = n; c.post_load = mode != 5;
            if designed { c.scen = Some(("0,2", Some(k), n)); }
            else if mode == 5 { c.scen = Some(("0", None, n)); }
            c
        },
        95..=96 => {
            // mkdsk must refuse to overwrite, and a failing mkdsk must not create a file
            if rng.chance(60) {
                let mut a = vec![s("mkdsk")]; a.extend(kind.mk.iter().map(|x| x.to_string())); a.extend([s("-d"), img.to_string()]);
                let mut c = case("mkdsk", "overwrite-existing", a, vec![], false); c.post_load = true; c
            } else {
                let fresh = env.tmp.join(format!("fresh.{}", *rng.pick(&["do", "po", "woz", "xyz", "img"])));
                let _ = std::fs::remove_file(&fresh);
                let combos: [&[&str]; 5] = [&["-o", "dos33", "-t", "do"], &["-o", "prodos", "-v", "x", "-t", "d13"], &["-o", "dos33", "-v", "0", "-t", "do"],
                    &["-o", "fat", "-t", "woz2"], &["-o", "pascal", "-v", "toolongvolumename", "-t", "po", "-b"]];
                let mut a = vec![s("mkdsk")]; a.extend(rng.pick(&combos).iter().map(|x| x.to_string())); a.extend([s("-d"), fresh.to_string_lossy().to_string()]);
                let mut c = case("mkdsk", "bad-combination", a, vec![], false); c.fresh = Some(fresh); c
            }
        },
        97 => {
            // inconsistent get/put argument patterns with the image named
            let (cmd, a): (&'static str, Vec<String>) = match rng.below(4) { 0 => ("put", d("put -t bin")), 1 => ("put", d("put -f X")), 2 => ("get", d("get -t bin")), _ => ("get", d("get -f X")) };
            case(cmd, "bad-args", a, b"data".to_vec(), cmd == "get")
        },
        _ => {
            // rejected by clap before any handler runs
            let (cmd, a): (&'static str, Vec<String>) = match rng.below(4) { 0 => ("delete", d("delete")), 1 => ("put", d("put -t nosuchtype -f X")), 2 => ("catalog", d("catalog --bogus")), _ => ("rename", d("rename -f A")) };
            case(cmd, "usage", a, vec![], RO_CMDS.contains(&cmd))
        }
    }
}

pub fn run(ctx: &mut Ctx) {
    let bin = build_binary();
    let tmp = std::env::current_dir().expect("cwd").join(format!("c11-tmp-{}", std::process::id()));
    let _ = std::fs::remove_dir_all(&tmp);
    std::fs::create_dir_all(&tmp).expect("tmp dir");
    let mut env = Env { bin, tmp: tmp.clone(), spawned: 0 };
    // skeleton classification vs. the harness's own table
    if ctx.out.only.is_none() {
        for c in RO_CMDS { ctx.out.q(&format!("c11 props {}", c), "savelast=1 readonly=1"); }
        for c in W_CMDS { ctx.out.q(&format!("c11 props {}", c), "savelast=1 readonly=0"); }
    }
    let n = ctx.n(330, 20000);
    let mut bases: std::collections::HashMap<(usize, usize), Option<Base>> = std::collections::HashMap::new();
    let mut root = Rng::new(ctx.seed);
    let quick_kinds: [usize; 11] = [0, 3, 8, 5, 6, 1, 2, 4, 7, 9, 10];
    for idx in 0..n {
        let mut rng = root.fork(idx as u64);
        if !ctx.out.wants(idx) { continue; }
        let ki = quick_kinds[idx % 11];
        let st = match rng.below(10) { 0 => 0, 1..=5 => 1, 6..=7 => 2, _ => 3 };
        // full-directory bases are the expensive ones: in the quick tier only for the small directories
        let st = if st == 3 && !ctx.tier_thorough && !(ki == 3 || ki == 5 || ki == 6) { 1 } else { st };
        if !bases.contains_key(&(ki, st)) {
            let mut brng = Rng::new(ctx.seed ^ 0xC11).fork((1000 + ki * 10 + st) as u64);
            let b = make_base(&mut env, ki, st, &mut brng);
            bases.insert((ki, st), b);
        }
        let base = match bases.get(&(ki, st)).unwrap() { Some(b) => Base { path: b.path.clone(), files: b.files.clone(), dirs: b.dirs.clone(), cap: b.cap }, None => { ctx.out.count("base-image-unavailable"); continue; } };
        let kind = &KINDS[ki];
        let imgp = tmp.join(format!("case.{}", kind.ext));
        let img = imgp.to_string_lossy().to_string();
        std::fs::copy(&base.path, &imgp).expect("copy base");
        let c = gen_case(&mut env, &mut rng, ki, st, &base, &img);
        let before = std::fs::read(&imgp).expect("read image");
        let h0 = sha256(&before);
        // park the modification time in the past so that a rewrite with identical bytes is visible too
        let old_time = std::time::UNIX_EPOCH + std::time::Duration::from_secs(1_000_000_000);
        if let Ok(f) = std::fs::File::options().write(true).open(&imgp) { let _ = f.set_modified(old_time); }
        let r = env.run(&c.args, &c.stdin);
        let after = std::fs::read(&imgp).unwrap_or_default();
        let h1 = sha256(&after);
        let changed = before != after;
        let rewritten = match std::fs::metadata(&imgp).and_then(|m| m.modified()) { Ok(t) => t != old_time, Err(_) => true };
        if rewritten && !changed { ctx.out.count("rewritten-with-identical-bytes"); }
        debug_assert_eq!(changed, h0 != h1);
        let desc = format!("idx={} kind={} state={} files={} cmd=[a2kit {}] stdin={}B class={} exit={}({}) sha256 {} -> {}",
            idx, kind.name, STATES[st], base.files.len(), c.args.join(" ").replace(&img, "IMG"), c.stdin.len(), c.class, r.code, r.class, &h0[..16], &h1[..16]);
        // direct oracles
        if r.code != 0 {
            ctx.out.oracle(!changed, "failed-unchanged", &format!("c11/{}/{}/image-changed", c.cmd, c.class), &desc);
        }
        if c.readonly {
            ctx.out.oracle(!changed, "readonly-unchanged", &format!("c11/{}/read-only/image-changed", c.cmd), &desc);
        }
        if let Some(fresh) = &c.fresh {
            if r.code != 0 { ctx.out.oracle(!fresh.exists(), "mkdsk-no-file", "c11/mkdsk/failed/file-created", &desc); }
            let _ = std::fs::remove_file(fresh);
        }
        // skeleton semantics: is the observed outcome a possible one?
        if c.fresh.is_none() && (r.class == "ok" || r.class == "err") {
            let (cats, at, nn) = if r.class == "ok" { ("-", None, c.n) } else { match c.scen { Some(x) => x, None => ("0,1,2,3,4", None, c.n) } };
            let at_s = match at { Some(k) => k.to_string(), None => s("-") };
            ctx.out.q(&format!("c11 admits {} {} {} {} {} {}", c.cmd, cats, at_s, nn.max(1), r.class, if changed || rewritten { 1 } else { 0 }), "yes");
        }
        let nontrivial = r.class != "usage" && r.class != "timeout"
            && ((r.code != 0 && c.post_load) || (c.readonly && r.code == 0) || (!c.readonly && r.code == 0 && changed));
        ctx.out.case(format!("{}|{}|{}|{}|{}", c.cmd, c.class, kind.name, STATES[st], r.class).as_bytes(), nontrivial);
        ctx.out.count(&format!("cmd/{}", c.cmd));
        ctx.out.count(&format!("exit/{}", r.class));
        ctx.out.count(&format!("state/{}", STATES[st]));
        ctx.out.count(&format!("kind/{}", kind.name));
        if c.class.starts_with("failed-item") { ctx.out.count(&format!("batch/{}/{}", c.cmd, c.class)); }
        if r.code != 0 && !c.readonly { ctx.out.count("writer-failed"); }
        if r.code == 0 && changed { ctx.out.count("writer-succeeded-changed"); }
        if idx % 37 == 0 || (c.class.starts_with("failed-item") && idx % 5 == 0) { ctx.out.sample(&desc); }
    }
    ctx.out.count_n("spawned-processes", env.spawned);
    let _ = std::fs::remove_dir_all(&tmp);
}
