//! harness family c11 (stub until the family is built)
use crate::util::*;

pub fn run(_ctx: &mut Ctx) {}
