//! harness family c07 — property C07: volume content does not depend on the container format.
//!
//! (a1) model-vs-implementation for the shared skew functions (`Block::get_lsecs`, `ts_from_prodos_block`,
//!      `prodos_block_from_ts`, `cpm_blocking`, `fat_blocking`), including refused and panicking inputs;
//! (a2) model-vs-implementation for the address map of every container: a distinctive pattern is written
//!      through `write_block`, then every physical sector (`read_sector`) / the flat image (`to_bytes`) is
//!      scanned to find where each 128-byte unit landed; the located pieces are compared with the model;
//! (b)  direct oracle: for every disk kind, every container `mkdsk` can create for it is formatted with the
//!      same file system (as `mkdsk.rs` does), the same generated history of file operations is applied
//!      to all of them, then EVERY file-system block, EVERY physical sector and every file is compared
//!      against the first container.  The clock is pinned by the LD_PRELOAD shim of bin/check.
use crate::util::*;
use a2kit::bios::{bpb, dpb, skew};
use a2kit::fs::{cpm, dos3x, fat, pascal, prodos, Block, DiskFS};
use a2kit::img::{self, names, DiskImage, DiskKind, TrackLayout};
use std::collections::HashMap;

// ---------------------------------------------------------------------------------------------
// small helpers

fn dots(xs: &[usize]) -> String { xs.iter().map(|x| x.to_string()).collect::<Vec<_>>().join(".") }
fn commas(xs: Vec<String>) -> String { if xs.is_empty() { "-".to_string() } else { xs.join(",") } }
fn errs(e: Box<dyn std::error::Error>) -> String { e.to_string() }

fn blk_tok(b: &Block) -> String {
    match b {
        Block::D13([t, s]) => format!("D13 {} {}", t, s),
        Block::DO([t, s]) => format!("DO {} {}", t, s),
        Block::PO(b) => format!("PO {}", b),
        Block::CPM((b, bsh, off)) => format!("CPM {} {} {}", b, bsh, off),
        Block::FAT((s, n)) => format!("FAT {} {}", s, n),
    }
}

/// 128-byte unit `k` of the test pattern: never zero, distinct for distinct `k < 251`
fn unit(k: usize, salt: usize) -> Vec<u8> { (0..128).map(|j| 1 + ((k * 37 + j + salt) % 251) as u8).collect() }
fn pattern(len: usize, salt: usize) -> Vec<u8> { (0..len / 128).flat_map(|k| unit(k, salt)).collect() }

/// (names.rs const name, layout) in any order; the protocol uses the name
fn layouts() -> Vec<(&'static str, TrackLayout, DiskKind)> {
    vec![
        ("CPM_1", names::CPM_1, names::IBM_CPM1_KIND),
        ("AMSTRAD_SS", names::AMSTRAD_SS, names::AMSTRAD_SS_KIND),
        ("OSBORNE1_SD", names::OSBORNE1_SD, names::OSBORNE1_SD_KIND),
        ("OSBORNE1_DD", names::OSBORNE1_DD, names::OSBORNE1_DD_KIND),
        ("TRS80_M2_CPM", names::TRS80_M2_CPM, names::TRS80_M2_CPM_KIND),
        ("NABU_CPM", names::NABU_CPM, names::NABU_CPM_KIND),
        ("KAYPROII", names::KAYPROII, names::KAYPROII_KIND),
        ("KAYPRO4", names::KAYPRO4, names::KAYPRO4_KIND),
        ("IBM_SSDD_8", names::IBM_SSDD_8, DiskKind::D525(names::IBM_SSDD_8)),
        ("IBM_SSDD_9", names::IBM_SSDD_9, DiskKind::D525(names::IBM_SSDD_9)),
        ("IBM_DSDD_8", names::IBM_DSDD_8, DiskKind::D525(names::IBM_DSDD_8)),
        ("IBM_DSDD_9", names::IBM_DSDD_9, DiskKind::D525(names::IBM_DSDD_9)),
        ("IBM_SSQD", names::IBM_SSQD, DiskKind::D525(names::IBM_SSQD)),
        ("IBM_DSQD", names::IBM_DSQD, DiskKind::D525(names::IBM_DSQD)),
        ("IBM_DSHD", names::IBM_DSHD, DiskKind::D525(names::IBM_DSHD)),
        ("IBM_720", names::IBM_720, DiskKind::D35(names::IBM_720)),
        ("IBM_1440", names::IBM_1440, DiskKind::D35(names::IBM_1440)),
        ("IBM_2880", names::IBM_2880, DiskKind::D35(names::IBM_2880)),
    ]
}
fn is_cpm_layout(n: &str) -> bool { !n.starts_with("IBM_") }

/// the pairings of `mkimage` in commands/mkdsk.rs (library constructors called the same way)
fn mk_img(container: &str, kind: DiskKind) -> Option<Box<dyn DiskImage>> {
    match guarded(|| mk_img_raw(container, kind)) { Ok(x) => x, Err(_) => None }
}

fn mk_img_raw(container: &str, kind: DiskKind) -> Option<Box<dyn DiskImage>> {
    let ibm = layouts().iter().any(|(n, _, k)| *k == kind && !is_cpm_layout(n));
    let cpmk = layouts().iter().any(|(n, _, k)| *k == kind && is_cpm_layout(n));
    Some(match (container, kind) {
        ("d13", names::A2_DOS32_KIND) => Box::new(img::dsk_d13::D13::create(35)),
        ("do", names::A2_DOS33_KIND) => Box::new(img::dsk_do::DO::create(35, 16)),
        ("po", names::A2_DOS33_KIND) => Box::new(img::dsk_po::PO::create(280)),
        ("po", names::A2_400_KIND) => Box::new(img::dsk_po::PO::create(800)),
        ("po", names::A2_800_KIND) => Box::new(img::dsk_po::PO::create(1600)),
        ("woz1", names::A2_DOS32_KIND) | ("woz1", names::A2_DOS33_KIND) => Box::new(img::woz1::Woz1::create(254, kind)),
        ("woz2", names::A2_DOS32_KIND) | ("woz2", names::A2_DOS33_KIND) | ("woz2", names::A2_400_KIND) | ("woz2", names::A2_800_KIND) =>
            Box::new(img::woz2::Woz2::create(254, kind)),
        ("nib", names::A2_DOS32_KIND) | ("nib", names::A2_DOS33_KIND) => Box::new(img::nib::Nib::create(254, kind)),
        ("2mg-do", names::A2_DOS33_KIND) => img::dot2mg::Dot2mg::create(254, kind, Some(&"do".to_string())).ok()?,
        ("2mg-nib", names::A2_DOS33_KIND) => img::dot2mg::Dot2mg::create(254, kind, Some(&"nib".to_string())).ok()?,
        ("2mg-po", names::A2_400_KIND) | ("2mg-po", names::A2_800_KIND) => img::dot2mg::Dot2mg::create(254, kind, Some(&"po".to_string())).ok()?,
        ("imd", _) if ibm || cpmk => Box::new(img::imd::Imd::create(kind)),
        ("td0", _) if ibm || cpmk => Box::new(img::td0::Td0::create(kind)),
        ("img", _) if ibm => Box::new(img::dsk_img::Img::create(kind)),
        _ => return None,
    })
}

// ---------------------------------------------------------------------------------------------
// (a1) shared functions

fn ts_str(v: &Vec<[usize; 2]>) -> String { commas(v.iter().map(|p| dots(&p[..])).collect()) }
fn chs_str(v: &Vec<[usize; 3]>) -> String { commas(v.iter().map(|p| dots(&p[..])).collect()) }

fn rand_block(rng: &mut Rng) -> Block {
    match rng.below(10) {
        0 => Block::D13([rng.below(36), rng.below(14)]),
        1 => Block::DO([rng.below(36), rng.below(17)]),
        2 => Block::PO(rng.below(300)),
        3..=6 => Block::CPM((rng.below(600), *rng.pick(&[0u8, 3, 3, 4, 4, 5]), rng.below(4) as u16)),
        _ => Block::FAT((rng.below(6000) as u64, *rng.pick(&[0u8, 1, 1, 2, 2, 4, 8]))),
    }
}

fn part_functions(ctx: &mut Ctx, rng: &mut Rng, idx: &mut usize) {
    let n = ctx.n(800, 60000);
    for i in 0..n {
        let mut r = rng.fork(*idx as u64);
        let me = *idx;
        *idx += 1;
        if !ctx.out.wants(me) { continue; }
        let (req, ans, key) = match i % 5 {
            0 => {
                let b = rand_block(&mut r);
                let spt = *r.pick(&[0usize, 8, 9, 10, 15, 16, 18, 20, 26, 32, 36, 40, 52, 64]);
                let a = match guarded(|| b.get_lsecs(spt)) { Ok(v) => format!("ok {}", ts_str(&v)), Err(_) => "refused".to_string() };
                (format!("c07 lsecs {} {}", spt, blk_tok(&b)), a, "fn:get_lsecs")
            }
            1 => {
                let (kt, kind, lim) = *r.pick(&[("dos33", names::A2_DOS33_KIND, 300usize), ("a400", names::A2_400_KIND, 810), ("a800", names::A2_800_KIND, 1610),
                                                ("dos32", names::A2_DOS32_KIND, 300)]);
                let b = if r.chance(25) { *r.pick(&[0, 1, 7, 8, lim - 11, lim - 10, 191, 192, 383, 384, 799, 800, 1599, 1600]) } else { r.below(lim) };
                let a = match guarded(|| skew::ts_from_prodos_block(b, &kind)) { Ok(Ok(v)) => format!("ok {}", ts_str(&v)), Ok(Err(_)) => "refused".to_string(), Err(_) => "refused".to_string() };
                (format!("c07 tsprodos {} {}", kt, b), a, "fn:ts_from_prodos_block")
            }
            2 => {
                let (t, s) = (r.below(40), r.below(18));
                let a = match guarded(|| skew::prodos_block_from_ts(t, s)) { Ok(Ok((b, o))) => format!("ok {}.{}", b, o), Ok(Err(_)) => "refused".to_string(), Err(_) => "refused".to_string() };
                (format!("c07 blkfromts {} {}", t, s), a, "fn:prodos_block_from_ts")
            }
            3 => {
                // mostly the lists real callers pass (get_lsecs of a CP/M block), sometimes damaged
                let ssh = *r.pick(&[0usize, 1, 2, 2, 3]);
                let heads = *r.pick(&[0usize, 1, 1, 2, 2]);
                let spt = *r.pick(&[20usize, 26, 36, 40, 52, 64]);
                let b = Block::CPM((r.below(400), *r.pick(&[3u8, 4]), r.below(4) as u16));
                let mut ts = b.get_lsecs(spt);
                match r.below(8) { 0 => { ts.remove(0); } 1 => { let k = r.below(ts.len()); ts[k][1] = 0; } 2 => { ts.clear(); } 3 => { let k = r.below(ts.len()); ts[k][0] += 1; } _ => {} }
                let tsc = ts.clone();
                let a = match guarded(move || skew::cpm_blocking(tsc, ssh as u8, heads)) { Ok(Ok(v)) => format!("ok {}", chs_str(&v)), Ok(Err(_)) => "refused".to_string(), Err(_) => "refused".to_string() };
                (format!("c07 cpmblk {} {} {}", ssh, heads, ts_str(&ts)), a, "fn:cpm_blocking")
            }
            _ => {
                let heads = *r.pick(&[0usize, 1, 1, 2, 2]);
                let spt = *r.pick(&[8usize, 9, 15, 18, 36]);
                let b = Block::FAT((r.below(6000) as u64, *r.pick(&[0u8, 1, 2, 4])));
                let ts = b.get_lsecs(spt);
                let tsc = ts.clone();
                let a = match guarded(move || skew::fat_blocking(tsc, heads)) { Ok(Ok(v)) => format!("ok {}", chs_str(&v)), Ok(Err(_)) => "refused".to_string(), Err(_) => "refused".to_string() };
                (format!("c07 fatblk {} {}", heads, ts_str(&ts)), a, "fn:fat_blocking")
            }
        };
        ctx.out.count(key);
        ctx.out.count(&format!("outcome:{}", ans.split(' ').next().unwrap_or("")));
        ctx.out.q(&req, &ans);
        ctx.out.case(req.as_bytes(), ans.starts_with("ok ") && ans != "ok -");
        if i < 3 { ctx.out.sample(&format!("idx={} {} => {}", me, req, ans)); }
    }
}

// ---------------------------------------------------------------------------------------------
// (a2) address maps of the containers

/// geometry to scan with `read_sector`: cylinders, heads, sector ids
struct Scan { cyls: usize, heads: usize, ids: Vec<usize> }

fn scan_of(kind: &DiskKind) -> Scan {
    match *kind {
        names::A2_DOS32_KIND => Scan { cyls: 35, heads: 1, ids: (0..13).collect() },
        names::A2_DOS33_KIND => Scan { cyls: 35, heads: 1, ids: (0..16).collect() },
        names::A2_400_KIND => Scan { cyls: 80, heads: 1, ids: (0..12).collect() },
        names::A2_800_KIND => Scan { cyls: 80, heads: 2, ids: (0..12).collect() },
        DiskKind::D3(l) | DiskKind::D35(l) | DiskKind::D525(l) | DiskKind::D8(l) =>
            Scan { cyls: l.track_count() / std::cmp::max(1, l.sides()), heads: l.sides(), ids: (0..41).collect() },
        _ => Scan { cyls: 0, heads: 0, ids: vec![] },
    }
}

/// (sectors on track 0, sector size on track 0) of an IBM kind, probed on a fresh IMD image
/// (the fields of `TrackLayout` are private)
fn probe(kind: &DiskKind) -> (usize, usize) {
    // IMD and TD0 cannot be created for every layout mkimage pairs them with (2.88 MB: `panic!("unhandled
    // track mode")`, a C10 matter); fall back to IMG
    let Some(mut im) = mk_img("imd", *kind).or_else(|| mk_img("img", *kind)) else { return (0, 0); };
    let mut n = 0;
    let mut size = 0;
    for s in 0..41 { if let Ok(Ok(d)) = guarded(|| im.read_sector(0, 0, s)) { n += 1; size = d.len(); } }
    (n, size)
}

/// all physical sectors an image shows: (c,h,s) -> data
fn read_all_sectors(img: &mut Box<dyn DiskImage>, sc: &Scan) -> Vec<([usize; 3], Vec<u8>)> {
    let mut ans = Vec::new();
    for c in 0..sc.cyls { for h in 0..sc.heads { for s in &sc.ids {
        if let Ok(Ok(d)) = guarded(|| img.read_sector(c, h, *s)) { ans.push(([c, h, *s], d)); }
    }}}
    ans
}

/// locate the units of the pattern in data order and merge neighbours: `c.h.s.off.len`
fn locate_units(sectors: &Vec<([usize; 3], Vec<u8>)>, nunits: usize, salt: usize) -> String {
    let mut where_is: HashMap<Vec<u8>, Vec<[usize; 4]>> = HashMap::new();
    for (chs, d) in sectors {
        let mut o = 0;
        while o + 128 <= d.len() {
            if d[o] != 0 { where_is.entry(d[o..o + 128].to_vec()).or_default().push([chs[0], chs[1], chs[2], o]); }
            o += 128;
        }
    }
    let mut pieces: Vec<[usize; 5]> = Vec::new();
    for k in 0..nunits {
        match where_is.get(&unit(k, salt)) {
            Some(v) if v.len() == 1 => {
                let w = v[0];
                if let Some(last) = pieces.last_mut() {
                    if last[0] == w[0] && last[1] == w[1] && last[2] == w[2] && last[3] + last[4] == w[3] { last[4] += 128; continue; }
                }
                pieces.push([w[0], w[1], w[2], w[3], 128]);
            }
            Some(v) => return format!("unit-{}-found-{}-times", k, v.len()),
            None => return format!("unit-{}-lost", k),
        }
    }
    format!("ok {}", commas(pieces.iter().map(|p| dots(&p[..])).collect()))
}

fn locate_flat(bytes: &[u8], nunits: usize, salt: usize) -> String {
    let mut where_is: HashMap<Vec<u8>, Vec<usize>> = HashMap::new();
    let mut o = 0;
    while o + 128 <= bytes.len() {
        if bytes[o] != 0 { where_is.entry(bytes[o..o + 128].to_vec()).or_default().push(o); }
        o += 128;
    }
    let mut pieces: Vec<[usize; 2]> = Vec::new();
    for k in 0..nunits {
        match where_is.get(&unit(k, salt)) {
            Some(v) if v.len() == 1 => {
                if let Some(last) = pieces.last_mut() { if last[0] + last[1] == v[0] { last[1] += 128; continue; } }
                pieces.push([v[0], 128]);
            }
            Some(v) => return format!("unit-{}-found-{}-times", k, v.len()),
            None => return format!("unit-{}-lost", k),
        }
    }
    // the model reports one piece per sector/record; split merged ranges is not possible here, so
    // both sides are normalised by the caller (`norm_flat`)
    format!("ok {}", commas(pieces.iter().map(|p| dots(&p[..])).collect()))
}

struct MapCfg { container: &'static str, proto: &'static str, kind_tok: String, kind: DiskKind, flat: Option<&'static str>, phys: bool }

fn block_len(b: &Block, kind: &DiskKind) -> usize {
    match b {
        Block::D13(_) | Block::DO(_) => 256,
        Block::PO(_) => 512,
        Block::CPM((_, bsh, _)) => 128usize << bsh,
        Block::FAT((_, n)) => {
            *n as usize * probe(kind).1
        }
    }
}

fn gen_block(r: &mut Rng, cfg: &MapCfg) -> Block {
    let edge = r.chance(35);
    match cfg.kind {
        names::A2_DOS32_KIND => Block::D13(if edge { *r.pick(&[[0, 0], [0, 12], [34, 0], [34, 12], [17, 0]]) } else { [r.below(35), r.below(13)] }),
        names::A2_DOS33_KIND => match r.below(if cfg.container == "po" { 1 } else { 3 }) {
            0 => Block::PO(if edge { *r.pick(&[0, 1, 7, 8, 279, 272, 136]) } else { r.below(280) }),
            1 => Block::DO(if edge { *r.pick(&[[0, 0], [0, 15], [34, 0], [34, 15], [17, 0], [17, 15]]) } else { [r.below(35), r.below(16)] }),
            _ => Block::CPM((if edge { *r.pick(&[0, 1, 3, 4, 127, 126]) } else { r.below(128) }, 3, 3)),
        },
        names::A2_400_KIND => Block::PO(if edge { *r.pick(&[0, 11, 12, 191, 192, 367, 368, 527, 528, 671, 672, 799]) } else { r.below(800) }),
        names::A2_800_KIND => Block::PO(if edge { *r.pick(&[0, 11, 12, 23, 24, 383, 384, 735, 736, 1055, 1056, 1343, 1344, 1599]) } else { r.below(1600) }),
        _ => {
            let lay = match cfg.kind { DiskKind::D3(l) | DiskKind::D35(l) | DiskKind::D525(l) | DiskKind::D8(l) => l, _ => unreachable!() };
            if is_cpm_layout(&cfg.kind_tok[2..]) && (cfg.container != "img") {
                let d = dpb::DiskParameterBlock::create(&cfg.kind);
                let nb = d.user_blocks();
                Block::CPM((if edge { *r.pick(&[0, 1, nb - 1, nb - 2, nb / 2]) } else { r.below(nb) }, d.bsh, d.off))
            } else {
                let spt = std::cmp::max(1, probe(&cfg.kind).0);
                let total = lay.track_count() * spt;
                let n = *r.pick(&[1usize, 1, 2, 2, 4]);
                let s = if edge { *r.pick(&[0, spt - 1, spt, total - n, total / 2]) } else { r.below(total - n + 1) };
                Block::FAT((s as u64, n as u8))
            }
        }
    }
}

fn part_addrmaps(ctx: &mut Ctx, rng: &mut Rng, idx: &mut usize) {
    let mut cfgs: Vec<MapCfg> = Vec::new();
    let a = |c, p, kt: &str, k, flat, phys| MapCfg { container: c, proto: p, kind_tok: kt.to_string(), kind: k, flat, phys };
    cfgs.push(a("do", "do", "dos33", names::A2_DOS33_KIND, Some("do"), true));
    cfgs.push(a("2mg-do", "do", "dos33", names::A2_DOS33_KIND, None, true));
    cfgs.push(a("po", "po", "dos33", names::A2_DOS33_KIND, Some("po280"), false));
    cfgs.push(a("nib", "nib", "dos33", names::A2_DOS33_KIND, None, true));
    cfgs.push(a("woz1", "nib", "dos33", names::A2_DOS33_KIND, None, true));
    cfgs.push(a("woz2", "nib", "dos33", names::A2_DOS33_KIND, None, true));
    cfgs.push(a("2mg-nib", "nib", "dos33", names::A2_DOS33_KIND, None, true));
    cfgs.push(a("d13", "d13", "dos32", names::A2_DOS32_KIND, Some("d13"), true));
    cfgs.push(a("nib", "nib", "dos32", names::A2_DOS32_KIND, None, true));
    cfgs.push(a("woz1", "nib", "dos32", names::A2_DOS32_KIND, None, true));
    cfgs.push(a("woz2", "nib", "dos32", names::A2_DOS32_KIND, None, true));
    cfgs.push(a("po", "po", "a400", names::A2_400_KIND, Some("po800"), false));
    cfgs.push(a("po", "po", "a800", names::A2_800_KIND, Some("po1600"), false));
    cfgs.push(a("woz2", "nib", "a400", names::A2_400_KIND, None, true));
    cfgs.push(a("woz2", "nib", "a800", names::A2_800_KIND, None, true));
    for (n, _, k) in layouts() {
        let kt = format!("L:{}", n);
        if !is_cpm_layout(n) { cfgs.push(a("img", "img", &kt, k, None, true)); }
        cfgs.push(a("imd", "imd", &kt, k, None, true));
        cfgs.push(a("td0", "td0", &kt, k, None, true));
    }
    let per = ctx.n(8, 150);
    for cfg in cfgs.iter() {
        let slow = cfg.proto == "nib";
        let nblk = if slow { ctx.n(5, 80) } else { per };
        let mut image: Option<Box<dyn DiskImage>> = None;
        for _ in 0..nblk {
            let mut r = rng.fork(*idx as u64);
            let me = *idx;
            *idx += 1;
            if !ctx.out.wants(me) { continue; }
            if image.is_none() { image = mk_img(cfg.container, cfg.kind); }
            let Some(im) = image.as_mut() else { continue; };
            let blk = gen_block(&mut r, cfg);
            let len = block_len(&blk, &cfg.kind);
            if len == 0 || len / 128 > 250 { continue; }
            let salt = r.below(200);
            let dat = pattern(len, salt);
            let case = format!("idx={} container={} kind={} block={}", me, cfg.container, cfg.kind_tok, blk_tok(&blk));
            ctx.out.count(&format!("map:{}:{}", cfg.container, blk_tok(&blk).split(' ').next().unwrap()));
            let w = guarded(|| im.write_block(blk, &dat).map_err(errs));
            let outcome = match &w { Ok(Ok(())) => "ok", _ => "refused" };
            ctx.out.count(match &w { Ok(Ok(())) => "map-outcome:ok", Ok(Err(_)) => "map-outcome:err", Err(_) => "map-outcome:panic" });
            let sc = scan_of(&cfg.kind);
            if cfg.phys {
                let ans = if outcome == "ok" { locate_units(&read_all_sectors(im, &sc), len / 128, salt) } else { outcome.to_string() };
                // the model lists one piece per sector; the observation merges only within a sector, so both agree
                ctx.out.q(&format!("c07 pieces {} {} {}", cfg.proto, cfg.kind_tok, blk_tok(&blk)), &ans);
            }
            if let Some(flat) = cfg.flat {
                let ans = if outcome == "ok" { norm_flat(&locate_flat(&im.to_bytes(), len / 128, salt), flat) } else { outcome.to_string() };
                ctx.out.q(&format!("c07 flat {} {}", flat, blk_tok(&blk)), &ans);
            }
            // read back through read_block: must return the data (container round trip, cheap sanity)
            if outcome == "ok" {
                let rb = guarded(|| im.read_block(blk).map_err(errs));
                ctx.out.oracle(matches!(&rb, Ok(Ok(d)) if *d == dat), "block-write-read", &format!("c07/addrmap/{}/readback-differs", cfg.container), &case);
                let _ = guarded(|| im.write_block(blk, &vec![0u8; len]));
            } else { image = None; }
            ctx.out.case(case.as_bytes(), outcome == "ok");
            ctx.out.sample(&case);
        }
        // physical sector addressing of the flat containers: where does write_sector put its data
        if matches!(cfg.proto, "do" | "d13" | "img") && cfg.container != "2mg-do" {
            for _ in 0..ctx.n(6, 100) {
                let mut r = rng.fork(*idx as u64);
                let me = *idx;
                *idx += 1;
                if !ctx.out.wants(me) { continue; }
                if image.is_none() { image = mk_img(cfg.container, cfg.kind); }
                let Some(im) = image.as_mut() else { continue; };
                let sc = scan_of(&cfg.kind);
                let (c, h) = (r.below(sc.cyls + 1), if r.chance(10) { sc.heads } else { r.below(sc.heads) });
                let s = r.below(if cfg.proto == "img" { 38 } else { 17 });
                let ss = if cfg.proto == "img" { probe(&cfg.kind).1 } else { 256 };
                let salt = r.below(200);
                let dat = pattern(ss, salt);
                let w = guarded(|| im.write_sector(c, h, s, &dat).map_err(errs));
                let ans = match &w {
                    Ok(Ok(())) => {
                        let a = locate_flat(&im.to_bytes(), ss / 128, salt);
                        let _ = guarded(|| im.write_sector(c, h, s, &vec![0u8; ss]));
                        a
                    }
                    Ok(Err(_)) => "refused".to_string(),
                    Err(_) => { image = None; "refused".to_string() }
                };
                ctx.out.count(&format!("sector:{}:{}", cfg.container, ans.split(' ').next().unwrap_or("")));
                ctx.out.q(&format!("c07 sector {} {} {} {} {}", cfg.proto, cfg.kind_tok, c, h, s), &ans);
                ctx.out.case(format!("sector {} {} {} {} {}", cfg.container, cfg.kind_tok, c, h, s).as_bytes(), ans.starts_with("ok"));
            }
        }
    }
}

/// the model reports one flat piece per sector / record / block; contiguous pieces are merged on both
/// sides by re-splitting the observation at the container's piece size
fn norm_flat(obs: &str, flat: &str) -> String {
    let Some(body) = obs.strip_prefix("ok ") else { return obs.to_string(); };
    let q = if flat.starts_with("po") { 512 } else { 256 };
    let mut out: Vec<String> = Vec::new();
    for p in body.split(',') {
        let v: Vec<usize> = p.split('.').filter_map(|x| x.parse().ok()).collect();
        if v.len() != 2 { return obs.to_string(); }
        let (mut o, mut l) = (v[0], v[1]);
        while l > 0 {
            let step = std::cmp::min(l, q - o % q);
            out.push(format!("{}.{}", o, step));
            o += step; l -= step;
        }
    }
    format!("ok {}", out.join(","))
}

// ---------------------------------------------------------------------------------------------
// (b) same history on every container of a kind

#[derive(Clone, Copy, PartialEq, Eq, Debug)]
enum Fs { Dos32, Dos33, Prodos, Pascal, Cpm2, Cpm3, Fat }
impl Fs {
    fn id(&self) -> &'static str { match self { Fs::Dos32 => "dos32", Fs::Dos33 => "dos33", Fs::Prodos => "prodos", Fs::Pascal => "pascal", Fs::Cpm2 => "cpm2", Fs::Cpm3 => "cpm3", Fs::Fat => "fat" } }
    fn has_dirs(&self) -> bool { matches!(self, Fs::Prodos | Fs::Fat) }
}

/// format exactly as commands/mkdsk.rs does (mkdos3x, mkprodos, mkpascal, mkcpm, mkfat)
fn make_volume(fs: Fs, img: Box<dyn DiskImage>, kind: &DiskKind) -> Result<Box<dyn DiskFS>, String> {
    match fs {
        Fs::Dos33 => { let mut d = dos3x::Disk::from_img(img).map_err(errs)?; d.init33(254, false).map_err(errs)?; Ok(Box::new(d)) }
        Fs::Dos32 => { let mut d = dos3x::Disk::from_img(img).map_err(errs)?; d.init32(254, false).map_err(errs)?; Ok(Box::new(d)) }
        Fs::Prodos => {
            // the SAME operation on every container: the flag is taken from the requested disk kind
            // (what `mkdsk` itself passes is checked by part (c) through the real `mkdsk`)
            let floppy = matches!(kind, DiskKind::D35(_) | DiskKind::D525(_) | DiskKind::D8(_));
            let mut d = prodos::Disk::from_img(img).map_err(errs)?; d.format("VERIF", floppy, None).map_err(errs)?; Ok(Box::new(d))
        }
        Fs::Pascal => { let mut d = pascal::Disk::from_img(img).map_err(errs)?; d.format("VERIF", 0xee, None).map_err(errs)?; Ok(Box::new(d)) }
        Fs::Cpm2 => { let mut d = cpm::Disk::from_img(img, dpb::DiskParameterBlock::create(kind), [2, 2, 3]).map_err(errs)?; d.format("", None).map_err(errs)?; Ok(Box::new(d)) }
        Fs::Cpm3 => {
            let now = chrono::Local::now().naive_local();
            let mut d = cpm::Disk::from_img(img, dpb::DiskParameterBlock::create(kind), [3, 1, 0]).map_err(errs)?; d.format("VERIF", Some(now)).map_err(errs)?; Ok(Box::new(d))
        }
        Fs::Fat => {
            let boot = bpb::BootSector::create(kind).map_err(errs)?;
            let mut d = fat::Disk::from_img(img, Some(boot)).map_err(errs)?; d.format("VERIF", None).map_err(errs)?; Ok(Box::new(d))
        }
    }
}

#[derive(Clone, Debug)]
enum Op { Put(String, usize, u64), Delete(String), Rename(String, String), Mkdir(String) }

fn fname(fs: Fs, i: usize) -> String {
    match fs { Fs::Dos32 | Fs::Dos33 | Fs::Prodos => format!("F{}", i), _ => format!("F{}.BIN", i) }
}

fn gen_history(fs: Fs, r: &mut Rng, nops: usize, big: usize) -> Vec<Op> {
    let sizes = [1usize, 127, 128, 129, 255, 256, 257, 511, 512, 513, 1023, 1024, 1025, 2047, 2048, 2049, 4097, big];
    let mut live: Vec<String> = Vec::new();
    let mut dirs: Vec<String> = Vec::new();
    let mut ops = Vec::new();
    let mut counter = 0;
    for k in 0..nops {
        let choice = if k < 2 { 0 } else { r.below(10) };
        match choice {
            0..=4 => {
                counter += 1;
                let base = fname(fs, counter);
                let path = if !dirs.is_empty() && r.chance(40) { format!("{}/{}", r.pick(&dirs), base) } else { base };
                ops.push(Op::Put(path.clone(), *r.pick(&sizes), r.next()));
                live.push(path);
            }
            5 | 6 if !live.is_empty() => { let i = r.below(live.len()); ops.push(Op::Delete(live.remove(i))); }
            7 if !live.is_empty() => {
                counter += 1;
                let i = r.below(live.len());
                let old = live[i].clone();
                let newbase = fname(fs, counter).replace('F', "R");
                let newpath = match old.rfind('/') { Some(p) => format!("{}/{}", &old[..p], newbase), None => newbase.clone() };
                ops.push(Op::Rename(old, newbase));
                live[i] = newpath;
            }
            8 if fs.has_dirs() && dirs.len() < 2 => { let d = format!("D{}", dirs.len() + 1); ops.push(Op::Mkdir(d.clone())); dirs.push(d); }
            _ => {
                counter += 1;
                let base = fname(fs, counter);
                ops.push(Op::Put(base.clone(), *r.pick(&sizes), r.next()));
                live.push(base);
            }
        }
    }
    ops
}

/// File contents.  Besides random bytes, shapes that sit on sector edges: periodic with the sector size `q`
/// (128/256/512/1024) so that whole sectors are all-equal, or uniform except their first / last / middle byte;
/// the phase compensates the 4-byte header DOS 3.x puts in front of binary data.  A file of length 1 mod `q`
/// additionally leaves "one data byte, then padding" in its last sector (sizes q+1 are in the size list).
fn content(fs: Fs, size: usize, seed: u64) -> (Vec<u8>, &'static str) {
    let mut r = Rng::new(seed);
    let shape = r.below(8);
    let q = *r.pick(&[128usize, 256, 512, 1024]);
    let phase = match fs { Fs::Dos32 | Fs::Dos33 => 4, _ => 0 };
    let c = 1 + r.below(254) as u8;
    let x = if r.chance(50) { 0 } else { c.wrapping_add(1 + r.below(200) as u8) };
    let periodic = |hit: usize| -> Vec<u8> { (0..size).map(|i| if (i + phase) % q == hit { x } else { c }).collect() };
    // a third of the files take the shared structured shapes (uniform, two-periodic, runs, sector mixtures …)
    if r.chance(33) { return gen_data(&mut r, size); }
    match shape {
        0 | 1 => (r.bytes(size), "random"),
        2 => (vec![c; size], "all-equal"),
        3 => (periodic(0), "first-byte-of-sector-differs"),
        4 => (periodic(q - 1), "last-byte-of-sector-differs"),
        5 => (periodic(q / 2), "middle-byte-of-sector-differs"),
        6 => { let mut v = vec![0u8; size]; if size > 0 { v[size - 1] = c; } (v, "zero-then-one-byte") }
        _ => { let mut v = vec![c; size]; if size > 0 { v[0] = x; } (v, "first-byte-of-file-differs") }
    }
}

/// what every CLI command does between two operations: serialise the image and load it again
fn reopen(fs: Fs, container: &str, disk: &mut Box<dyn DiskFS>, kind: &DiskKind) -> Result<Box<dyn DiskFS>, String> {
    let ext = match container { "woz1" | "woz2" => "woz", c if c.starts_with("2mg") => "2mg", c => c };
    let bytes = disk.get_img().to_bytes();
    let img = a2kit::create_img_from_bytestream(&bytes, Some(ext)).map_err(errs)?;
    Ok(match fs {
        Fs::Dos32 | Fs::Dos33 => Box::new(dos3x::Disk::from_img(img).map_err(errs)?),
        Fs::Prodos => Box::new(prodos::Disk::from_img(img).map_err(errs)?),
        Fs::Pascal => Box::new(pascal::Disk::from_img(img).map_err(errs)?),
        Fs::Cpm2 => Box::new(cpm::Disk::from_img(img, dpb::DiskParameterBlock::create(kind), [2, 2, 3]).map_err(errs)?),
        Fs::Cpm3 => Box::new(cpm::Disk::from_img(img, dpb::DiskParameterBlock::create(kind), [3, 1, 0]).map_err(errs)?),
        Fs::Fat => Box::new(fat::Disk::from_img(img, None).map_err(errs)?),
    })
}

fn apply(fs: Fs, disk: &mut Box<dyn DiskFS>, op: &Op) -> String {
    let res = guarded(|| -> Result<(), String> {
        match op {
            Op::Put(path, size, seed) => {
                let (dat, _) = content(fs, *size, *seed);
                let addr = match fs { Fs::Dos32 | Fs::Dos33 | Fs::Prodos => Some(0x2000), _ => None };
                disk.bsave(path, &dat, addr, None).map(|_| ()).map_err(errs)
            }
            Op::Delete(p) => disk.delete(p).map_err(errs),
            Op::Rename(p, n) => disk.rename(p, n).map_err(errs),
            Op::Mkdir(p) => disk.create(p).map_err(errs),
        }
    });
    match res { Ok(Ok(())) => "ok".to_string(), Ok(Err(e)) => format!("err:{}", e), Err(p) => format!("panic:{}", panic_site(&p)) }
}

fn fimg_canon(f: &a2kit::fs::FileImage) -> String {
    let mut keys: Vec<&usize> = f.chunks.keys().collect();
    keys.sort();
    let mut h = 0xcbf29ce484222325u64;
    for k in &keys { h ^= fnv(&k.to_le_bytes()); h = h.wrapping_mul(0x100000001b3); h ^= fnv(&f.chunks[*k]); h = h.wrapping_mul(0x100000001b3); }
    format!("fs={} clen={} eof={} type={} aux={} acc={} cr={} mod={} ver={} minver={} chunks={} hash={:016x}",
            f.file_system, f.chunk_len, hx(&f.eof), hx(&f.fs_type), hx(&f.aux), hx(&f.access), hx(&f.created), hx(&f.modified),
            hx(&f.version), hx(&f.min_version), keys.len(), h)
}

struct View { name: String, op_results: Vec<String>, blocks: Vec<Result<Vec<u8>, String>>, sectors: Vec<([usize; 3], Vec<u8>)>, sector_view: bool,
              files: Vec<String>, catalog: String }

fn observe(fs: Fs, name: &str, disk: &mut Box<dyn DiskFS>, kind: &DiskKind, op_results: Vec<String>, paths: &Vec<String>, dirs: &Vec<String>) -> View {
    let (beg, end) = match guarded(|| disk.stat().map_err(errs)) { Ok(Ok(s)) => (s.block_beg, s.block_end), _ => (0, 0) };
    let _ = fs;
    let mut blocks = Vec::new();
    for b in beg..end {
        blocks.push(match guarded(|| disk.read_block(&b.to_string()).map_err(errs)) { Ok(Ok(d)) => Ok(d), Ok(Err(e)) => Err(format!("err:{}", e)), Err(p) => Err(format!("panic:{}", panic_site(&p))) });
    }
    let sc = scan_of(kind);
    let sectors = read_all_sectors(disk.get_img(), &sc);
    let mut files = Vec::new();
    for p in paths {
        files.push(match guarded(|| disk.get(p).map_err(errs)) { Ok(Ok(f)) => fimg_canon(&f), Ok(Err(e)) => format!("err:{}", e), Err(pp) => format!("panic:{}", panic_site(&pp)) });
    }
    let mut catalog = String::new();
    for d in std::iter::once(&"/".to_string()).chain(dirs.iter()) {
        catalog += &match guarded(|| disk.catalog_to_vec(d).map_err(errs)) { Ok(Ok(v)) => v.join("|"), Ok(Err(e)) => format!("err:{}", e), Err(pp) => format!("panic:{}", panic_site(&pp)) };
        catalog += "\n";
    }
    View { name: name.to_string(), op_results, blocks, sector_view: !sectors.is_empty(), sectors, files, catalog }
}

/// physical sector view of a PO image, through the real skew functions: for 5.25 inch disks the standard
/// ProDOS interleave `prodos_block_from_ts`, for 3.5 inch disks the inverse of `ts_from_prodos_block`
fn po_sector_view(disk: &mut Box<dyn DiskFS>, kind: &DiskKind) -> Vec<([usize; 3], Vec<u8>)> {
    let mut ans = Vec::new();
    let img = disk.get_img();
    match *kind {
        names::A2_DOS33_KIND => {
            for t in 0..35 { for p in 0..16 {
                let l = skew::DOS_PSEC_TO_DOS_LSEC[p];
                if let Ok((b, o)) = skew::prodos_block_from_ts(t, l) {
                    if let Ok(Ok(d)) = guarded(|| img.read_block(Block::PO(b))) { if d.len() >= o + 256 { ans.push(([t, 0, p], d[o..o + 256].to_vec())); } }
                }
            }}
        }
        names::A2_400_KIND | names::A2_800_KIND => {
            let (n, heads) = if *kind == names::A2_400_KIND { (800, 1) } else { (1600, 2) };
            for b in 0..n {
                if let Ok(Ok(ts)) = guarded(|| skew::ts_from_prodos_block(b, kind)) {
                    if ts.len() == 1 { if let Ok(Ok(d)) = guarded(|| img.read_block(Block::PO(b))) { ans.push(([ts[0][0] / heads, ts[0][0] % heads, ts[0][1]], d)); } }
                }
            }
            ans.sort();
        }
        _ => {}
    }
    ans
}

struct HistCfg { fs: Fs, kind_name: String, kind: DiskKind, containers: Vec<&'static str> }

fn hist_cfgs() -> Vec<HistCfg> {
    let mut v = Vec::new();
    let h = |fs, kn: &str, kind, cs: &[&'static str]| HistCfg { fs, kind_name: kn.to_string(), kind, containers: cs.to_vec() };
    v.push(h(Fs::Dos33, "a2-525", names::A2_DOS33_KIND, &["do", "nib", "woz1", "woz2", "2mg-do", "2mg-nib"]));
    v.push(h(Fs::Prodos, "a2-525", names::A2_DOS33_KIND, &["do", "po", "nib", "woz1", "woz2", "2mg-do", "2mg-nib"]));
    v.push(h(Fs::Pascal, "a2-525", names::A2_DOS33_KIND, &["do", "po", "nib", "woz1", "woz2", "2mg-do", "2mg-nib"]));
    v.push(h(Fs::Cpm2, "a2-525", names::A2_DOS33_KIND, &["do", "nib", "woz1", "woz2", "2mg-do", "2mg-nib"]));
    v.push(h(Fs::Dos32, "a2-513", names::A2_DOS32_KIND, &["d13", "nib", "woz1", "woz2"]));
    v.push(h(Fs::Prodos, "a2-400", names::A2_400_KIND, &["po", "woz2", "2mg-po"]));
    v.push(h(Fs::Prodos, "a2-800", names::A2_800_KIND, &["po", "woz2", "2mg-po"]));
    v.push(h(Fs::Cpm3, "a2-525", names::A2_DOS33_KIND, &["do", "nib", "woz2"]));
    for (n, _, k) in layouts() {
        if is_cpm_layout(n) { v.push(h(Fs::Cpm2, n, k, &["imd", "td0"])); } else { v.push(h(Fs::Fat, n, k, &["img", "imd", "td0"])); }
    }
    for (n, _, k) in layouts() { if is_cpm_layout(n) { v.push(h(Fs::Cpm3, n, k, &["imd", "td0"])); } }
    v
}

fn part_histories(ctx: &mut Ctx, rng: &mut Rng, idx: &mut usize) {
    let cfgs = hist_cfgs();
    let rounds = ctx.n(2, 30);
    for round in 0..rounds {
        for cfg in cfgs.iter() {
            let mut r = rng.fork(*idx as u64);
            let me = *idx;
            *idx += 1;
            if !ctx.out.wants(me) { continue; }
            let nibble = cfg.containers.iter().any(|c| matches!(*c, "nib" | "woz1" | "woz2" | "2mg-nib"));
            // quick tier: the Cpm3 configurations and the IBM kinds beyond the first round-robin share are sampled
            if !ctx.tier_thorough && cfg.fs == Fs::Cpm3 && r.chance(60) { ctx.out.count("hist:skipped-quick"); continue; }
            let nops = if ctx.tier_thorough { if nibble { 20 } else { 40 } } else if nibble { 6 } else { 12 };
            let big = *r.pick(&[3000usize, 6000, 9000]);
            let mut ops = gen_history(cfg.fs, &mut r, nops + round, big);
            // pre-soil (half of the histories): store and delete one large non-zero file first, so that the sectors the
            // history allocates afterwards hold stale bytes — a container that pads a short write differently from the
            // others (the tail of a file's last sector) then differs at sector level although every file reads the same
            if r.chance(50) {
                let cap: usize = match cfg.kind_name.as_str() { n if n.starts_with("a2") && n.contains("13") => 100_000, n if n.starts_with("a2") => 110_000, _ => 120_000 };
                let soil = fname(cfg.fs, 900);
                // 13-sector DOS disks: a second file takes what is left, so that the history has to re-use freed sectors
                let soil2 = fname(cfg.fs, 901);
                let mut pre = if cfg.kind_name.contains("13") {
                    vec![Op::Put(soil.clone(), 72_000, 0x5011 ^ me as u64), Op::Put(soil2.clone(), 30_000, 0x5012 ^ me as u64), Op::Delete(soil), Op::Delete(soil2)]
                } else { vec![Op::Put(soil.clone(), cap, 0x5011 ^ me as u64), Op::Delete(soil)] };
                pre.append(&mut ops);
                ops = pre;
                ctx.out.count("hist:pre-soil");
            }
            let paths: Vec<String> = {
                let mut p: Vec<String> = Vec::new();
                for o in &ops { match o { Op::Put(x, _, _) => p.push(x.clone()),
                    Op::Rename(old, nb) => p.push(match old.rfind('/') { Some(q) => format!("{}/{}", &old[..q], nb), None => nb.clone() }), _ => {} } }
                p.sort(); p.dedup(); p
            };
            for o in &ops { if let Op::Put(_, size, seed) = o { ctx.out.count(&format!("content:{}", content(cfg.fs, *size, *seed).1)); } }
            let dirs: Vec<String> = ops.iter().filter_map(|o| if let Op::Mkdir(d) = o { Some(d.clone()) } else { None }).collect();
            let case = format!("idx={} fs={} kind={} containers={} ops={:?}", me, cfg.fs.id(), cfg.kind_name, cfg.containers.join("+"), ops);
            let mut views: Vec<View> = Vec::new();
            let mut po_views: Vec<(String, Vec<([usize; 3], Vec<u8>)>)> = Vec::new();
            let mut unsupported = 0;
            for c in &cfg.containers {
                // a container that cannot even be created for the kind (IMD/TD0 at 2.88 MB panic in `create`,
                // a C10 matter) is not "able to hold" it
                let Some(img0) = mk_img(c, cfg.kind) else { ctx.out.count(&format!("hist:container-unavailable:{}:{}", c, cfg.kind_name)); continue; };
                let made = guarded(move || -> Result<Box<dyn DiskFS>, String> { make_volume(cfg.fs, img0, &cfg.kind) });
                let mut disk = match made {
                    Ok(Ok(d)) => d,
                    Ok(Err(e)) => { unsupported += 1; views.push(View { name: c.to_string(), op_results: vec![format!("format-err:{}", e)], blocks: vec![], sectors: vec![], sector_view: false, files: vec![], catalog: String::new() }); continue; }
                    Err(p) => { unsupported += 1; views.push(View { name: c.to_string(), op_results: vec![format!("format-panic:{}", panic_site(&p))], blocks: vec![], sectors: vec![], sector_view: false, files: vec![], catalog: String::new() }); continue; }
                };
                let mut results = vec!["format-ok".to_string()];
                // the image is flattened and re-opened in the middle and at the end of the history
                let mut lost = false;
                for (k, o) in ops.iter().enumerate() {
                    results.push(apply(cfg.fs, &mut disk, o));
                    if k + 1 == ops.len() / 2 || k + 1 == ops.len() {
                        match guarded(|| reopen(cfg.fs, c, &mut disk, &cfg.kind)) {
                            Ok(Ok(d)) => { disk = d; results.push("reopen-ok".to_string()); }
                            Ok(Err(e)) => { results.push(format!("reopen-err:{}", e)); lost = true; break; }
                            Err(p) => { results.push(format!("reopen-panic:{}", panic_site(&p))); lost = true; break; }
                        }
                    }
                }
                if lost {
                    views.push(View { name: c.to_string(), op_results: results, blocks: vec![], sectors: vec![], sector_view: false, files: vec![], catalog: String::new() });
                    continue;
                }
                let v = observe(cfg.fs, c, &mut disk, &cfg.kind, results, &paths, &dirs);
                if !v.sector_view { po_views.push((c.to_string(), po_sector_view(&mut disk, &cfg.kind))); }
                views.push(v);
            }
            ctx.out.count(&format!("hist:{}:{}", cfg.fs.id(), if cfg.kind_name.starts_with("a2") { cfg.kind_name.as_str() } else { "ibm" }));
            if views.len() < 2 { ctx.out.count("hist:fewer-than-two-containers"); ctx.out.case(case.as_bytes(), false); continue; }
            // compare everything with the first container
            let up = |s: &str| s.to_uppercase();
            let sigp = |a: &str, b: &str, what: &str| format!("c07/{}/{}-vs-{}/{}", cfg.fs.id(), up(a), up(b), what);
            let reference = &views[0];
            let mut nontrivial = reference.op_results.iter().filter(|x| *x == "ok").count() >= 2 && unsupported == 0;
            for v in views.iter().skip(1) {
                let (a, b) = (reference.name.as_str(), v.name.as_str());
                let same_ops = reference.op_results == v.op_results;
                let detail = if same_ops { String::new() } else {
                    let k = reference.op_results.iter().zip(v.op_results.iter()).position(|(x, y)| x != y).unwrap_or(0);
                    format!(" step={} {}={} {}={}", k, a, reference.op_results.get(k).cloned().unwrap_or_default(), b, v.op_results.get(k).cloned().unwrap_or_default())
                };
                ctx.out.oracle(same_ops, "same-op-results", &sigp(a, b, "op-result-differs"), &format!("{}{}", case, detail));
                if !same_ops { nontrivial = false; continue; }
                let bd = if reference.blocks.len() != v.blocks.len() { Some(usize::MAX) } else { reference.blocks.iter().zip(v.blocks.iter()).position(|(x, y)| x != y) };
                ctx.out.oracle(bd.is_none(), "same-blocks", &sigp(a, b, "block-differs"),
                               &format!("{} first-differing-block-index={:?} of {}", case, bd, reference.blocks.len()));
                ctx.out.oracle(reference.files == v.files, "same-files", &sigp(a, b, "file-differs"), &case);
                ctx.out.oracle(reference.catalog == v.catalog, "same-catalog", &sigp(a, b, "catalog-differs"), &case);
                if reference.sector_view && v.sector_view {
                    let sd = if reference.sectors.len() != v.sectors.len() { Some([usize::MAX; 3]) } else {
                        reference.sectors.iter().zip(v.sectors.iter()).find(|(x, y)| x != y).map(|(x, _)| x.0) };
                    ctx.out.oracle(sd.is_none(), "same-sectors", &sigp(a, b, "sector-differs"),
                                   &format!("{} first-differing-sector={:?} counts={}/{}", case, sd, reference.sectors.len(), v.sectors.len()));
                }
            }
            // containers without a sector view (PO, 2MG wrapping PO): compare their sector view obtained through
            // the skew functions with the first container that has a real one
            if let Some(rv) = views.iter().find(|v| v.sector_view) {
                for (pn, pv) in &po_views {
                    if pv.is_empty() { continue; }
                    let mut sorted = rv.sectors.clone();
                    sorted.sort();
                    let mut pvs = pv.clone();
                    pvs.sort();
                    let sd = if sorted.len() != pvs.len() { Some([usize::MAX; 3]) } else { sorted.iter().zip(pvs.iter()).find(|(x, y)| x != y).map(|(x, _)| x.0) };
                    ctx.out.oracle(sd.is_none(), "same-sectors-via-skew", &sigp(&rv.name, pn, "sector-differs"),
                                   &format!("{} first-differing-sector={:?} counts={}/{}", case, sd, sorted.len(), pvs.len()));
                }
            }
            ctx.out.count_n("hist:blocks-compared", (reference.blocks.len() * (views.len() - 1)) as u64);
            ctx.out.count_n("hist:sectors-compared", views.iter().skip(1).map(|v| v.sectors.len() as u64).sum());
            ctx.out.case(case.as_bytes(), nontrivial);
            if round == 0 { ctx.out.sample(&case); }
        }
    }
}

// ---------------------------------------------------------------------------------------------
// (c) the real `mkdsk` on every container of a kind: the fresh volumes must agree block for block

struct MkCfg { os: &'static str, kind_str: &'static str, kind: DiskKind, vol: &'static str, targets: Vec<(&'static str, Option<&'static str>, &'static str, &'static str)> }

fn mk_cfgs() -> Vec<MkCfg> {
    let apple = |os, vol, ts: &[(&'static str, Option<&'static str>, &'static str, &'static str)]| MkCfg { os, kind_str: "5.25in", kind: names::A2_DOS33_KIND, vol, targets: ts.to_vec() };
    let all525 = [("do", None, "do", "do"), ("po", None, "po", "po"), ("nib", None, "nib", "nib"), ("woz1", None, "woz", "woz1"), ("woz2", None, "woz", "woz2"),
                  ("2mg", Some("do"), "2mg", "2mg-do"), ("2mg", Some("nib"), "2mg", "2mg-nib")];
    let nopo: Vec<_> = all525.iter().filter(|t| t.0 != "po").cloned().collect();
    let mut v = vec![
        apple("dos33", "254", &nopo), apple("prodos", "VERIF", &all525), apple("pascal", "VERIF", &all525), apple("cpm2", "", &nopo), apple("cpm3", "VERIF", &nopo),
        MkCfg { os: "dos32", kind_str: "5.25in", kind: names::A2_DOS32_KIND, vol: "254",
                targets: vec![("d13", None, "d13", "d13"), ("nib", None, "nib", "nib"), ("woz1", None, "woz", "woz1"), ("woz2", None, "woz", "woz2")] },
        MkCfg { os: "prodos", kind_str: "3.5in-ss", kind: names::A2_400_KIND, vol: "VERIF", targets: vec![("po", None, "po", "po"), ("woz2", None, "woz", "woz2"), ("2mg", Some("po"), "2mg", "2mg-po")] },
        MkCfg { os: "prodos", kind_str: "3.5in-ds", kind: names::A2_800_KIND, vol: "VERIF", targets: vec![("po", None, "po", "po"), ("woz2", None, "woz", "woz2"), ("2mg", Some("po"), "2mg", "2mg-po")] },
    ];
    let ibm3 = vec![("img", None, "img", "img"), ("imd", None, "imd", "imd"), ("td0", None, "td0", "td0")];
    let ibm2 = vec![("imd", None, "imd", "imd"), ("td0", None, "td0", "td0")];
    for (ks, k) in [("5.25in-ibm-ssdd8", DiskKind::D525(names::IBM_SSDD_8)), ("5.25in-ibm-ssdd9", DiskKind::D525(names::IBM_SSDD_9)),
                    ("5.25in-ibm-dsdd8", DiskKind::D525(names::IBM_DSDD_8)), ("5.25in-ibm-dsdd9", DiskKind::D525(names::IBM_DSDD_9)),
                    ("5.25in-ibm-ssqd", DiskKind::D525(names::IBM_SSQD)), ("5.25in-ibm-dsqd", DiskKind::D525(names::IBM_DSQD)),
                    ("5.25in-ibm-dshd", DiskKind::D525(names::IBM_DSHD)), ("3.5in-ibm-720", DiskKind::D35(names::IBM_720)),
                    ("3.5in-ibm-1440", DiskKind::D35(names::IBM_1440)), ("3.5in-ibm-2880", DiskKind::D35(names::IBM_2880))] {
        v.push(MkCfg { os: "fat", kind_str: ks, kind: k, vol: "VERIF", targets: ibm3.clone() });
    }
    for (ks, k) in [("8in", names::IBM_CPM1_KIND), ("8in-trs80", names::TRS80_M2_CPM_KIND), ("8in-nabu", names::NABU_CPM_KIND), ("5.25in-osb-sd", names::OSBORNE1_SD_KIND),
                    ("5.25in-osb-dd", names::OSBORNE1_DD_KIND), ("5.25in-kayii", names::KAYPROII_KIND), ("5.25in-kay4", names::KAYPRO4_KIND), ("3in-amstrad", names::AMSTRAD_SS_KIND)] {
        v.push(MkCfg { os: "cpm2", kind_str: ks, kind: k, vol: "", targets: ibm2.clone() });
        v.push(MkCfg { os: "cpm3", kind_str: ks, kind: k, vol: "VERIF", targets: ibm2.clone() });
    }
    v
}

/// the argument ids `mkdsk` reads (the contract between src/cli.rs and src/commands/mkdsk.rs)
fn mkdsk_matches(args: &[String]) -> Result<clap::ArgMatches, String> {
    use clap::{Arg, ArgAction, Command};
    Command::new("mkdsk")
        .arg(Arg::new("volume").short('v').long("volume"))
        .arg(Arg::new("type").short('t').long("type").required(true))
        .arg(Arg::new("os").short('o').long("os").required(true))
        .arg(Arg::new("bootable").short('b').long("bootable").action(ArgAction::SetTrue))
        .arg(Arg::new("kind").short('k').long("kind").default_value("5.25in"))
        .arg(Arg::new("dimg").short('d').long("dimg").required(true))
        .arg(Arg::new("wrap").short('w').long("wrap"))
        .try_get_matches_from(args.iter()).map_err(|e| e.to_string())
}

/// every image-level block and every physical sector of a fresh volume
fn image_view(im: &mut Box<dyn DiskImage>, os: &str, kind: &DiskKind) -> (Vec<Result<Vec<u8>, String>>, Vec<([usize; 3], Vec<u8>)>) {
    let mut addrs: Vec<Block> = Vec::new();
    match (os, *kind) {
        ("dos32", _) => for t in 0..35 { for s in 0..13 { addrs.push(Block::D13([t, s])); } },
        ("dos33", _) => for t in 0..35 { for s in 0..16 { addrs.push(Block::DO([t, s])); } },
        ("prodos", names::A2_400_KIND) => for b in 0..800 { addrs.push(Block::PO(b)); },
        ("prodos", names::A2_800_KIND) => for b in 0..1600 { addrs.push(Block::PO(b)); },
        ("prodos", _) | ("pascal", _) => for b in 0..280 { addrs.push(Block::PO(b)); },
        ("cpm2", _) | ("cpm3", _) => { let d = dpb::DiskParameterBlock::create(kind); for b in 0..d.user_blocks() { addrs.push(Block::CPM((b, d.bsh, d.off))); } }
        _ => {}
    }
    let blocks = addrs.iter().map(|a| match guarded(|| im.read_block(*a).map_err(errs)) { Ok(Ok(d)) => Ok(d), Ok(Err(e)) => Err(format!("err:{}", e)), Err(p) => Err(format!("panic:{}", panic_site(&p))) }).collect();
    let sectors = read_all_sectors(im, &scan_of(kind));
    (blocks, sectors)
}

fn part_mkdsk(ctx: &mut Ctx, rng: &mut Rng, idx: &mut usize) {
    for cfg in mk_cfgs() {
        let _r = rng.fork(*idx as u64);
        let me = *idx;
        *idx += 1;
        if !ctx.out.wants(me) { continue; }
        if !ctx.tier_thorough && cfg.os == "cpm3" && cfg.kind_str != "5.25in" && me % 3 != 0 { ctx.out.count("mkdsk:skipped-quick"); continue; }
        let dir = match tempfile::tempdir() { Ok(d) => d, Err(_) => continue };
        let case = format!("idx={} mkdsk os={} kind={} targets={}", me, cfg.os, cfg.kind_str, cfg.targets.iter().map(|t| t.3).collect::<Vec<_>>().join("+"));
        let mut views: Vec<(String, Vec<Result<Vec<u8>, String>>, Vec<([usize; 3], Vec<u8>)>)> = Vec::new();
        for (typ, wrap, ext, label) in &cfg.targets {
            let path = dir.path().join(format!("v{}-{}.{}", me, label, ext));
            let mut args: Vec<String> = vec!["mkdsk".into(), "-t".into(), typ.to_string(), "-o".into(), cfg.os.into(), "-k".into(), cfg.kind_str.into(), "-d".into(), path.to_string_lossy().to_string()];
            if !cfg.vol.is_empty() { args.push("-v".into()); args.push(cfg.vol.into()); }
            if let Some(w) = wrap { args.push("-w".into()); args.push(w.to_string()); }
            let made = guarded(|| -> Result<Vec<u8>, String> {
                let m = mkdsk_matches(&args)?;
                a2kit::commands::mkdsk::mkdsk(&m).map_err(errs)?;
                std::fs::read(&path).map_err(|e| e.to_string())
            });
            let bytes = match made { Ok(Ok(b)) => b, Ok(Err(e)) => { ctx.out.count(&format!("mkdsk:refused:{}:{}:{}", cfg.os, cfg.kind_str, label)); let _ = e; continue; }
                                     Err(_) => { ctx.out.count(&format!("mkdsk:panicked:{}:{}:{}", cfg.os, cfg.kind_str, label)); continue; } };
            let Ok(Ok(mut im)) = guarded(|| a2kit::create_img_from_bytestream(&bytes, Some(ext)).map_err(errs)) else {
                ctx.out.oracle(false, "mkdsk-image-reloads", &format!("c07/mkdsk-{}/{}/image-does-not-reload", cfg.os, label.to_uppercase()), &case); continue; };
            let (b, s) = image_view(&mut im, cfg.os, &cfg.kind);
            views.push((label.to_string(), b, s));
        }
        ctx.out.count(&format!("mkdsk:{}", cfg.os));
        if views.len() < 2 { ctx.out.case(case.as_bytes(), false); continue; }
        let (rn, rb, rs) = &views[0];
        for (n, b, s) in views.iter().skip(1) {
            let sig = |what: &str| format!("c07/mkdsk-{}/{}-vs-{}/{}", cfg.os, rn.to_uppercase(), n.to_uppercase(), what);
            let bd = if rb.len() != b.len() { Some(usize::MAX) } else { rb.iter().zip(b.iter()).position(|(x, y)| x != y) };
            ctx.out.oracle(bd.is_none(), "mkdsk-same-blocks", &sig("block-differs"), &format!("{} first-differing-block-index={:?} of {}", case, bd, rb.len()));
            if !rs.is_empty() && !s.is_empty() {
                let sd = if rs.len() != s.len() { Some([usize::MAX; 3]) } else { rs.iter().zip(s.iter()).find(|(x, y)| x != y).map(|(x, _)| x.0) };
                ctx.out.oracle(sd.is_none(), "mkdsk-same-sectors", &sig("sector-differs"), &format!("{} first-differing-sector={:?} counts={}/{}", case, sd, rs.len(), s.len()));
            }
        }
        ctx.out.case(case.as_bytes(), true);
        ctx.out.sample(&case);
    }
}

pub fn run(ctx: &mut Ctx) {
    let mut rng = Rng::new(ctx.seed);
    let mut idx = 0usize;
    ctx.out.max_samples = 8;
    // a panic of the harness itself (not of guarded a2kit code) must be visible: re-raise with its site
    let r = guarded(|| {
        part_functions(ctx, &mut rng, &mut idx);
        part_addrmaps(ctx, &mut rng, &mut idx);
        part_histories(ctx, &mut rng, &mut idx);
        part_mkdsk(ctx, &mut rng, &mut idx);
    });
    if let Err(p) = r { eprintln!("c07 harness panicked at {}", p); std::process::exit(3); }
}
