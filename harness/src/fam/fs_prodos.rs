//! byte-exact tie of the concrete ProDOS model (stub until the model is built): called from fs.rs::post_step
//! after every executed operation (`w.last_op` describes it) and once after format (`w.last_op == None`)
use super::fs::{Drv, Verdicts, World};

pub fn after_step(_drv: &mut Drv, _w: &mut World, _vd: &mut Verdicts, _desc: &str) {}
