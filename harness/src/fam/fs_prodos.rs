//! byte-exact tie of the concrete ProDOS model (Lean `Model/Fs/Prodos.lean`, driver family `fspd`): called from
//! fs.rs::post_step after every executed operation on ProDOS / flat PO (`w.last_op` describes it; None for a
//! query or a skipped step) and — if fs.rs calls it — once right after format (`after_format`).
//!
//! After the mirror of the saved image has been updated (`fs set`), the operation is sent with the arguments the
//! real call received and the result class the real code reported.  The model applies it to the image as it was
//! before the step and answers `ok` iff its result class and its written-back image (unit for unit) agree.
//! Then: `stat().free_blocks`, the catalog rows of the root and of every directory, and after a successful put
//! the fetched file are compared with the model's `statFree`, `catalog`, `get`.
//! Disagreements are oracle failures `concrete-model:{result,image,free,cat,get,…}` under C01, C02, C03, C05.
//! `A2V_NO_FSPRODOS=1` switches the tie off.
use super::fs::{Drv, Focus, OpRecord, Verdicts, World};
use crate::util::*;
use a2kit::fs::FileImage;
use std::collections::BTreeMap;

/// the verdicts are reported under C01, C02, C03, C05 only: under the other foci of the engine nothing is sent
fn enabled(w: &World, vd: &Verdicts) -> bool {
    matches!(vd.focus, Focus::C01 | Focus::C02 | Focus::C03 | Focus::C05) && std::env::var("A2V_NO_FSPRODOS").is_err() && w.cfg.flat && w.cfg.container == "po"
}

fn hxs(s: &str) -> String { hx(s.as_bytes()) }

/// `pack_time(None)` of a2kit's ProDOS module, recomputed from the (pinned) clock
fn pd_time() -> Vec<u8> {
    use chrono::{Datelike, Timelike};
    let now = chrono::Local::now().naive_local();
    let (_ce, year) = now.year_ce();
    let date = (now.day() + (now.month() << 5) + ((year % 100) << 9)) as u16;
    let time = (now.minute() + (now.hour() << 8)) as u16;
    let (d, t) = (date.to_le_bytes(), time.to_le_bytes());
    vec![d[0], d[1], t[0], t[1]]
}

/// result class of a real ProDOS operation in the vocabulary of the model (`Err.token`)
fn err_tok(e: &str) -> String {
    match e {
        "RANGE ERROR" => "range", "WRITE PROTECTED" => "writeprotected", "END OF DATA" => "endofdata", "PATH NOT FOUND" => "pathnotfound",
        "I/O ERROR" => "ioerror", "DISK FULL" => "diskfull", "FILE TYPE MISMATCH" => "filetypemismatch", "SYNTAX ERROR" => "syntax",
        "DIRECTORY FULL" => "directoryfull", "DUPLICATE FILENAME" => "duplicate", "unable to access sector" => "imgerr", "PANIC" => "panic",
        x if x.contains("invalid digit") || x.contains("cannot parse integer") || x.contains("too large to fit") || x.contains("too small to fit") => "parseint",
        _ => return format!("other({})", e.replace(' ', "_")),
    }.to_string()
}
fn res_tok(r: &Result<(), String>) -> String { match r { Ok(()) => "ok".to_string(), Err(e) => format!("err:{}", err_tok(e)) } }

/// Adler-32 over (index low, index high, data…) of every chunk in index order
fn adler(chunks: &BTreeMap<usize, Vec<u8>>) -> u64 {
    let (mut a, mut b) = (1u64, 0u64);
    for (i, c) in chunks {
        for x in [(*i % 256) as u8, (*i / 256 % 256) as u8].iter().chain(c.iter()) { a = (a + *x as u64) % 65521; b = (b + a) % 65521; }
    }
    b * 65536 + a
}
fn get_answer(r: &Result<Result<FileImage, String>, String>) -> String {
    match r {
        Ok(Ok(g)) => {
            let cs: BTreeMap<usize, Vec<u8>> = g.chunks.iter().map(|(k, v)| (*k, v.clone())).collect();
            format!("ok {} {} {} {} {} {}", g.get_ftype(), g.get_aux(), g.get_eof(), g.access.first().cloned().unwrap_or(0), cs.len(), adler(&cs))
        }
        Ok(Err(e)) => format!("err:{}", err_tok(e)),
        Err(_) => "err:panic".to_string(),
    }
}

fn verdict(vd: &mut Verdicts, w: &World, pass: bool, kind: &str, detail: &str) {
    let hist = w.hist.clone();
    for f in [Focus::C01, Focus::C02, Focus::C03, Focus::C05] {
        if pass { vd.v(f, true, "concrete-model", "", &[]); } else { vd.v(f, false, &format!("concrete-model:{}", kind), detail, &hist); }
    }
}

/// Which variant of the source is the real code?  The model carries four pieces of a2kit's ProDOS module as written and
/// as repaired (`Repairs` in Model/Fs/Prodos.lean); the real code is probed once per process and the driver is told
/// (`fspd variant`), so that the byte-exact tie holds before and after each repair is applied:
/// dd = delete of a grown directory follows the chain, pl = put refuses more than 128 index blocks,
/// bc = ceil(total/4096) bitmap blocks (a 4096-block volume has 4089 free blocks after format, not 4088),
/// fh = a file image without chunk 0 gets a hole in slot 0 of its index block (get returns no chunk 0),
/// ff = a file image with an empty `fs_type` is refused before the directory is touched (the image is unchanged)
fn variant_bits() -> [bool; 5] {
    use a2kit::fs::{prodos, DiskFS};
    use a2kit::img;
    static BITS: std::sync::OnceLock<[bool; 5]> = std::sync::OnceLock::new();
    *BITS.get_or_init(|| {
        // `A2V_PD_VARIANT=11000` (dd pl bc fh ff) overrides the probe: for checking that a wrong variant is noticed
        if let Ok(v) = std::env::var("A2V_PD_VARIANT") {
            let b: Vec<bool> = v.chars().map(|c| c == '1').collect();
            if b.len() == 5 { return [b[0], b[1], b[2], b[3], b[4]]; }
        }
        let mk = |n: u16| -> Result<prodos::Disk, String> {
            let img = Box::new(img::dsk_po::PO::create(n));
            let mut d = prodos::Disk::from_img(img).map_err(|e| e.to_string())?;
            d.format("VERIF", true, None).map_err(|e| e.to_string())?;
            Ok(d)
        };
        let file = |d: &mut prodos::Disk, path: &str, chunks: Vec<(usize, Vec<u8>)>, eof: usize| -> Result<usize, String> {
            let mut f = d.new_fimg(None, true, path).map_err(|e| e.to_string())?;
            for (i, c) in chunks { f.chunks.insert(i, c); }
            f.set_eof(eof); f.access = vec![0xC3]; f.fs_type = vec![6];
            d.put(&f).map_err(|e| e.to_string())
        };
        let dd = guarded(|| -> Result<bool, String> {
            let mut d = mk(280)?;
            d.create("D").map_err(|e| e.to_string())?;
            for i in 0..13 { file(&mut d, &format!("D/F{}", i), vec![(0, vec![i as u8 + 1; 10])], 10)?; }
            for i in 0..13 { d.delete(&format!("D/F{}", i)).map_err(|e| e.to_string())?; }
            let r = d.delete("D");
            let rows = d.catalog_to_vec("/").map_err(|e| e.to_string())?;
            Ok(r.is_ok() && !rows.iter().any(|r| r.ends_with("  D")))
        });
        let pl = guarded(|| -> Result<bool, String> {
            let mut d = mk(280)?;
            Ok(file(&mut d, "BIG", vec![(0, vec![1; 512]), (32768, vec![2; 512])], 512).is_err())
        });
        let bc = guarded(|| -> Result<bool, String> {
            let mut d = mk(4096)?;
            Ok(d.stat().map_err(|e| e.to_string())?.free_blocks == 4089)
        });
        let fh = guarded(|| -> Result<bool, String> {
            let mut d = mk(280)?;
            file(&mut d, "H", vec![(1, vec![0x41; 512])], 1024)?;
            let g = d.get("H").map_err(|e| e.to_string())?;
            Ok(!g.chunks.contains_key(&0))
        });
        let ff = guarded(|| -> Result<bool, String> {
            let mut d = mk(280)?;
            let before = d.get_img().to_bytes();
            let mut f = d.new_fimg(None, true, "S").map_err(|e| e.to_string())?;
            f.chunks.insert(0, vec![1; 16]);
            f.set_eof(16); f.access = vec![0xC3]; f.fs_type = vec![];
            let r = d.put(&f);
            Ok(r.is_err() && d.get_img().to_bytes() == before)
        });
        let b = |r: Result<Result<bool, String>, String>| matches!(r, Ok(Ok(true)));
        [b(dd), b(pl), b(bc), b(fh), b(ff)]
    })
}

/// ask the model; tell it the variant of the real source first if it does not know it yet; if it has no disk yet
/// (fs.rs did not call `after_format`), let it format its own blank image first
fn ask(drv: &mut Drv, req: &str) -> String {
    let mut ans = drv.ask(&format!("fspd {}", req));
    if ans == "need-variant" {
        let v = variant_bits();
        let a = drv.ask(&format!("fspd variant {} {} {} {} {}", v[0] as u8, v[1] as u8, v[2] as u8, v[3] as u8, v[4] as u8));
        if a != "ok" { return format!("variant-failed:{}", a); }
        ans = drv.ask(&format!("fspd {}", req));
    }
    if ans != "need-format" { return ans; }
    let a = drv.ask(&format!("fspd format {} {} nocmp ok", hxs("VERIF"), hx(&pd_time())));
    if a != "ok" { return format!("format-failed:{}", a); }
    drv.ask(&format!("fspd {}", req))
}

/// send one operation to the concrete model; `expect` = the real answer of a query, None = a mutating operation
/// (the driver compares result class and the whole written-back image with the mirror and answers `ok`)
fn tie(drv: &mut Drv, w: &World, vd: &mut Verdicts, req: &str, expect: Option<String>, desc: &str) {
    let ans = ask(drv, req);
    let want = expect.unwrap_or("ok".to_string());
    if ans == want { verdict(vd, w, true, "", ""); return; }
    let kind = if ans.starts_with("bad result") { "result" } else if ans.starts_with("bad block") || ans.starts_with("bad flush") { "image" } else { req.split(' ').next().unwrap_or("?") }.to_string();
    let short: String = req.chars().take(200).collect();
    verdict(vd, w, false, &kind, &format!("concrete ProDOS model disagrees after [{}]: request [{}] model answered [{}] expected [{}]", desc, short, ans, want));
}

/// `FileType::from_str` as a code (`none` = refused)
fn type_code(s: &str) -> String {
    if let Ok(n) = s.parse::<u8>() { return if matches!(n, 0x00 | 0x04 | 0x06 | 0x0f | 0xfa..=0xff) { n.to_string() } else { "none".to_string() }; }
    match s { "bin" => "6", "txt" => "4", "atok" => "252", "itok" => "250", "avar" => "253", "ivar" => "251", "rel" => "254", "sys" => "255", _ => "none" }.to_string()
}

fn op_request(op: &OpRecord) -> Option<String> {
    let real = res_tok(&op.result);
    let p = hxs(&op.spelled);
    Some(match op.kind {
        "put" => {
            let ok = op.result.is_ok();
            let cs = op.chunks.iter().map(|(i, c)| if ok { format!("{}:{}", i, hx(c)) } else { format!("{}:-", i) }).collect::<Vec<_>>().join(",");
            format!("put {} {} {} {} {} {} {} {}", p, hx(&op.fs_type), hx(&op.aux), hx(&op.access), op.eof, hx(&pd_time()), real, if cs.is_empty() { "-".to_string() } else { cs })
        }
        "delete" => format!("delete {} {}", p, real),
        "lock" => format!("lock {} {}", p, real),
        "unlock" => format!("unlock {} {}", p, real),
        "rename" => format!("rename {} {} {}", p, hxs(&op.arg2), real),
        "retype" => format!("retype {} {} {} {}", p, type_code(&op.arg2), op.arg3.parse::<u16>().map(|v| v.to_string()).unwrap_or("none".to_string()), real),
        "mkdir" => format!("mkdir {} {} {}", p, hx(&pd_time()), real),
        _ => return None,
    })
}

/// optional hook for fs.rs: right after `make_volume` and the first mirror of the image
pub fn after_format(drv: &mut Drv, w: &mut World, vd: &mut Verdicts) {
    if !enabled(w, vd) { return; }
    let ans = ask(drv, &format!("format {} {} cmp ok", hxs("VERIF"), hx(&pd_time())));
    if ans == "ok" { verdict(vd, w, true, "", ""); }
    else {
        let kind = if ans.starts_with("bad result") { "result" } else { "image" };
        verdict(vd, w, false, kind, &format!("concrete ProDOS model disagrees after [format]: model answered [{}]", ans));
    }
}

pub fn after_step(drv: &mut Drv, w: &mut World, vd: &mut Verdicts, desc: &str) {
    if !enabled(w, vd) { return; }
    { static ONCE: std::sync::Once = std::sync::Once::new(); let mut run = false; ONCE.call_once(|| run = true); if run { directed(w, vd); } }
    match w.last_op.clone() {
        Some(op) => match op_request(&op) {
            Some(req) => tie(drv, w, vd, &req, None, desc),
            None => { let _ = ask(drv, "sync"); }
        },
        None => {
            // a query or a skipped step: the image must not have changed; the model keeps its disk
            if desc.starts_with("get-missing ") {
                let name = desc.splitn(2, ' ').nth(1).unwrap_or("").split(" => ").next().unwrap_or("").to_string();
                let res = w.get(&name);
                tie(drv, w, vd, &format!("get {}", hxs(&name)), Some(get_answer(&res)), desc);
            }
        }
    }
    // free count, catalogs and `get` are functions of the image, which the operation tie has just compared: they are asked
    // for (in one round trip) only after a step that changed it: free count, catalog of the root and of every directory,
    // and (after a successful put) the file as `get` returns it
    if !desc.ends_with("=> ok") { return; }
    let mut items: Vec<String> = Vec::new();
    let mut wants: Vec<String> = Vec::new();
    if let Ok(f) = w.free() { items.push("free".to_string()); wants.push(format!("ok {}", f)); }
    // the total reader of Model/Read/ProdosT.lean (the one theorems can speak about) agrees with the group's reader
    items.push("readers".to_string()); wants.push("ok".to_string());
    let mut dirs: Vec<String> = vec!["/".to_string()];
    dirs.extend(w.dirs.iter().cloned());
    for d in dirs {
        match guarded(|| w.disk.catalog_to_vec(&d).map_err(|e| e.to_string())) {
            Ok(Ok(rows)) => {
                // `universal_row`: "{:4} {:5}  {}" = type, blocks, name
                let rs: Vec<String> = rows.iter().map(|r| {
                    let typ = r.get(..4).unwrap_or("").trim().to_string();
                    let rest = r.get(5..).unwrap_or("").trim_start();
                    match rest.split_once("  ") { Some((n, name)) => format!("{}:{}:{}", hxs(name), n, typ), None => format!("?{}", r.replace(' ', "_")) }
                }).collect();
                items.push(format!("cat={}", hxs(&d)));
                wants.push(format!("ok {}", if rs.is_empty() { "-".to_string() } else { rs.join(",") }));
            }
            Ok(Err(e)) => { items.push(format!("cat={}", hxs(&d))); wants.push(format!("err:{}", err_tok(&e))); }
            Err(_) => {}
        }
    }
    if desc.starts_with("put ") && desc.ends_with("=> ok") {
        let name = desc.splitn(2, ' ').nth(1).unwrap_or("").split(" chunks=").next().unwrap_or("").to_string();
        let res = w.get(&name);
        items.push(format!("get={}", hxs(&name)));
        wants.push(get_answer(&res));
    }
    if items.is_empty() { return; }
    let ans = ask(drv, &format!("q {}", items.join(" ")));
    let got: Vec<&str> = ans.split(" ;; ").collect();
    for (i, want) in wants.iter().enumerate() {
        let g = got.get(i).cloned().unwrap_or("<none>");
        if g == want { verdict(vd, w, true, "", ""); }
        else {
            let kind = items[i].split('=').next().unwrap_or("?").to_string();
            verdict(vd, w, false, &kind, &format!("concrete ProDOS model disagrees after [{}]: query [{}] model answered [{}] expected [{}]", desc, items[i], g, want));
        }
    }
}

// ------------------------------------------------------------------------------------------
// directed scenarios on the real code (operations the generator of fs.rs does not produce): once per run

/// The four scenarios failed on the tree at 1ff0ca3 / aadfbdc (findings `prodos-delete-grown-directory`,
/// `prodos-oversize-put-refused`, `prodos-bitmap-block-count`, `prodos-put-first-chunk-hole`); all four repairs are applied
/// in /repo (ff7dba9, 7c065bc, 2120bff, 67f0f58), so a failure is a regression and is reported as a failing input.
/// `A2V_PD_DIRECTED=0` turns failures into counts (`pending-fix:<oracle>`), for runs against an older tree.
const DIRECTED_STRICT: bool = true;
/// findings whose repair is proposed but not yet applied in /repo: counted, not reported (move to strict once applied)
const PENDING: &[&str] = &[];

fn report(vd: &mut Verdicts, w: &World, owners: &[Focus], pass: bool, oracle: &str, detail: &str) {
    let strict = std::env::var("A2V_PD_DIRECTED").map(|v| v != "0").unwrap_or(DIRECTED_STRICT);
    if !pass && (!strict || (PENDING.contains(&oracle) && std::env::var("A2V_PD_DIRECTED").map(|v| v != "1").unwrap_or(true))) { vd.out.count(&format!("pending-fix:{}", oracle)); return; }
    let _ = w;
    for f in owners { vd.v(*f, pass, oracle, detail, &[format!("directed scenario {}", oracle)]); }
}

fn directed(w: &World, vd: &mut Verdicts) {
    use a2kit::fs::{prodos, DiskFS};
    use a2kit::img;
    let mk = || -> Result<prodos::Disk, String> {
        let img = Box::new(img::dsk_po::PO::create(280));
        let mut d = prodos::Disk::from_img(img).map_err(|e| e.to_string())?;
        d.format("VERIF", true, None).map_err(|e| e.to_string())?;
        Ok(d)
    };
    let file = |d: &mut prodos::Disk, path: &str, chunks: Vec<(usize, Vec<u8>)>, eof: usize| -> Result<usize, String> {
        let mut f = d.new_fimg(None, true, path).map_err(|e| e.to_string())?;
        for (i, c) in chunks { f.chunks.insert(i, c); }
        f.set_eof(eof); f.access = vec![0xC3]; f.fs_type = vec![6];
        d.put(&f).map_err(|e| e.to_string())
    };
    // A: an emptied directory that has grown to a second block is deleted
    let a = guarded(|| -> Result<Option<String>, String> {
        let mut d = mk()?;
        d.create("D").map_err(|e| e.to_string())?;
        for i in 0..13 { file(&mut d, &format!("D/F{}", i), vec![(0, vec![i as u8 + 1; 10])], 10)?; }
        let keep = vec![0xAAu8; 512];
        file(&mut d, "KEEP", vec![(0, keep.clone())], 512)?;
        for i in 0..13 { d.delete(&format!("D/F{}", i)).map_err(|e| e.to_string())?; }
        let free0 = d.stat().map_err(|e| e.to_string())?.free_blocks;
        let bytes0 = d.get_img().to_bytes();
        let r = d.delete("D").map_err(|e| e.to_string());
        let free1 = d.stat().map_err(|e| e.to_string())?.free_blocks;
        let rows = d.catalog_to_vec("/").map_err(|e| e.to_string())?;
        let listed = rows.iter().any(|r| r.ends_with("  D"));
        match &r {
            Ok(()) => { if listed || free1 != free0 + 2 { return Ok(Some(format!("delete D succeeded but listed={} free {}->{}", listed, free0, free1))); } }
            Err(e) => { if d.get_img().to_bytes() != bytes0 { return Ok(Some(format!("delete D refused ({}) but the volume changed: free {}->{}, D still listed={}", e, free0, free1, listed))); } }
        }
        // the blocks the directory had are handed out again: everything must still be listable and readable
        file(&mut d, "NEW", vec![(0, vec![0x55; 512]), (1, vec![0x66; 512])], 1024)?;
        if let Err(e) = d.tree(false, None) { return Ok(Some(format!("after delete D => {:?} and put NEW the volume cannot be listed: {}", r, e))); }
        match d.get("KEEP") { Ok(g) => if g.chunks.get(&0) != Some(&keep) { return Ok(Some("KEEP changed".to_string())); }, Err(e) => return Ok(Some(format!("KEEP unreadable: {}", e))) }
        Ok(None)
    });
    match a {
        Ok(Ok(None)) => report(vd, w, &[Focus::C02, Focus::C03, Focus::C05], true, "prodos-delete-grown-directory", ""),
        Ok(Ok(Some(why))) => report(vd, w, &[Focus::C02, Focus::C03, Focus::C05], false, "prodos-delete-grown-directory", &format!("mkdir D; 13 files into D (second directory block); delete them; delete D: {}", why)),
        Ok(Err(e)) => vd.out.count(&format!("directed-setup-error:{}", e)),
        Err(p) => report(vd, w, &[Focus::C03], false, "prodos-delete-grown-directory", &format!("panic {}", p)),
    }
    // B: a file image with a chunk index beyond the 128 x 256 blocks a ProDOS file can have
    let b = guarded(|| -> Result<Option<String>, String> {
        let mut d = mk()?;
        file(&mut d, "KEEP", vec![(0, vec![0xAA; 512])], 512)?;
        let bytes0 = d.get_img().to_bytes();
        let r = file(&mut d, "BIG", vec![(0, vec![1; 512]), (32768, vec![2; 512])], 512);
        match r {
            Ok(_) => Ok(Some("put of chunks {0, 32768} was accepted (index block 128 does not exist in the format; the end of file does not fit 24 bits)".to_string())),
            Err(e) => if d.get_img().to_bytes() != bytes0 { Ok(Some(format!("refused ({}) but the volume changed", e))) } else { Ok(None) },
        }
    });
    match b {
        Ok(Ok(None)) => report(vd, w, &[Focus::C01, Focus::C03], true, "prodos-oversize-put-refused", ""),
        Ok(Ok(Some(why))) => report(vd, w, &[Focus::C01, Focus::C03], false, "prodos-oversize-put-refused", &why),
        Ok(Err(e)) => vd.out.count(&format!("directed-setup-error:{}", e)),
        Err(p) => report(vd, w, &[Focus::C01, Focus::C03], false, "prodos-oversize-put-refused", &format!("panic {}", p)),
    }
    // C: volumes of 4096 x k blocks.  ProDOS gives them k bitmap blocks; a2kit as written counts k + 1: its own format
    // loses one block, and on a volume laid out the ProDOS way the block after the bitmap (an ordinary block) is taken
    // for a bitmap block: storing into it panics.  (finding `prodos-bitmap-block-count`, proposed_fixes/prodos-bitmap-block-count.diff)
    let c = guarded(|| -> Result<Option<String>, String> {
        use a2kit::img::DiskImage;
        let img = Box::new(img::dsk_po::PO::create(4096));
        let mut d = prodos::Disk::from_img(img).map_err(|e| e.to_string())?;
        d.format("VERIF", false, None).map_err(|e| e.to_string())?;
        let free = d.stat().map_err(|e| e.to_string())?.free_blocks;
        if free != 4096 - 7 { return Ok(Some(format!("format of a 4096-block volume reports {} free blocks: boot 2 + directory 4 + bitmap 1 are in use, {} are neither free nor reachable", free, 4096 - 7 - free as usize))); }
        // the ProDOS layout of an 8192-block volume: bitmap blocks 6 and 7, block 8 is free
        let img = Box::new(img::dsk_po::PO::create(8192));
        let mut d = prodos::Disk::from_img(img).map_err(|e| e.to_string())?;
        d.format("VERIF", false, None).map_err(|e| e.to_string())?;
        let mut bytes = d.get_img().to_bytes();
        bytes[6 * 512 + 1] |= 0x80;
        let img2 = Box::new(img::dsk_po::PO::from_bytes(&bytes).map_err(|e| e.to_string())?);
        let mut d2 = prodos::Disk::from_img(img2).map_err(|e| e.to_string())?;
        match guarded(|| file(&mut d2, "A", vec![(0, vec![7; 100])], 100)) {
            Ok(Ok(_)) => Ok(None),
            Ok(Err(e)) => Ok(Some(format!("put of a 100-byte file on an 8192-block volume laid out the ProDOS way (bitmap in blocks 6 and 7, block 8 free) refused: {}", e))),
            Err(p) => Ok(Some(format!("put of a 100-byte file on an 8192-block volume laid out the ProDOS way (bitmap in blocks 6 and 7, block 8 free) panics: {}", p))),
        }
    });
    match c {
        Ok(Ok(None)) => report(vd, w, &[Focus::C03, Focus::C04], true, "prodos-bitmap-block-count", ""),
        Ok(Ok(Some(why))) => report(vd, w, &[Focus::C03, Focus::C04], false, "prodos-bitmap-block-count", &why),
        Ok(Err(e)) => vd.out.count(&format!("directed-setup-error:{}", e)),
        Err(p) => report(vd, w, &[Focus::C03, Focus::C04], false, "prodos-bitmap-block-count", &format!("panic {}", p)),
    }
    // D: a sparse file image without chunk 0 (finding `prodos-put-first-chunk-hole`, proposed_fixes/prodos-put-first-chunk-hole.diff)
    let dsc = guarded(|| -> Result<Option<String>, String> {
        let mut d = mk()?;
        file(&mut d, "KEEP", vec![(0, vec![0xAA; 512])], 512)?;
        let data = vec![0x41u8; 512];
        match file(&mut d, "H", vec![(1, data.clone())], 1024) {
            Err(_) => Ok(None), // refusing would be sound too
            Ok(_) => {
                let g = d.get("H").map_err(|e| e.to_string())?;
                let mut keys: Vec<usize> = g.chunks.keys().cloned().collect();
                keys.sort();
                if keys != vec![1] || g.chunks.get(&1) != Some(&data) {
                    return Ok(Some(format!("put H chunks={{1}} eof=1024 accepted; get H returns chunks {:?} (chunk 0 is the index block itself: the index block's slot 0 points to the index block)", keys)));
                }
                Ok(None)
            }
        }
    });
    match dsc {
        Ok(Ok(None)) => report(vd, w, &[Focus::C01, Focus::C03], true, "prodos-put-first-chunk-hole", ""),
        Ok(Ok(Some(why))) => report(vd, w, &[Focus::C01, Focus::C03], false, "prodos-put-first-chunk-hole", &why),
        Ok(Err(e)) => vd.out.count(&format!("directed-setup-error:{}", e)),
        Err(p) => report(vd, w, &[Focus::C01, Focus::C03], false, "prodos-put-first-chunk-hole", &format!("panic {}", p)),
    }
    // E: a file image one of whose fields is too short (finding `prodos-put-field-lengths`, proposed_fixes/prodos-put-field-lengths.diff):
    // refusing is right, but not after the file count of the directory has been raised (and not with a panic)
    let e = guarded(|| -> Result<Option<String>, String> {
        for which in ["fs_type", "aux", "version", "access"] {
            let mut d = mk()?;
            file(&mut d, "KEEP", vec![(0, vec![0xAA; 512])], 512)?;
            let bytes0 = d.get_img().to_bytes();
            let mut f = d.new_fimg(None, true, "S").map_err(|e| e.to_string())?;
            f.chunks.insert(0, vec![1; 16]);
            f.set_eof(16); f.access = vec![0xC3]; f.fs_type = vec![6];
            match which { "fs_type" => f.fs_type = vec![], "aux" => f.aux = vec![0], "version" => f.version = vec![], _ => f.access = vec![] }
            match guarded(|| d.put(&f).map_err(|e| e.to_string())) {
                Ok(Ok(_)) => return Ok(Some(format!("put with a {} field that is too short was accepted", which))),
                Ok(Err(e)) => if d.get_img().to_bytes() != bytes0 {
                    let b = d.get_img().to_bytes();
                    return Ok(Some(format!("put S with a {} field that is too short is refused ({}) but the volume changed: the file count of the volume directory is {} with 1 entry in use", which, e, b[1024 + 4 + 0x21])));
                },
                Err(p) => return Ok(Some(format!("put S with a {} field that is too short panics: {}", which, p))),
            }
        }
        Ok(None)
    });
    match e {
        Ok(Ok(None)) => report(vd, w, &[Focus::C02, Focus::C03], true, "prodos-put-field-lengths", ""),
        Ok(Ok(Some(why))) => report(vd, w, &[Focus::C02, Focus::C03], false, "prodos-put-field-lengths", &why),
        Ok(Err(e)) => vd.out.count(&format!("directed-setup-error:{}", e)),
        Err(p) => report(vd, w, &[Focus::C02, Focus::C03], false, "prodos-put-field-lengths", &format!("panic {}", p)),
    }
    variant_tie(w, vd);
}

/// The byte-exact tie at the two inputs where the variants `bitmapCeil` / `firstHole` of the model differ (the generator of
/// fs.rs produces neither a volume of 4096 x k blocks nor a file image without chunk 0): format of a 4096-block volume,
/// and put of the chunks {1} on a 280-block volume, each compared unit for unit with a private driver that was told
/// the probed variant; then a put with an empty `fs_type` and the put of a sparse tree file (chunks {0, 300}).  Exact before and after the repairs are applied.
fn variant_tie(w: &World, vd: &mut Verdicts) {
    use a2kit::fs::{prodos, DiskFS};
    use a2kit::img;
    let mut drv = match Drv::spawn() { Some(d) => d, None => { vd.out.count("variant-tie:no-driver"); return; } };
    let v = variant_bits();
    let mirror = |drv: &mut Drv, bytes: &[u8], open: bool| -> Result<(), String> {
        let n = bytes.len() / 512;
        if open { let a = drv.ask(&format!("fs open prodos 512 {}", n)); if a != "ok" { return Err(format!("open: {}", a)); } }
        let mut req = String::from("fs set");
        for i in 0..n {
            req.push_str(&format!(" {}:{}", i, hx(&bytes[i * 512..(i + 1) * 512])));
            if req.len() > 200_000 { let a = drv.ask(&req); if a != "ok" { return Err(format!("set: {}", a)); } req = String::from("fs set"); }
        }
        if req.len() > 6 { let a = drv.ask(&req); if a != "ok" { return Err(format!("set: {}", a)); } }
        Ok(())
    };
    let r = guarded(|| -> Result<Option<String>, String> {
        // 1: format of a 4096-block volume
        let img = Box::new(img::dsk_po::PO::create(4096));
        let mut d = prodos::Disk::from_img(img).map_err(|e| e.to_string())?;
        let time = pd_time();
        d.format("VERIF", true, None).map_err(|e| e.to_string())?;
        mirror(&mut drv, &d.get_img().to_bytes(), true)?;
        let a = ask(&mut drv, &format!("format {} {} cmp ok", hxs("VERIF"), hx(&time)));
        if a != "ok" { return Ok(Some(format!("format of a 4096-block volume (variant {:?}): model answered [{}]", v, a))); }
        // 2: put of a file image without chunk 0
        let img = Box::new(img::dsk_po::PO::create(280));
        let mut d = prodos::Disk::from_img(img).map_err(|e| e.to_string())?;
        let time = pd_time();
        d.format("VERIF", true, None).map_err(|e| e.to_string())?;
        mirror(&mut drv, &d.get_img().to_bytes(), true)?;
        let a = ask(&mut drv, &format!("format {} {} cmp ok", hxs("VERIF"), hx(&time)));
        if a != "ok" { return Ok(Some(format!("format of a 280-block volume: model answered [{}]", a))); }
        let data = vec![0x41u8; 512];
        let mut f = d.new_fimg(None, true, "H").map_err(|e| e.to_string())?;
        f.chunks.insert(1, data.clone());
        f.set_eof(1024); f.access = vec![0xC3]; f.fs_type = vec![6];
        let time = pd_time();
        let res = d.put(&f).map(|_| ()).map_err(|e| e.to_string());
        mirror(&mut drv, &d.get_img().to_bytes(), false)?;
        let a = ask(&mut drv, &format!("put {} {} {} {} {} {} {} 1:{}", hxs("H"), hx(&f.fs_type), hx(&f.aux), hx(&f.access), 1024, hx(&time), res_tok(&res), hx(&data)));
        if a != "ok" { return Ok(Some(format!("put H chunks={{1}} (variant {:?}, real {}): model answered [{}]", v, res_tok(&res), a))); }
        // 3: put of a file image with an empty `fs_type`
        let mut f = d.new_fimg(None, true, "S").map_err(|e| e.to_string())?;
        f.chunks.insert(0, vec![1u8; 16]);
        f.set_eof(16); f.access = vec![0xC3]; f.fs_type = vec![];
        let time = pd_time();
        let res = d.put(&f).map(|_| ()).map_err(|e| e.to_string());
        mirror(&mut drv, &d.get_img().to_bytes(), false)?;
        let a = ask(&mut drv, &format!("put {} {} {} {} {} {} {} 0:-", hxs("S"), hx(&f.fs_type), hx(&f.aux), hx(&f.access), 16, hx(&time), res_tok(&res)));
        if a != "ok" { return Ok(Some(format!("put S with an empty fs_type (variant {:?}, real {}): model answered [{}]", v, res_tok(&res), a))); }
        // 4: put of a sparse tree file (chunks 0 and 300: master index block, two index blocks, two data blocks)
        let d0 = vec![0x42u8; 512];
        let d300 = vec![0x43u8; 100];
        let mut f = d.new_fimg(None, true, "T").map_err(|e| e.to_string())?;
        f.chunks.insert(0, d0.clone());
        f.chunks.insert(300, d300.clone());
        f.set_eof(300 * 512 + 100); f.access = vec![0xC3]; f.fs_type = vec![6];
        let time = pd_time();
        let res = d.put(&f).map(|_| ()).map_err(|e| e.to_string());
        mirror(&mut drv, &d.get_img().to_bytes(), false)?;
        let a = ask(&mut drv, &format!("put {} {} {} {} {} {} {} 0:{},300:{}", hxs("T"), hx(&f.fs_type), hx(&f.aux), hx(&f.access), 300 * 512 + 100, hx(&time), res_tok(&res), hx(&d0), hx(&d300)));
        if a != "ok" { return Ok(Some(format!("put T chunks={{0,300}} (a tree file; variant {:?}, real {}): model answered [{}]", v, res_tok(&res), a))); }
        // 5: delete of the tree file
        let res = d.delete("T").map_err(|e| e.to_string());
        mirror(&mut drv, &d.get_img().to_bytes(), false)?;
        let a = ask(&mut drv, &format!("delete {} {}", hxs("T"), res_tok(&res)));
        if a != "ok" { return Ok(Some(format!("delete T (a tree file; real {}): model answered [{}]", res_tok(&res), a))); }
        Ok(None)
    });
    match r {
        Ok(Ok(None)) => verdict(vd, w, true, "", ""),
        Ok(Ok(Some(why))) => verdict(vd, w, false, "variant", &format!("concrete ProDOS model disagrees at a variant point: {}", why)),
        Ok(Err(e)) => vd.out.count(&format!("variant-tie-setup-error:{}", e.chars().take(60).collect::<String>().replace(' ', "_"))),
        Err(p) => vd.out.count(&format!("variant-tie-panic:{}", p.chars().take(60).collect::<String>().replace(' ', "_"))),
    }
}
