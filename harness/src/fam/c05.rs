//! harness family c05: the file-system engine (fam/fs.rs) with the oracles of property C05 switched on
use crate::util::*;

pub fn run(ctx: &mut Ctx) { super::fs::run(ctx, super::fs::Focus::C05) }
