//! byte-exact tie of the concrete CP/M model (Lean `Model/Fs/Cpm.lean`, driver family `fsc`): called from
//! fs.rs::post_step after every executed operation on a CP/M volume (`w.last_op` describes it; `None` = nothing was
//! executed since the last call) on every container, because the raw units are the allocation blocks as
//! `DiskFS::read_block` returns them.  Switch off with `A2V_NO_FSCPM=1`.
//!
//! The driver holds the mirrored real image (family `fs`) and the model's own image.  For every operation the
//! model applies the same operation with the same arguments and must produce the same result class and an image
//! equal to the real one block for block; afterwards free count, catalog rows and (after a successful put, and
//! for a get of a missing file) the file as `get` returns it are compared.  The first call of a history finds
//! the model uninitialised (`fsc state` = `empty`): the model then formats a blank image itself (`fsc format`
//! when nothing has been executed yet — compared with the mirror — or `fsc init` followed by the operation).
use super::fs::{Drv, Focus, Fs, OpRecord, Verdicts, World};
use crate::util::*;
use a2kit::fs::FileImage;
use std::collections::BTreeMap;

/// `pack.rs::pack_date` recomputed by the harness (the clock is pinned by the shim)
fn cpm_pack(now: chrono::NaiveDateTime) -> Vec<u8> {
    use chrono::Timelike;
    let ref_date = chrono::NaiveDate::from_ymd_opt(1978, 1, 1).unwrap().and_hms_opt(0, 0, 0).unwrap();
    let d = now.signed_duration_since(ref_date).num_days();
    let days: [u8; 2] = if d > u16::MAX as i64 { u16::MAX.to_le_bytes() } else if d < 0 { [0, 0] } else { (d as u16 + 1).to_le_bytes() };
    let hours = (now.hour() / 10) * 16 + now.hour() % 10;
    let minutes = (now.minute() / 10) * 16 + now.minute() % 10;
    vec![days[0], days[1], hours as u8, minutes as u8]
}
fn cpm_now() -> Vec<u8> { cpm_pack(chrono::Local::now().naive_local()) }

/// what `fs.rs::make_volume` passes to `format`
fn format_args(w: &World) -> (String, String) {
    if w.cfg.fs == Fs::Cpm3 {
        let t = chrono::NaiveDate::from_ymd_opt(2000, 1, 1).unwrap().and_hms_opt(0, 0, 0).unwrap();
        (hx(b"VERIF"), hx(&cpm_pack(t)))
    } else { ("-".to_string(), "-".to_string()) }
}

/// result class of a real CP/M operation in the vocabulary of the model (`Err.token`)
fn err_tok(e: &str) -> String {
    match e {
        "bad data format" => "badformat", "file is read only" => "readonly", "drive not found" => "select", "directory full" => "dirfull",
        "disk full" => "diskfull", "cannot read" => "readerror", "file exists" => "exists", "file not found" => "notfound",
        "PANIC" => "panic", _ => return format!("other({})", e.replace(' ', "_")),
    }.to_string()
}
fn res_tok(r: &Result<(), String>) -> String { match r { Ok(()) => "ok".to_string(), Err(e) => format!("err:{}", err_tok(e)) } }

/// Adler-32 over (index low, index high, data…) of every chunk in index order
fn adler(chunks: &BTreeMap<usize, Vec<u8>>) -> u64 {
    let (mut a, mut b) = (1u64, 0u64);
    for (i, c) in chunks {
        for x in [(*i % 256) as u8, (*i / 256 % 256) as u8].iter().chain(c.iter()) { a = (a + *x as u64) % 65521; b = (b + a) % 65521; }
    }
    b * 65536 + a
}
fn get_answer(r: &Result<Result<FileImage, String>, String>) -> String {
    match r {
        Ok(Ok(g)) => { let cs: BTreeMap<usize, Vec<u8>> = g.chunks.iter().map(|(k, v)| (*k, v.clone())).collect(); format!("ok {} {} {} {} {} {}", g.get_eof(), hx(&g.access), hx(&g.created), hx(&g.modified), cs.len(), adler(&cs)) }
        Ok(Err(e)) => format!("err:{}", err_tok(e)),
        Err(_) => "err:panic".to_string(),
    }
}

fn verdict(vd: &mut Verdicts, w: &World, pass: bool, kind: &str, detail: &str) {
    let hist = w.hist.clone();
    for f in [Focus::C01, Focus::C02, Focus::C03, Focus::C05] {
        if pass { vd.v(f, true, "concrete-model", "", &[]); } else { vd.v(f, false, &format!("concrete-model:{}", kind), detail, &hist); }
    }
}

/// send one request to the concrete model; `expect` = the real answer of a query, None = a mutating operation
/// (the driver compares result class and the whole image with the mirror and answers `ok`)
fn tie(drv: &mut Drv, w: &World, vd: &mut Verdicts, req: &str, expect: Option<String>, desc: &str) {
    let ans = drv.ask(&format!("fsc {}", req));
    let want = expect.unwrap_or("ok".to_string());
    if ans == want { verdict(vd, w, true, "", ""); return; }
    let kind = if ans.starts_with("bad result") { "result" } else if ans.starts_with("bad block") { "image" } else { req.split(' ').next().unwrap_or("?") }.to_string();
    let short: String = req.chars().take(160).collect();
    verdict(vd, w, false, &kind, &format!("concrete CP/M model disagrees after [{}]: request [{}] model answered [{}] expected [{}]", desc, short, ans, want));
}

fn hxs(s: &str) -> String { hx(s.as_bytes()) }

/// the `fsc` request describing an executed operation
fn op_request(o: &OpRecord) -> Option<String> {
    let real = res_tok(&o.result);
    Some(match o.kind {
        "put" => {
            // a refusal decided before anything is written does not depend on the data: send the indices only
            let early = matches!(real.as_str(), "err:exists" | "err:diskfull" | "err:dirfull" | "err:select");
            let cs = if o.chunks.is_empty() { "-".to_string() } else { o.chunks.iter().map(|(i, c)| if early { format!("{}:-", i) } else { format!("{}:{}", i, hx(c)) }).collect::<Vec<_>>().join(",") };
            format!("put {} {} {} {} {} {} {}", hxs(&o.spelled), hx(&o.fs_type), hx(&o.access), o.eof, hx(&cpm_now()), real, cs)
        }
        "delete" => format!("delete {} {}", hxs(&o.spelled), real),
        "rename" => format!("rename {} {} {}", hxs(&o.spelled), hxs(&o.arg2), real),
        "lock" => format!("lock {} {}", hxs(&o.spelled), real),
        "unlock" => format!("unlock {} {}", hxs(&o.spelled), real),
        "retype" => format!("retype {} {} {}", hxs(&o.spelled), hxs(&o.arg2), real),
        "protect" => {
            let t: Vec<&str> = o.arg2.split(' ').collect();
            if t.len() != 4 { return None; }
            let b = |s: &str| if s == "true" { "1" } else { "0" };
            format!("protect {} {} {} {} {} {}", hxs(&o.spelled), hxs(t[0]), b(t[1]), b(t[2]), b(t[3]), real)
        }
        "unprotect" => format!("unprotect {} {}", hxs(&o.spelled), real),
        _ => return None,
    })
}

/// Direct oracle for a defect the refinement proof exposed (`proposed_fixes/cpm-user-prefix.diff`): `split_user_filename`
/// parses the user prefix with `u8::from_str` ("01:", "+1:" mean user 1) while `get_file` compares the spelled string with
/// the keys "1:NAME.TYP" — so a `put` or `rename` under an alias spelling of an existing name is accepted and two files
/// end up under one name (C05: no duplicate names; C03: the independent reader then finds duplicate extent numbers).
/// Runs once per harness run on a fresh Apple CP/M volume; independent of the history being checked.
fn prefix_alias_probe(vd: &mut Verdicts) {
    use a2kit::fs::DiskFS;
    static DONE: std::sync::atomic::AtomicBool = std::sync::atomic::AtomicBool::new(false);
    if vd.focus != Focus::C05 && vd.focus != Focus::C03 { return; }
    if DONE.swap(true, std::sync::atomic::Ordering::SeqCst) { return; }
    let res = guarded(|| -> Result<Option<String>, String> {
        let img = a2kit::img::dsk_do::DO::create(35, 16);
        let dpb = a2kit::bios::dpb::DiskParameterBlock::create(&a2kit::img::names::A2_DOS33_KIND);
        let mut disk = a2kit::fs::cpm::Disk::from_img(Box::new(img), dpb, [2, 2, 3]).map_err(|e| e.to_string())?;
        disk.format("", None).map_err(|e| e.to_string())?;
        let mut f1 = disk.new_fimg(None, false, "1:B.TXT").map_err(|e| e.to_string())?;
        f1.desequence(b"first");
        disk.put(&f1).map_err(|e| e.to_string())?;
        for alias in ["01:B.TXT", "+1:B.TXT", "1:B.TXT:X"] {
            if let Ok(mut f2) = disk.new_fimg(None, false, alias) {
                f2.desequence(b"second");
                if disk.put(&f2).is_ok() { return Ok(Some(format!("put {} accepted although 1:B.TXT exists", alias))); }
            }
        }
        let mut f3 = disk.new_fimg(None, false, "C.TXT").map_err(|e| e.to_string())?;
        f3.desequence(b"third");
        disk.put(&f3).map_err(|e| e.to_string())?;
        for alias in ["01:B.TXT", "+1:B.TXT"] {
            if disk.rename("C.TXT", alias).is_ok() { return Ok(Some(format!("rename C.TXT -> {} accepted although 1:B.TXT exists", alias))); }
        }
        Ok(None)
    });
    let hist: Vec<String> = vec!["fresh cpm2/do volume: put 1:B.TXT".to_string()];
    for f in [Focus::C05, Focus::C03] {
        match &res {
            Ok(Ok(None)) => vd.v(f, true, "user-prefix-alias-refused", "", &[]),
            Ok(Ok(Some(what))) => vd.v(f, false, "user-prefix-alias-refused", what, &hist),
            Ok(Err(e)) => vd.v(f, false, "user-prefix-alias-refused", &format!("probe could not run: {}", e), &hist),
            Err(p) => vd.v(f, false, "user-prefix-alias-refused", &format!("probe panicked: {}", p), &hist),
        }
    }
}

/// a fresh Apple CP/M 2 volume holding the bystander `A.TXT`
fn scratch_volume() -> Result<a2kit::fs::cpm::Disk, String> {
    use a2kit::fs::DiskFS;
    let img = a2kit::img::dsk_do::DO::create(35, 16);
    let dpb = a2kit::bios::dpb::DiskParameterBlock::create(&a2kit::img::names::A2_DOS33_KIND);
    let mut disk = a2kit::fs::cpm::Disk::from_img(Box::new(img), dpb, [2, 2, 3]).map_err(|e| e.to_string())?;
    disk.format("", None).map_err(|e| e.to_string())?;
    let mut f0 = disk.new_fimg(None, false, "A.TXT").map_err(|e| e.to_string())?;
    f0.desequence(b"bystander");
    disk.put(&f0).map_err(|e| e.to_string())?;
    Ok(disk)
}

/// Which variant of the code is running (DESIGN.md section 2: variant by probe).  The model carries both variants of two
/// pieces; the driver is told after every `fs open` (which resets its state):
/// * `ifaceguard`: `write_file` refuses a file image that sets an interface attribute F5–F8 (`proposed_fixes/cpm-put-interface-flags.diff`)
/// * `absidx`: `read_file` restarts the block count at every physical extent (`proposed_fixes/cpm-get-partial-extent.diff`);
///   probed on a Kaypro 4 volume (EXM = 1) whose first directory entry is patched to use its first logical extent only
fn variants() -> (bool, bool) {
    use a2kit::fs::DiskFS;
    static V: std::sync::OnceLock<(bool, bool)> = std::sync::OnceLock::new();
    *V.get_or_init(|| {
        let guard = guarded(|| -> Result<bool, String> {
            let mut disk = scratch_volume()?;
            let mut f = disk.new_fimg(None, false, "B.TXT").map_err(|e| e.to_string())?;
            f.desequence(b"probe");
            if f.access.len() != 11 { return Ok(false); }
            f.access[4] |= 0x80;
            Ok(disk.put(&f).is_err())
        });
        let absidx = guarded(|| -> Result<bool, String> {
            let kind = a2kit::img::names::KAYPRO4_KIND;
            let img = a2kit::img::imd::Imd::create(kind);
            let dpb = a2kit::bios::dpb::DiskParameterBlock::create(&kind);
            let mut disk = a2kit::fs::cpm::Disk::from_img(Box::new(img), dpb, [2, 2, 3]).map_err(|e| e.to_string())?;
            disk.format("", None).map_err(|e| e.to_string())?;
            let mut f = disk.new_fimg(None, false, "BIG.DAT").map_err(|e| e.to_string())?;
            f.desequence(&vec![7u8; 40960]);
            disk.put(&f).map_err(|e| e.to_string())?;
            let mut b0 = disk.read_block("0").map_err(|e| e.to_string())?;
            if b0.len() < 32 || b0[12] != 1 { return Err("unexpected directory".to_string()); }
            b0[12] = 0;
            for k in 8..16 { b0[16 + k] = 0; }
            disk.write_block("0", &b0).map_err(|e| e.to_string())?;
            let g = disk.get("BIG.DAT").map_err(|e| e.to_string())?;
            Ok(g.chunks.contains_key(&16) && !g.chunks.contains_key(&24))
        });
        (matches!(guard, Ok(Ok(true))), matches!(absidx, Ok(Ok(true))))
    })
}

/// Directed scenario, once per run (the generator never sets these bits): `put` of a file image whose `access` sets the
/// interface attribute F5 (also F8) on a volume holding a bystander.  Strict oracle `cpm-put-interface-flags` (C02, C05): the put is
/// refused — or, if it is accepted, the bystander is still fetched unchanged, the catalog still lists both files, and the new file
/// can be fetched and deleted.  (As written the put was accepted and `build_files` then rejected the whole directory: every `get`,
/// `catalog`, `delete`, `put` failed with "bad data format".)
fn iface_flags_scenario(vd: &mut Verdicts) {
    use a2kit::fs::DiskFS;
    static DONE: std::sync::atomic::AtomicBool = std::sync::atomic::AtomicBool::new(false);
    if vd.focus != Focus::C02 && vd.focus != Focus::C05 { return; }
    if DONE.swap(true, std::sync::atomic::Ordering::SeqCst) { return; }
    let res = guarded(|| -> Result<Option<String>, String> {
        for bit in [4usize, 7] {
            let mut disk = scratch_volume()?;
            let mut f = disk.new_fimg(None, false, "B.TXT").map_err(|e| e.to_string())?;
            f.desequence(b"with interface attribute");
            if f.access.len() != 11 { return Err("access is not 11 bytes".to_string()); }
            f.access[bit] |= 0x80;
            let accepted = disk.put(&f).is_ok();
            match disk.get("A.TXT") {
                Ok(g) => if !g.sequence().starts_with(b"bystander") { return Ok(Some(format!("F{}: bystander A.TXT changed (put accepted: {})", bit + 1, accepted))); },
                Err(e) => return Ok(Some(format!("F{}: put accepted: {}; get of the bystander A.TXT fails: {}", bit + 1, accepted, e))),
            }
            match disk.catalog_to_vec("/") {
                Ok(rows) => if rows.len() != (if accepted { 2 } else { 1 }) { return Ok(Some(format!("F{}: put accepted: {}; catalog has {} rows", bit + 1, accepted, rows.len()))); },
                Err(e) => return Ok(Some(format!("F{}: put accepted: {}; catalog fails: {}", bit + 1, accepted, e))),
            }
            if accepted {
                if let Err(e) = disk.get("B.TXT") { return Ok(Some(format!("F{}: accepted file cannot be fetched: {}", bit + 1, e))); }
                if let Err(e) = disk.delete("B.TXT") { return Ok(Some(format!("F{}: accepted file cannot be deleted: {}", bit + 1, e))); }
            }
        }
        Ok(None)
    });
    let hist: Vec<String> = vec!["fresh cpm2/do volume: put A.TXT; put B.TXT with access[4] |= 0x80 (F5), resp. access[7] (F8)".to_string()];
    for f in [Focus::C02, Focus::C05] {
        match &res {
            Ok(Ok(None)) => vd.v(f, true, "cpm-put-interface-flags", "", &[]),
            Ok(Ok(Some(what))) => vd.v(f, false, "cpm-put-interface-flags", what, &hist),
            Ok(Err(e)) => vd.v(f, false, "cpm-put-interface-flags", &format!("scenario could not run: {}", e), &hist),
            Err(p) => vd.v(f, false, "cpm-put-interface-flags", &format!("scenario panicked: {}", p), &hist),
        }
    }
}

pub fn after_step(drv: &mut Drv, w: &mut World, vd: &mut Verdicts, desc: &str) {
    if std::env::var("A2V_NO_FSCPM").is_ok() { return; }
    prefix_alias_probe(vd);
    iface_flags_scenario(vd);
    let op = w.last_op.clone();
    // first call of this history: the model is told which code variants run, then formats its own blank image
    if drv.ask("fsc state") == "empty" {
        let (guard, absidx) = variants();
        let _ = drv.ask(&format!("fsc variant ifaceguard {}", if guard { 1 } else { 0 }));
        let _ = drv.ask(&format!("fsc variant absidx {}", if absidx { 1 } else { 0 }));
        let (vn, t) = format_args(w);
        if op.is_none() { tie(drv, w, vd, &format!("format {} {} ok", vn, t), None, "format"); }
        else { tie(drv, w, vd, &format!("init {} {}", vn, t), None, "format"); }
    }
    if let Some(o) = &op {
        if let Some(req) = op_request(o) { tie(drv, w, vd, &req, None, desc); }
    }
    // queries: free count, catalog rows, the file just stored, a file that is not there.  After a refused operation
    // the image is (checked to be) the one the queries were compared on after the previous step: nothing new to ask.
    let refused = matches!(&op, Some(o) if o.result.is_err());
    if refused && !desc.starts_with("get-missing") { return; }
    if let (Ok(f), Ok(Ok(rows))) = (w.free(), guarded(|| w.disk.catalog_to_vec("/").map_err(|e| e.to_string()))) {
        // `universal_row`: "{:4} {:5}  {}" = type, blocks, name
        let items: Vec<String> = rows.iter().map(|r| {
            match (r.get(..4), r.get(5..10), r.get(12..)) {
                (Some(t), Some(b), Some(n)) if r.len() > 12 => format!("{}:{}:{}", hxs(t.trim()), b.trim(), hxs(n)),
                _ => format!("?{}", r.replace(' ', "_")),
            }
        }).collect();
        tie(drv, w, vd, "q", Some(format!("ok {} {}", f, if items.is_empty() { "-".to_string() } else { items.join(",") })), desc);
    }
    if let Some(o) = &op {
        if o.kind == "put" && o.result.is_ok() {
            let res = w.get(&o.spelled);
            tie(drv, w, vd, &format!("get {}", hxs(&o.spelled)), Some(get_answer(&res)), desc);
        }
    }
    if let Some(rest) = desc.strip_prefix("get-missing ") {
        let name = rest.split(" => ").next().unwrap_or("").to_string();
        let res = w.get(&name);
        tie(drv, w, vd, &format!("get {}", hxs(&name)), Some(get_answer(&res)), desc);
    }
}
